/-
  Helper lemmas for C14 (grouped aggregation).
  Strategy: (1) moments — express the two-pass central moments through raw power sums `pw k`, which
  are additive over `++`; the streaming update and the Pébay merge then are identities between rational
  functions (`field_simp; ring`). (2) every field of `summarize vs` gets a closed form (reverse
  induction), so `merge` = accumulator of the concatenation is shown field by field. (3) groups are
  represented functionally (`keys.map fun k => (k, G k)`), for ANY key type with a lawful `==`; `addRow` /
  `addRowPivot` / `mergeGroups` are instances of one `upsert` whose effect on that representation is a single
  lemma; `aggregateSpec` and `aggregatePivotSpec` are instances of one grouped fold `foldG`, for which the closed
  form (`foldG_rep`) and partition independence (`parts_foldG`) are proved once. (4) rollup / cube: every key
  list is duplicate-free, so a row is counted once in each of its subtotal groups (`expand_filter`). (5) pivot:
  the accumulators of a group are a concatenation of per-pivot-value blocks (`cellSumm`).
-/
import PysparklingVerif.Model.Agg
import Mathlib.Tactic.FieldSimp
import Mathlib.Tactic.Ring
import Mathlib.Tactic.Positivity
import Mathlib.Tactic.Linarith
import Mathlib.Algebra.Order.Field.Rat

namespace PysparklingVerif.Agg
open PysparklingVerif.Sql

/-! ### reverse induction -/

theorem list_rev_ind {α : Type} {P : List α → Prop} (nil : P [])
    (snoc : ∀ l a, P l → P (l ++ [a])) : ∀ l, P l := by
  intro l
  rw [← List.reverse_reverse l]
  induction l.reverse with
  | nil => exact nil
  | cons a t ih => rw [List.reverse_cons]; exact snoc _ _ ih

/-! ### `rsum` and raw power sums -/

theorem foldl_add_acc (xs : List Rat) (a : Rat) :
    xs.foldl (· + ·) a = a + xs.foldl (· + ·) 0 := by
  induction xs generalizing a with
  | nil => simp
  | cons x xs ih =>
    simp only [List.foldl_cons]
    rw [ih (a + x), ih (0 + x)]; ring

@[simp] theorem rsum_nil : rsum [] = 0 := rfl

theorem rsum_cons (x : Rat) (xs : List Rat) : rsum (x :: xs) = x + rsum xs := by
  unfold rsum
  simp only [List.foldl_cons]
  rw [foldl_add_acc xs (0 + x)]; ring

theorem rsum_append (xs ys : List Rat) : rsum (xs ++ ys) = rsum xs + rsum ys := by
  induction xs with
  | nil => simp
  | cons x xs ih => simp only [List.cons_append, rsum_cons, ih]; ring

/-- `Σ x^k` -/
def pw (k : Nat) (xs : List Rat) : Rat := rsum (xs.map fun x => x ^ k)

@[simp] theorem pw_nil (k : Nat) : pw k [] = 0 := rfl
theorem pw_cons (k : Nat) (x : Rat) (xs : List Rat) : pw k (x :: xs) = x ^ k + pw k xs := by
  simp only [pw, List.map_cons, rsum_cons]
theorem pw_append (k : Nat) (xs ys : List Rat) : pw k (xs ++ ys) = pw k xs + pw k ys := by
  simp only [pw, List.map_append, rsum_append]
theorem pw_singleton (k : Nat) (x : Rat) : pw k [x] = x ^ k := by simp [pw_cons]

/-! ### central moments through power sums -/

def M2 (n s1 s2 : ℚ) : ℚ := s2 - s1^2/n
def M3 (n s1 s2 s3 : ℚ) : ℚ := s3 - 3*s1*s2/n + 2*s1^3/n^2
def M4 (n s1 s2 s3 s4 : ℚ) : ℚ := s4 - 4*s1*s3/n + 6*s1^2*s2/n^2 - 3*s1^4/n^3

theorem dev2 (xs : List Rat) (c : Rat) :
    rsum (xs.map fun x => (x - c) ^ 2) = pw 2 xs - 2 * c * rsum xs + xs.length * c ^ 2 := by
  induction xs with
  | nil => simp
  | cons x xs ih =>
    simp only [List.map_cons, rsum_cons, ih, pw_cons, List.length_cons]
    push_cast; ring

theorem dev3 (xs : List Rat) (c : Rat) :
    rsum (xs.map fun x => (x - c) ^ 3)
      = pw 3 xs - 3 * c * pw 2 xs + 3 * c ^ 2 * rsum xs - xs.length * c ^ 3 := by
  induction xs with
  | nil => simp
  | cons x xs ih =>
    simp only [List.map_cons, rsum_cons, ih, pw_cons, List.length_cons]
    push_cast; ring

theorem dev4 (xs : List Rat) (c : Rat) :
    rsum (xs.map fun x => (x - c) ^ 4)
      = pw 4 xs - 4 * c * pw 3 xs + 6 * c ^ 2 * pw 2 xs - 4 * c ^ 3 * rsum xs + xs.length * c ^ 4 := by
  induction xs with
  | nil => simp
  | cons x xs ih =>
    simp only [List.map_cons, rsum_cons, ih, pw_cons, List.length_cons]
    push_cast; ring

theorem central2_eq (xs : List Rat) : central 2 xs = M2 xs.length (rsum xs) (pw 2 xs) := by
  unfold central
  simp only [dev2, M2]
  by_cases hn : (xs.length : ℚ) = 0
  · simp [hn]
  · field_simp; ring

theorem central3_eq (xs : List Rat) :
    central 3 xs = M3 xs.length (rsum xs) (pw 2 xs) (pw 3 xs) := by
  unfold central
  simp only [dev3, M3]
  by_cases hn : (xs.length : ℚ) = 0
  · simp [hn]
  · field_simp; ring

theorem central4_eq (xs : List Rat) :
    central 4 xs = M4 xs.length (rsum xs) (pw 2 xs) (pw 3 xs) (pw 4 xs) := by
  unfold central
  simp only [dev4, M4]
  by_cases hn : (xs.length : ℚ) = 0
  · simp [hn]
  · field_simp; ring

/-! ### Pébay merge identities (pure rational functions) -/

theorem merge_m2 (n1 n2 a1 a2 b1 b2 : ℚ) (h1 : 0 < n1) (h2 : 0 < n2) :
    M2 n1 a1 a2 + M2 n2 b1 b2 + (b1/n2 - a1/n1) * ((b1/n2 - a1/n1) / (n1+n2)) * n1 * n2
      = M2 (n1+n2) (a1+b1) (a2+b2) := by
  have : n1 + n2 ≠ 0 := by positivity
  have : n1 ≠ 0 := by positivity
  have : n2 ≠ 0 := by positivity
  simp only [M2]; field_simp; ring

theorem merge_m3 (n1 n2 a1 a2 a3 b1 b2 b3 : ℚ) (h1 : 0 < n1) (h2 : 0 < n2) :
    M3 n1 a1 a2 a3 + M3 n2 b1 b2 b3
      + ((b1/n2 - a1/n1) / (n1+n2)) * ((b1/n2 - a1/n1) / (n1+n2)) * (b1/n2 - a1/n1) * n1 * n2 * (n1 - n2)
      + 3 * ((b1/n2 - a1/n1) / (n1+n2)) * (n1 * M2 n2 b1 b2 - n2 * M2 n1 a1 a2)
      = M3 (n1+n2) (a1+b1) (a2+b2) (a3+b3) := by
  have : n1 + n2 ≠ 0 := by positivity
  have : n1 ≠ 0 := by positivity
  have : n2 ≠ 0 := by positivity
  simp only [M2, M3]; field_simp; ring

theorem merge_m4 (n1 n2 a1 a2 a3 a4 b1 b2 b3 b4 : ℚ) (h1 : 0 < n1) (h2 : 0 < n2) :
    M4 n1 a1 a2 a3 a4 + M4 n2 b1 b2 b3 b4
      + ((b1/n2 - a1/n1) / (n1+n2)) * ((b1/n2 - a1/n1) / (n1+n2)) * ((b1/n2 - a1/n1) / (n1+n2))
          * (b1/n2 - a1/n1) * n1 * n2 * (n1 * n1 - n1 * n2 + n2 * n2)
      + 6 * ((b1/n2 - a1/n1) / (n1+n2)) * ((b1/n2 - a1/n1) / (n1+n2))
          * (n1 * n1 * M2 n2 b1 b2 + n2 * n2 * M2 n1 a1 a2)
      + 4 * ((b1/n2 - a1/n1) / (n1+n2)) * (n1 * M3 n2 b1 b2 b3 - n2 * M3 n1 a1 a2 a3)
      = M4 (n1+n2) (a1+b1) (a2+b2) (a3+b3) (a4+b4) := by
  have : n1 + n2 ≠ 0 := by positivity
  have : n1 ≠ 0 := by positivity
  have : n2 ≠ 0 := by positivity
  simp only [M2, M3, M4]; field_simp; ring

/-! ### streaming update identities (one new value `x`) -/

theorem add_m2 (n a1 a2 x : ℚ) (h : 0 < n) :
    M2 n a1 a2 + (x - a1/n) * ((x - a1/n) - (x - a1/n) / (n + 1))
      = M2 (n+1) (a1+x) (a2+x^2) := by
  have : n + 1 ≠ 0 := by positivity
  have : n ≠ 0 := by positivity
  simp only [M2]; field_simp; ring

theorem add_m3 (n a1 a2 a3 x : ℚ) (h : 0 < n) :
    M3 n a1 a2 a3 - 3 * ((x - a1/n) / (n + 1)) * M2 (n+1) (a1+x) (a2+x^2)
      + (x - a1/n) * ((x - a1/n) * (x - a1/n) - ((x - a1/n) / (n + 1)) * ((x - a1/n) / (n + 1)))
      = M3 (n+1) (a1+x) (a2+x^2) (a3+x^3) := by
  have : n + 1 ≠ 0 := by positivity
  have : n ≠ 0 := by positivity
  simp only [M2, M3]; field_simp; ring

theorem add_m4 (n a1 a2 a3 a4 x : ℚ) (h : 0 < n) :
    M4 n a1 a2 a3 a4 - 4 * ((x - a1/n) / (n + 1)) * M3 (n+1) (a1+x) (a2+x^2) (a3+x^3)
      - 6 * (((x - a1/n) / (n + 1)) * ((x - a1/n) / (n + 1))) * M2 (n+1) (a1+x) (a2+x^2)
      + (x - a1/n) * ((x - a1/n) * ((x - a1/n) * (x - a1/n))
          - ((x - a1/n) / (n + 1)) * (((x - a1/n) / (n + 1)) * ((x - a1/n) / (n + 1))))
      = M4 (n+1) (a1+x) (a2+x^2) (a3+x^3) (a4+x^4) := by
  have : n + 1 ≠ 0 := by positivity
  have : n ≠ 0 := by positivity
  simp only [M2, M3, M4]; field_simp; ring

/-! ### the moment invariant -/

def MomRep (s : St) (xs : List Rat) : Prop :=
  s.n = xs.length ∧ s.sum = rsum xs ∧ s.m2 = M2 xs.length (rsum xs) (pw 2 xs) ∧
  s.m3 = M3 xs.length (rsum xs) (pw 2 xs) (pw 3 xs) ∧
  s.m4 = M4 xs.length (rsum xs) (pw 2 xs) (pw 3 xs) (pw 4 xs)

theorem momentsAdd_rep (s : St) (xs : List Rat) (x : Rat) (h : MomRep s xs) :
    MomRep (momentsAdd s x) (xs ++ [x]) := by
  obtain ⟨hn, hs, h2, h3, h4⟩ := h
  have hlen : ((xs ++ [x]).length : ℚ) = (xs.length : ℚ) + 1 := by simp
  have hr : rsum (xs ++ [x]) = rsum xs + x := by rw [rsum_append]; simp [rsum_cons]
  have hp : ∀ k, pw k (xs ++ [x]) = pw k xs + x ^ k := fun k => by rw [pw_append, pw_singleton]
  unfold MomRep
  rw [hlen, hr, hp, hp, hp]
  by_cases h0 : s.n = 0
  · have hx : xs = [] := by
      rw [h0] at hn; exact List.eq_nil_of_length_eq_zero hn.symm
    subst hx
    simp only [pw_nil, rsum_nil, List.length_nil, Nat.cast_zero, M2, M3, M4] at hs h2 h3 h4
    refine ⟨by simp [momentsAdd, h0], by simp [momentsAdd, hs], ?_, ?_, ?_⟩
    · simp [momentsAdd, h0, h2, M2]
    · simp [momentsAdd, h0, h2, h3, M3]; ring
    · simp [momentsAdd, h0, h2, h3, h4, M4]; ring
  · have hif : s.n > 0 := Nat.pos_of_ne_zero h0
    have hpos : (0:ℚ) < xs.length := by rw [← hn]; exact_mod_cast hif
    have e2 : (momentsAdd s x).m2 = M2 (xs.length + 1) (rsum xs + x) (pw 2 xs + x ^ 2) := by
      simp only [momentsAdd, hif, if_true]
      rw [hn, hs, h2]
      exact add_m2 _ _ _ _ hpos
    have e3 : (momentsAdd s x).m3 = M3 (xs.length + 1) (rsum xs + x) (pw 2 xs + x ^ 2) (pw 3 xs + x ^ 3) := by
      have : (momentsAdd s x).m3 = s.m3 - 3 * ((x - s.sum / s.n) / ((s.n : ℚ) + 1)) * (momentsAdd s x).m2
        + (x - s.sum / s.n) * ((x - s.sum / s.n) * (x - s.sum / s.n) - ((x - s.sum / s.n) / ((s.n : ℚ) + 1)) * ((x - s.sum / s.n) / ((s.n : ℚ) + 1))) := by
        simp only [momentsAdd, hif, if_true]
      rw [this, e2, hn, hs, h3]
      exact add_m3 _ _ _ _ _ hpos
    refine ⟨by simp [momentsAdd, hn], by simp [momentsAdd, hs], e2, e3, ?_⟩
    have : (momentsAdd s x).m4 = s.m4 - 4 * ((x - s.sum / s.n) / ((s.n : ℚ) + 1)) * (momentsAdd s x).m3
        - 6 * (((x - s.sum / s.n) / ((s.n : ℚ) + 1)) * ((x - s.sum / s.n) / ((s.n : ℚ) + 1))) * (momentsAdd s x).m2
        + (x - s.sum / s.n) * ((x - s.sum / s.n) * ((x - s.sum / s.n) * (x - s.sum / s.n))
          - ((x - s.sum / s.n) / ((s.n : ℚ) + 1)) * (((x - s.sum / s.n) / ((s.n : ℚ) + 1)) * ((x - s.sum / s.n) / ((s.n : ℚ) + 1)))) := by
      simp only [momentsAdd, hif, if_true]
    rw [this, e2, e3, hn, hs, h4]
    exact add_m4 _ _ _ _ _ _ hpos

theorem momentsMerge_rep (a b : St) (xs ys : List Rat) (ha : MomRep a xs) (hb : MomRep b ys) :
    MomRep (momentsMerge a b) (xs ++ ys) := by
  by_cases hb0 : b.n = 0
  · have hy : ys = [] := by
      have := hb.1; rw [hb0] at this; exact List.eq_nil_of_length_eq_zero this.symm
    subst hy
    simpa [momentsMerge, hb0] using ha
  by_cases ha0 : a.n = 0
  · have hx : xs = [] := by
      have := ha.1; rw [ha0] at this; exact List.eq_nil_of_length_eq_zero this.symm
    subst hx
    simpa [momentsMerge, hb0, ha0, MomRep] using hb
  obtain ⟨an, as, a2, a3, a4⟩ := ha
  obtain ⟨bn, bs, b2, b3, b4⟩ := hb
  have hp1 : (0:ℚ) < xs.length := by rw [← an]; exact_mod_cast Nat.pos_of_ne_zero ha0
  have hp2 : (0:ℚ) < ys.length := by rw [← bn]; exact_mod_cast Nat.pos_of_ne_zero hb0
  unfold MomRep
  rw [List.length_append, Nat.cast_add, rsum_append, pw_append, pw_append, pw_append]
  simp only [momentsMerge, hb0, ha0, if_false]
  refine ⟨by rw [an, bn], by rw [as, bs], ?_, ?_, ?_⟩
  · rw [an, bn, as, bs, a2, b2]; exact merge_m2 _ _ _ _ _ _ hp1 hp2
  · rw [an, bn, as, bs, a2, b2, a3, b3]; exact merge_m3 _ _ _ _ _ _ _ _ hp1 hp2
  · rw [an, bn, as, bs, a2, b2, a3, b3, a4, b4]; exact merge_m4 _ _ _ _ _ _ _ _ _ _ hp1 hp2

/-! ### one step, field by field -/

def pickStep (r : SV → SV → Bool) (acc : Option SV) (v : SV) : Option SV :=
  match acc with | none => some v | some m => some (if r m v then m else v)
def pickFold (r : SV → SV → Bool) (l : List SV) : Option SV := l.foldl (pickStep r) none
def pickMerge (r : SV → SV → Bool) : Option SV → Option SV → Option SV
  | none, y => y
  | some x, none => some x
  | some x, some y => some (if r x y then x else y)

/-- `svLe` flipped: the relation whose "min" is the max -/
def svGe (a b : SV) : Bool := svLe b a

theorem summarize_snoc (vs : List SV) (v : SV) : summarize (vs ++ [v]) = (summarize vs).step v := by
  simp [summarize, List.foldl_append]

theorem step_null (s : St) : s.step .null =
    { s with rows := s.rows + 1, first := s.first.orElse (fun _ => some .null), last := some .null } := by
  simp [St.step]

theorem step_rows (s : St) (v : SV) : (s.step v).rows = s.rows + 1 := by
  simp only [St.step]; split
  · rfl
  · split <;> rfl

theorem step_first (s : St) (v : SV) : (s.step v).first = s.first.orElse (fun _ => some v) := by
  simp only [St.step]; split
  · rfl
  · split <;> rfl

theorem step_last (s : St) (v : SV) : (s.step v).last = some v := by
  simp only [St.step]; split
  · rfl
  · split <;> rfl

theorem step_n (s : St) (v : SV) : (s.step v).n = if v = .null then s.n else s.n + 1 := by
  simp only [St.step]; split
  · rfl
  · split <;> rfl

theorem step_items (s : St) (v : SV) : (s.step v).items = if v = .null then s.items else s.items ++ [v] := by
  simp only [St.step]; split
  · rfl
  · split <;> rfl

theorem step_firstNN (s : St) (v : SV) :
    (s.step v).firstNN = if v = .null then s.firstNN else s.firstNN.orElse (fun _ => some v) := by
  simp only [St.step]; split
  · rfl
  · split <;> rfl

theorem step_lastNN (s : St) (v : SV) :
    (s.step v).lastNN = if v = .null then s.lastNN else some v := by
  simp only [St.step]; split
  · rfl
  · split <;> rfl

theorem step_minV (s : St) (v : SV) :
    (s.step v).minV = if v = .null then s.minV else pickStep svLe s.minV v := by
  simp only [St.step]; split
  · rfl
  · split <;> (cases s.minV <;> rfl)

theorem step_maxV (s : St) (v : SV) :
    (s.step v).maxV = if v = .null then s.maxV else pickStep svGe s.maxV v := by
  simp only [St.step]; split
  · rfl
  · split <;> (cases s.maxV <;> rfl)


/-! ### closed form of every non-moment field of `summarize` -/

/-- the non-null values -/
def nn (vs : List SV) : List SV := vs.filter (· ≠ .null)

@[simp] theorem nn_nil : nn [] = [] := rfl
theorem nn_append (xs ys : List SV) : nn (xs ++ ys) = nn xs ++ nn ys := by simp [nn]
theorem nn_snoc (vs : List SV) (v : SV) : nn (vs ++ [v]) = if v = .null then nn vs else nn vs ++ [v] := by
  by_cases h : v = .null <;> simp [nn, h]
theorem mem_nn {vs : List SV} {v : SV} : v ∈ nn vs ↔ v ∈ vs ∧ v ≠ .null := by simp [nn]

theorem head?_snoc {α : Type} (l : List α) (a : α) : (l ++ [a]).head? = l.head?.orElse (fun _ => some a) := by
  cases l <;> rfl

theorem pickFold_snoc (r : SV → SV → Bool) (l : List SV) (a : SV) :
    pickFold r (l ++ [a]) = pickStep r (pickFold r l) a := by
  simp [pickFold, List.foldl_append]

theorem summarize_basic (vs : List SV) :
    (summarize vs).rows = vs.length ∧ (summarize vs).n = (nn vs).length ∧ (summarize vs).items = nn vs ∧
    (summarize vs).first = vs.head? ∧ (summarize vs).last = vs.getLast? ∧
    (summarize vs).firstNN = (nn vs).head? ∧ (summarize vs).lastNN = (nn vs).getLast? ∧
    (summarize vs).minV = pickFold svLe (nn vs) ∧ (summarize vs).maxV = pickFold svGe (nn vs) := by
  induction vs using list_rev_ind with
  | nil => exact ⟨rfl, rfl, rfl, rfl, rfl, rfl, rfl, rfl, rfl⟩
  | snoc vs v ih =>
    obtain ⟨h1, h2, h3, h4, h5, h6, h7, h8, h9⟩ := ih
    rw [summarize_snoc, step_rows, step_n, step_items, step_first, step_last, step_firstNN, step_lastNN,
      step_minV, step_maxV, h1, h2, h3, h4, h6, h7, h8, h9, nn_snoc, head?_snoc]
    by_cases hv : v = .null
    · simp [hv]
    · simp [hv, pickFold_snoc]

/-! ### moment fields of `summarize` -/

theorem step_num_rep (s : St) (v : SV) (x : Rat) (xs : List Rat) (hx : num? v = some x)
    (h : MomRep s xs) : MomRep (s.step v) (xs ++ [x]) := by
  have hv : v ≠ .null := by rintro rfl; simp [num?] at hx
  simp only [St.step, hv, if_false, hx]
  exact momentsAdd_rep _ _ _ h

theorem step_null_rep (s : St) (xs : List Rat) (h : MomRep s xs) : MomRep (s.step .null) xs := by
  rw [step_null]; exact h

theorem nums_snoc (vs : List SV) (v : SV) :
    nums (vs ++ [v]) = match num? v with | some x => nums vs ++ [x] | none => nums vs := by
  cases h : num? v <;> simp [nums, List.filterMap_append, h]

theorem summarize_mom_num (vs : List SV) (h : ∀ v ∈ vs, v ≠ .null → ∃ x, num? v = some x) :
    MomRep (summarize vs) (nums vs) := by
  induction vs using list_rev_ind with
  | nil => simp [MomRep, summarize, St.init, nums, M2, M3, M4]
  | snoc vs v ih =>
    have ih := ih (fun w hw => h w (List.mem_append_left _ hw))
    rw [summarize_snoc, nums_snoc]
    by_cases hv : v = .null
    · subst hv; exact step_null_rep _ _ ih
    · obtain ⟨x, hx⟩ := h v (by simp) hv
      rw [hx]; exact step_num_rep _ _ _ _ hx ih

theorem step_nonnum (s : St) (v : SV) (hx : num? v = none) :
    (s.step v).sum = s.sum ∧ (s.step v).m2 = s.m2 ∧ (s.step v).m3 = s.m3 ∧ (s.step v).m4 = s.m4 := by
  simp only [St.step]; split
  · exact ⟨rfl, rfl, rfl, rfl⟩
  · simp [hx]

theorem summarize_mom_nonnum (vs : List SV) (h : ∀ v ∈ vs, num? v = none) :
    (summarize vs).sum = 0 ∧ (summarize vs).m2 = 0 ∧ (summarize vs).m3 = 0 ∧ (summarize vs).m4 = 0 := by
  induction vs using list_rev_ind with
  | nil => exact ⟨rfl, rfl, rfl, rfl⟩
  | snoc vs v ih =>
    have ih := ih (fun w hw => h w (List.mem_append_left _ hw))
    obtain ⟨e1, e2, e3, e4⟩ := step_nonnum (summarize vs) v (h v (by simp))
    rw [summarize_snoc, e1, e2, e3, e4]; exact ih

/-! ### `svLe` on values of one type is a total preorder -/

theorem svLe_int (x y : Int) : svLe (.int x) (.int y) = decide (x ≤ y) := by
  simp [svLe, cmpM, typeOrder, cmpSame, Except.map]
theorem svLe_dbl (x y : Rat) : svLe (.dbl x) (.dbl y) = decide (x ≤ y) := by
  simp [svLe, cmpM, typeOrder, cmpSame, Except.map]
theorem svLe_str (x y : String) : svLe (.str x) (.str y) = decide (x ≤ y) := by
  simp [svLe, cmpM, typeOrder, cmpSame, Except.map]
theorem svLe_bool (x y : Bool) : svLe (.bool x) (.bool y) = decide (x ≤ y) := by
  simp [svLe, cmpM, typeOrder, cmpSame, Except.map]

/-- `v` is a non-null value of SQL type `t` -/
def OfTy (t : Ty) (v : SV) : Prop := tyOf v = some t

theorem svLe_total (t : Ty) (a b : SV) (ha : OfTy t a) (hb : OfTy t b) :
    svLe a b = true ∨ svLe b a = true := by
  unfold OfTy at ha hb
  cases t <;> cases a <;> simp [tyOf] at ha <;> cases b <;> simp [tyOf] at hb
  · simp only [svLe_int, decide_eq_true_eq]; exact Int.le_total _ _
  · simp only [svLe_dbl, decide_eq_true_eq]; exact Rat.le_total
  · simp only [svLe_str, decide_eq_true_eq]; exact String.le_total _ _
  · simp only [svLe_bool, decide_eq_true_eq]; exact Bool.le_total _ _

theorem svLe_trans (t : Ty) (a b c : SV) (ha : OfTy t a) (hb : OfTy t b) (hc : OfTy t c)
    (hab : svLe a b = true) (hbc : svLe b c = true) : svLe a c = true := by
  unfold OfTy at ha hb hc
  cases t <;> cases a <;> simp [tyOf] at ha <;> cases b <;> simp [tyOf] at hb <;>
    cases c <;> simp [tyOf] at hc
  · simp only [svLe_int, decide_eq_true_eq] at *; exact Int.le_trans hab hbc
  · simp only [svLe_dbl, decide_eq_true_eq] at *; exact Rat.le_trans hab hbc
  · simp only [svLe_str, decide_eq_true_eq] at *; exact String.le_trans hab hbc
  · simp only [svLe_bool, decide_eq_true_eq] at *; exact Bool.le_trans hab hbc

/-- `r` restricted to `P` is a total preorder -/
structure TotPre (r : SV → SV → Bool) (P : SV → Prop) : Prop where
  total : ∀ a b, P a → P b → r a b = true ∨ r b a = true
  trans : ∀ a b c, P a → P b → P c → r a b = true → r b c = true → r a c = true

theorem svLe_totPre (t : Ty) : TotPre svLe (OfTy t) :=
  ⟨svLe_total t, svLe_trans t⟩
theorem svGe_totPre (t : Ty) : TotPre svGe (OfTy t) :=
  ⟨fun a b ha hb => svLe_total t b a hb ha,
   fun a b c ha hb hc hab hbc => svLe_trans t c b a hc hb ha hbc hab⟩

theorem pick_assoc {r : SV → SV → Bool} {P : SV → Prop} (h : TotPre r P) (a b c : SV)
    (ha : P a) (hb : P b) (hc : P c) :
    (if r a (if r b c then b else c) then a else (if r b c then b else c))
      = (if r (if r a b then a else b) c then (if r a b then a else b) else c) := by
  cases hbc : r b c
  · cases hab : r a b
    · have hba := (h.total a b ha hb).resolve_left (by simp [hab])
      have hac : r a c = false := by
        cases hac : r a c
        · rfl
        · have := h.trans b a c hb ha hc hba hac; simp [hbc] at this
      simp [hbc, hac]
    · simp
  · cases hab : r a b
    · simp [hbc, hab]
    · have := h.trans a b c ha hb hc hab hbc; simp [this, hab]

/-! ### the fold of a left-biased "min" -/

theorem pickFold_nil (r : SV → SV → Bool) : pickFold r [] = none := rfl

theorem pickFold_eq_none (r : SV → SV → Bool) (l : List SV) : pickFold r l = none ↔ l = [] := by
  induction l using list_rev_ind with
  | nil => simp [pickFold_nil]
  | snoc l a _ =>
    rw [pickFold_snoc]
    cases pickFold r l <;> simp [pickStep]

theorem pickFold_mem (r : SV → SV → Bool) (l : List SV) (m : SV) (h : pickFold r l = some m) : m ∈ l := by
  induction l using list_rev_ind generalizing m with
  | nil => simp [pickFold_nil] at h
  | snoc l a ih =>
    rw [pickFold_snoc] at h
    cases hp : pickFold r l with
    | none => rw [hp] at h; simp [pickStep] at h; simp [h]
    | some m' =>
      rw [hp] at h; simp only [pickStep, Option.some.injEq] at h
      have := ih m' hp
      split at h <;> subst h <;> simp [this]

theorem pickFold_le {r : SV → SV → Bool} {P : SV → Prop} (hr : TotPre r P) (l : List SV)
    (hP : ∀ v ∈ l, P v) (m : SV) (h : pickFold r l = some m) : ∀ v ∈ l, r m v = true := by
  induction l using list_rev_ind generalizing m with
  | nil => simp
  | snoc l a ih =>
    have hPl : ∀ v ∈ l, P v := fun v hv => hP v (List.mem_append_left _ hv)
    have hPa : P a := hP a (by simp)
    have haa : r a a = true := (hr.total a a hPa hPa).elim id id
    rw [pickFold_snoc] at h
    cases hp : pickFold r l with
    | none =>
      rw [hp] at h; simp only [pickStep, Option.some.injEq] at h
      have : l = [] := (pickFold_eq_none r l).1 hp
      subst this; subst h
      intro v hv; simp at hv; subst hv; exact haa
    | some m' =>
      rw [hp] at h; simp only [pickStep, Option.some.injEq] at h
      have ihm := ih hPl m' hp
      have hPm' : P m' := hPl m' (pickFold_mem r l m' hp)
      intro v hv
      rw [List.mem_append, List.mem_singleton] at hv
      by_cases hc : r m' a = true
      · rw [if_pos hc] at h; subst h
        rcases hv with hv | rfl
        · exact ihm v hv
        · exact hc
      · rw [if_neg hc] at h; subst h
        have ham : r a m' = true := (hr.total m' a hPm' hPa).resolve_left hc
        rcases hv with hv | rfl
        · exact hr.trans a m' v hPa hPm' (hPl v hv) ham (ihm v hv)
        · exact haa

theorem pickMerge_none_right (r : SV → SV → Bool) (x : Option SV) : pickMerge r x none = x := by
  cases x <;> rfl

theorem pickMerge_fold {r : SV → SV → Bool} {P : SV → Prop} (hr : TotPre r P) (xs ys : List SV)
    (hx : ∀ v ∈ xs, P v) (hy : ∀ v ∈ ys, P v) :
    pickMerge r (pickFold r xs) (pickFold r ys) = pickFold r (xs ++ ys) := by
  induction ys using list_rev_ind with
  | nil => simp [pickFold_nil, pickMerge_none_right]
  | snoc ys z ih =>
    have hy' : ∀ v ∈ ys, P v := fun v hv => hy v (List.mem_append_left _ hv)
    have hz : P z := hy z (by simp)
    rw [← List.append_assoc, pickFold_snoc, pickFold_snoc, ← ih hy']
    cases hA : pickFold r xs with
    | none => cases pickFold r ys <;> rfl
    | some x =>
      cases hB : pickFold r ys with
      | none => rfl
      | some y =>
        have hPx := hx x (pickFold_mem r xs x hA)
        have hPy := hy' y (pickFold_mem r ys y hB)
        simp only [pickStep, pickMerge]
        rw [pick_assoc hr x y z hPx hPy hz]

/-! ### `merge` field by field -/

theorem St.ext' {a b : St} (h1 : a.rows = b.rows) (h2 : a.n = b.n) (h3 : a.sum = b.sum)
    (h4 : a.m2 = b.m2) (h5 : a.m3 = b.m3) (h6 : a.m4 = b.m4) (h7 : a.minV = b.minV)
    (h8 : a.maxV = b.maxV) (h9 : a.items = b.items) (h10 : a.first = b.first)
    (h11 : a.firstNN = b.firstNN) (h12 : a.last = b.last) (h13 : a.lastNN = b.lastNN) : a = b := by
  cases a; cases b; simp_all

theorem merge_minV (a b : St) : (a.merge b).minV = pickMerge svLe a.minV b.minV := by
  simp only [St.merge]; cases a.minV <;> cases b.minV <;> rfl

theorem merge_maxV (a b : St) : (a.merge b).maxV = pickMerge svGe a.maxV b.maxV := by
  simp only [St.merge]; cases a.maxV <;> cases b.maxV <;> rfl

theorem momentsMerge_n (a b : St) : (momentsMerge a b).n = a.n + b.n := by
  unfold momentsMerge
  split
  · simp [*]
  · split
    · simp [*]
    · rfl

theorem momentsMerge_zero (a b : St) (ha : a.sum = 0 ∧ a.m2 = 0 ∧ a.m3 = 0 ∧ a.m4 = 0)
    (hb : b.sum = 0 ∧ b.m2 = 0 ∧ b.m3 = 0 ∧ b.m4 = 0) :
    (momentsMerge a b).sum = 0 ∧ (momentsMerge a b).m2 = 0 ∧ (momentsMerge a b).m3 = 0 ∧
      (momentsMerge a b).m4 = 0 := by
  obtain ⟨a1, a2, a3, a4⟩ := ha
  obtain ⟨b1, b2, b3, b4⟩ := hb
  unfold momentsMerge
  split
  · exact ⟨a1, a2, a3, a4⟩
  · split
    · exact ⟨b1, b2, b3, b4⟩
    · simp [a1, a2, a3, a4, b1, b2, b3, b4]

theorem nums_append (xs ys : List SV) : nums (xs ++ ys) = nums xs ++ nums ys := by
  simp [nums, List.filterMap_append]

theorem MomRep_unique {s s' : St} {l : List Rat} (h : MomRep s l) (h' : MomRep s' l) :
    s.sum = s'.sum ∧ s.m2 = s'.m2 ∧ s.m3 = s'.m3 ∧ s.m4 = s'.m4 := by
  obtain ⟨_, a1, a2, a3, a4⟩ := h
  obtain ⟨_, b1, b2, b3, b4⟩ := h'
  exact ⟨a1.trans b1.symm, a2.trans b2.symm, a3.trans b3.symm, a4.trans b4.symm⟩

/-- all non-null values have SQL type `t` -/
def TypedL (t : Ty) (vs : List SV) : Prop := ∀ v ∈ vs, v = .null ∨ tyOf v = some t

theorem TypedL.num {t : Ty} {vs : List SV} (h : TypedL t vs) (ht : t = .int ∨ t = .dbl) :
    ∀ v ∈ vs, v ≠ .null → ∃ x, num? v = some x := by
  intro v hv hn
  rcases h v hv with h | h
  · exact absurd h hn
  · rcases ht with rfl | rfl <;> cases v <;> simp [tyOf] at h <;> exact ⟨_, rfl⟩

theorem TypedL.nonnum {t : Ty} {vs : List SV} (h : TypedL t vs) (ht : t = .str ∨ t = .bool) :
    ∀ v ∈ vs, num? v = none := by
  intro v hv
  rcases h v hv with h | h
  · subst h; rfl
  · rcases ht with rfl | rfl <;> cases v <;> simp [tyOf] at h <;> rfl

theorem TypedL.ofTy {t : Ty} {vs : List SV} (h : TypedL t vs) : ∀ v ∈ nn vs, OfTy t v := by
  intro v hv
  rw [mem_nn] at hv
  exact (h v hv.1).resolve_left hv.2

theorem merge_summarize (xs ys : List SV) (t : Ty) (h : TypedL t (xs ++ ys)) :
    (summarize xs).merge (summarize ys) = summarize (xs ++ ys) := by
  have hxT : TypedL t xs := fun v hv => h v (List.mem_append_left _ hv)
  have hyT : TypedL t ys := fun v hv => h v (List.mem_append_right _ hv)
  obtain ⟨a1, a2, a3, a4, a5, a6, a7, a8, a9⟩ := summarize_basic xs
  obtain ⟨b1, b2, b3, b4, b5, b6, b7, b8, b9⟩ := summarize_basic ys
  obtain ⟨c1, c2, c3, c4, c5, c6, c7, c8, c9⟩ := summarize_basic (xs ++ ys)
  have hmom : (momentsMerge (summarize xs) (summarize ys)).sum = (summarize (xs ++ ys)).sum ∧
      (momentsMerge (summarize xs) (summarize ys)).m2 = (summarize (xs ++ ys)).m2 ∧
      (momentsMerge (summarize xs) (summarize ys)).m3 = (summarize (xs ++ ys)).m3 ∧
      (momentsMerge (summarize xs) (summarize ys)).m4 = (summarize (xs ++ ys)).m4 := by
    by_cases ht : t = .int ∨ t = .dbl
    · have := momentsMerge_rep _ _ _ _ (summarize_mom_num xs (hxT.num ht)) (summarize_mom_num ys (hyT.num ht))
      rw [← nums_append] at this
      exact MomRep_unique this (summarize_mom_num _ (h.num ht))
    · have ht' : t = .str ∨ t = .bool := by cases t <;> simp at ht ⊢
      obtain ⟨z1, z2, z3, z4⟩ := momentsMerge_zero _ _ (summarize_mom_nonnum xs (hxT.nonnum ht'))
        (summarize_mom_nonnum ys (hyT.nonnum ht'))
      obtain ⟨w1, w2, w3, w4⟩ := summarize_mom_nonnum _ (h.nonnum ht')
      exact ⟨z1.trans w1.symm, z2.trans w2.symm, z3.trans w3.symm, z4.trans w4.symm⟩
  apply St.ext'
  · show (summarize xs).rows + (summarize ys).rows = _
    rw [a1, b1, c1, List.length_append]
  · show (momentsMerge (summarize xs) (summarize ys)).n = _
    rw [momentsMerge_n, a2, b2, c2, nn_append, List.length_append]
  · exact hmom.1
  · exact hmom.2.1
  · exact hmom.2.2.1
  · exact hmom.2.2.2
  · rw [merge_minV, a8, b8, c8, nn_append]
    exact pickMerge_fold (svLe_totPre t) _ _ hxT.ofTy hyT.ofTy
  · rw [merge_maxV, a9, b9, c9, nn_append]
    exact pickMerge_fold (svGe_totPre t) _ _ hxT.ofTy hyT.ofTy
  · show (summarize xs).items ++ (summarize ys).items = _
    rw [a3, b3, c3, nn_append]
  · show (summarize xs).first.orElse (fun _ => (summarize ys).first) = _
    rw [a4, b4, c4]; cases xs <;> rfl
  · show (summarize xs).firstNN.orElse (fun _ => (summarize ys).firstNN) = _
    rw [a6, b6, c6, nn_append]; cases nn xs <;> rfl
  · show (summarize ys).last.orElse (fun _ => (summarize xs).last) = _
    rw [a5, b5, c5, List.getLast?_append]; cases ys.getLast? <;> rfl
  · show (summarize ys).lastNN.orElse (fun _ => (summarize xs).lastNN) = _
    rw [a7, b7, c7, nn_append, List.getLast?_append]; cases (nn ys).getLast? <;> rfl

/-! ### first-occurrence dedup of keys -/

section Keys
variable {κ : Type} [BEq κ] [LawfulBEq κ]

def dedupK (l : List κ) : List κ := l.foldl (fun acc k => if k ∈ acc then acc else acc ++ [k]) []

@[simp] theorem dedupK_nil : dedupK ([] : List κ) = [] := rfl
theorem dedupK_snoc (l : List κ) (k : κ) :
    dedupK (l ++ [k]) = if k ∈ dedupK l then dedupK l else dedupK l ++ [k] := by
  unfold dedupK; rw [List.foldl_append]; rfl

theorem mem_dedupK (l : List κ) (k : κ) : k ∈ dedupK l ↔ k ∈ l := by
  induction l using list_rev_ind generalizing k with
  | nil => simp
  | snoc l a ih =>
    rw [dedupK_snoc]
    by_cases ha : a ∈ dedupK l
    · rw [if_pos ha, List.mem_append, List.mem_singleton, ih]
      constructor
      · exact Or.inl
      · rintro (h | rfl)
        · exact h
        · exact (ih _).1 ha
    · rw [if_neg ha, List.mem_append, List.mem_append, ih]

theorem nodup_dedupK (l : List κ) : (dedupK l).Nodup := by
  induction l using list_rev_ind with
  | nil => simp
  | snoc l a ih =>
    rw [dedupK_snoc]
    by_cases ha : a ∈ dedupK l
    · rw [if_pos ha]; exact ih
    · rw [if_neg ha]
      exact List.nodup_append.2 ⟨ih, by simp, by
        intro x hx y hy; simp at hy; subst hy; rintro rfl; exact ha hx⟩

theorem dedupK_append (l₁ l₂ : List κ) :
    dedupK (l₁ ++ l₂) = dedupK l₁ ++ (dedupK l₂).filter (fun k => decide (k ∉ dedupK l₁)) := by
  induction l₂ using list_rev_ind with
  | nil => simp
  | snoc l a ih =>
    rw [← List.append_assoc, dedupK_snoc, dedupK_snoc, ih]
    by_cases h1 : a ∈ dedupK l₁
    · by_cases h2 : a ∈ dedupK l <;> simp [h1, h2, List.filter_append]
    · by_cases h2 : a ∈ dedupK l <;> simp [h1, h2, List.filter_append]

end Keys

/-! ### functional representation of groups and the generic `upsert` -/

/-- groups with keys `K` (in order) and accumulators `G k` -/
def rep {β : Type} (K : List β) (G : β → List St) : List (β × List St) := K.map fun k => (k, G k)

def upsert {β : Type} [BEq β] (g : List (β × List St)) (key : β) (upd : List St → List St) (ins : List St) :
    List (β × List St) :=
  if g.any (·.1 == key) then g.map fun e => if e.1 == key then (e.1, upd e.2) else e
  else g ++ [(key, ins)]

theorem rep_nil {β : Type} (G : β → List St) : rep [] G = [] := rfl
theorem rep_keys {β : Type} (K : List β) (G : β → List St) : (rep K G).map (·.1) = K := by
  simp [rep, Function.comp_def]
theorem mem_rep {β : Type} {K : List β} {G : β → List St} {k : β} {sts : List St} (h : (k, sts) ∈ rep K G) :
    k ∈ K ∧ sts = G k := by
  simp only [rep, List.mem_map, Prod.mk.injEq] at h
  obtain ⟨k', hk', rfl, rfl⟩ := h
  exact ⟨hk', rfl⟩
theorem rep_snoc {β : Type} (K : List β) (k : β) (G : β → List St) : rep (K ++ [k]) G = rep K G ++ [(k, G k)] := by
  simp [rep]
theorem rep_congr {β : Type} {K : List β} {G G' : β → List St} (h : ∀ k ∈ K, G k = G' k) : rep K G = rep K G' := by
  unfold rep
  exact List.map_congr_left fun k hk => by rw [h k hk]

/-- `upsert` on the functional representation: the key is appended if new, its accumulators replaced -/
theorem upsert_rep_pos {β : Type} [BEq β] [LawfulBEq β] [DecidableEq β] (K : List β) (G : β → List St) (key : β)
    (upd : List St → List St) (ins : List St) (hk : key ∈ K) :
    upsert (rep K G) key upd ins = rep K (fun k => if k = key then upd (G key) else G k) := by
  unfold upsert rep
  have : (List.map (fun k => (k, G k)) K).any (fun x => x.1 == key) = true := by
    simp [List.any_map, hk]
  simp only [if_pos this, List.map_map]
  apply List.map_congr_left
  intro k _
  by_cases h : k = key
  · subst h; simp
  · simp [h]

theorem upsert_rep_neg {β : Type} [BEq β] [LawfulBEq β] [DecidableEq β] (K : List β) (G : β → List St) (key : β)
    (upd : List St → List St) (ins : List St) (hk : key ∉ K) :
    upsert (rep K G) key upd ins = rep (K ++ [key]) (fun k => if k = key then ins else G k) := by
  unfold upsert rep
  have : ¬ (List.map (fun k => (k, G k)) K).any (fun x => x.1 == key) = true := by
    simp [List.any_map, hk]
  simp only [if_neg this, List.map_append]
  congr 1
  · apply List.map_congr_left
    intro k hk'
    have : k ≠ key := fun e => hk (e ▸ hk')
    simp [this]
  · simp

/-! ### the generic grouped fold: `aggregateSpec` and `aggregatePivotSpec` are instances -/

def zipMerge (a b : List St) : List St := (a.zip b).map fun (s, t) => s.merge t

section Gen
variable {κ ρ : Type} [BEq κ] [LawfulBEq κ] [DecidableEq κ]

/-- rows `r` are counted, in order, in the group `key r`, whose accumulators are updated by `stp r` -/
def foldG (key : ρ → κ) (stp : ρ → List St → List St) (fresh : List St) (rows : List ρ) : GroupsK κ :=
  rows.foldl (fun g r => updGroup g (key r) (stp r) fresh) []

/-- the accumulators of one group after the rows `rs` -/
def foldR (stp : ρ → List St → List St) (fresh : List St) (rs : List ρ) : List St :=
  rs.foldl (fun s r => stp r s) fresh

omit [BEq κ] [LawfulBEq κ] [DecidableEq κ] in
theorem foldR_snoc (stp : ρ → List St → List St) (fresh : List St) (rs : List ρ) (r : ρ) :
    foldR stp fresh (rs ++ [r]) = stp r (foldR stp fresh rs) := by
  simp [foldR, List.foldl_append]

omit [LawfulBEq κ] [DecidableEq κ] in
theorem updGroup_eq_upsert (g : GroupsK κ) (key : κ) (f : List St → List St) (fresh : List St) :
    updGroup g key f fresh = upsert g key f (f fresh) := rfl

omit [LawfulBEq κ] [DecidableEq κ] in
theorem foldG_snoc (key : ρ → κ) (stp : ρ → List St → List St) (fresh : List St) (rows : List ρ) (r : ρ) :
    foldG key stp fresh (rows ++ [r]) = updGroup (foldG key stp fresh rows) (key r) (stp r) fresh := by
  simp [foldG, List.foldl_append]

omit [LawfulBEq κ] [DecidableEq κ] in
theorem filter_key_snoc (key : ρ → κ) (rows : List ρ) (r : ρ) (k : κ) :
    (rows ++ [r]).filter (key · == k) = if key r == k then rows.filter (key · == k) ++ [r] else rows.filter (key · == k) := by
  by_cases h : key r == k <;> simp [List.filter_append, h]

omit [DecidableEq κ] in
theorem filter_key_eq_nil (key : ρ → κ) (rows : List ρ) (k : κ) (h : k ∉ rows.map key) :
    rows.filter (key · == k) = [] := by
  rw [List.filter_eq_nil_iff]
  intro r hr hk
  exact h (List.mem_map.2 ⟨r, hr, by simpa using hk⟩)

theorem foldG_rep (key : ρ → κ) (stp : ρ → List St → List St) (fresh : List St) (rows : List ρ) :
    foldG key stp fresh rows
      = rep (dedupK (rows.map key)) (fun k => foldR stp fresh (rows.filter (key · == k))) := by
  induction rows using list_rev_ind with
  | nil => rfl
  | snoc rows r ih =>
    rw [foldG_snoc, updGroup_eq_upsert, ih, List.map_append, List.map_singleton, dedupK_snoc]
    by_cases hm : key r ∈ dedupK (rows.map key)
    · rw [if_pos hm, upsert_rep_pos _ _ _ _ _ hm]
      apply rep_congr
      intro k _
      rw [filter_key_snoc]
      by_cases hk : k = key r
      · subst hk; rw [if_pos rfl, if_pos (by simp), foldR_snoc]
      · rw [if_neg hk, if_neg (by simpa using fun e : key r = k => hk e.symm)]
    · rw [if_neg hm, upsert_rep_neg _ _ _ _ _ hm]
      apply rep_congr
      intro k _
      rw [filter_key_snoc]
      by_cases hk : k = key r
      · subst hk
        rw [if_pos rfl, if_pos (by simp), foldR_snoc,
          filter_key_eq_nil key rows (key r) (fun h => hm ((mem_dedupK _ _).2 h))]
        rfl
      · rw [if_neg hk, if_neg (by simpa using fun e : key r = k => hk e.symm)]

/-! ### `mergeGroups` on the functional representation -/

omit [LawfulBEq κ] [DecidableEq κ] in
theorem mergeGroups_snoc (a b : GroupsK κ) (e : κ × List St) :
    mergeGroups a (b ++ [e]) = upsert (mergeGroups a b) e.1 (fun s => zipMerge s e.2) e.2 := by
  simp only [mergeGroups, List.foldl_append, List.foldl_cons, List.foldl_nil]
  rfl

theorem mergeGroups_rep (K₁ K₂ : List κ) (G₁ G₂ : κ → List St) (hnd : K₂.Nodup) :
    mergeGroups (rep K₁ G₁) (rep K₂ G₂)
      = rep (K₁ ++ K₂.filter (fun k => decide (k ∉ K₁)))
          (fun k => if k ∈ K₂ then (if k ∈ K₁ then zipMerge (G₁ k) (G₂ k) else G₂ k) else G₁ k) := by
  induction K₂ using list_rev_ind with
  | nil => simp [rep_nil, mergeGroups]
  | snoc K k ih =>
    have hK : K.Nodup := (List.nodup_append.1 hnd).1
    have hkK : k ∉ K := fun h => (List.nodup_append.1 hnd).2.2 k h k (by simp) rfl
    rw [rep_snoc, mergeGroups_snoc, ih hK]
    have hmem : k ∈ K₁ ++ K.filter (fun k => decide (k ∉ K₁)) ↔ k ∈ K₁ := by
      simp [hkK]
    by_cases h1 : k ∈ K₁
    · rw [upsert_rep_pos _ _ _ _ _ (hmem.2 h1)]
      have : (K ++ [k]).filter (fun k => decide (k ∉ K₁)) = K.filter (fun k => decide (k ∉ K₁)) := by
        simp [List.filter_append, h1]
      rw [this]
      apply rep_congr
      intro k' _
      by_cases hk : k' = k
      · subst hk; simp [h1, hkK]
      · simp [hk]
    · rw [upsert_rep_neg _ _ _ _ _ (fun h => h1 (hmem.1 h))]
      have : (K ++ [k]).filter (fun k => decide (k ∉ K₁)) = K.filter (fun k => decide (k ∉ K₁)) ++ [k] := by
        simp [List.filter_append, h1]
      rw [this, List.append_assoc]
      apply rep_congr
      intro k' _
      by_cases hk : k' = k
      · subst hk; simp [h1, hkK]
      · simp [hk]

/-! ### partition independence, generically: it is enough that merging the accumulators of two row sequences
of ONE group is the accumulator of their concatenation -/

theorem merge_foldG (key : ρ → κ) (stp : ρ → List St → List St) (fresh : List St) (P : ρ → Prop)
    (hM : ∀ xs ys : List ρ, (∀ r ∈ xs ++ ys, P r) →
      zipMerge (foldR stp fresh xs) (foldR stp fresh ys) = foldR stp fresh (xs ++ ys))
    (A B : List ρ) (h : ∀ r ∈ A ++ B, P r) :
    mergeGroups (foldG key stp fresh A) (foldG key stp fresh B) = foldG key stp fresh (A ++ B) := by
  rw [foldG_rep, foldG_rep, foldG_rep, mergeGroups_rep _ _ _ _ (nodup_dedupK _), List.map_append, dedupK_append]
  apply rep_congr
  intro k _
  rw [List.filter_append]
  by_cases hkB : k ∈ dedupK (B.map key)
  · rw [if_pos hkB]
    by_cases hkA : k ∈ dedupK (A.map key)
    · rw [if_pos hkA]
      apply hM
      intro r hr
      rcases List.mem_append.1 hr with hr | hr
      · exact h r (List.mem_append_left _ (List.mem_filter.1 hr).1)
      · exact h r (List.mem_append_right _ (List.mem_filter.1 hr).1)
    · rw [if_neg hkA, filter_key_eq_nil key A k (fun h => hkA ((mem_dedupK _ _).2 h)), List.nil_append]
  · rw [if_neg hkB, filter_key_eq_nil key B k (fun h => hkB ((mem_dedupK _ _).2 h)), List.append_nil]

theorem parts_foldG (key : ρ → κ) (stp : ρ → List St → List St) (fresh : List St) (P : ρ → Prop)
    (hM : ∀ xs ys : List ρ, (∀ r ∈ xs ++ ys, P r) →
      zipMerge (foldR stp fresh xs) (foldR stp fresh ys) = foldR stp fresh (xs ++ ys))
    (parts : List (List ρ)) (h : ∀ r ∈ parts.flatten, P r) :
    (parts.map (foldG key stp fresh)).foldl mergeGroups [] = foldG key stp fresh parts.flatten := by
  induction parts using list_rev_ind with
  | nil => rfl
  | snoc ps p ih =>
    rw [List.flatten_append, List.flatten_singleton] at h ⊢
    have ih := ih (fun r hr => h r (List.mem_append_left _ hr))
    rw [List.map_append, List.foldl_append, ih]
    exact merge_foldG key stp fresh P hM _ _ h

end Gen

/-! ### `aggregateSpec` in closed form -/

/-- one accumulator per aggregated column over the rows `rs` -/
def colSumm {α : Type} (n : Nat) (rs : List (α × List SV)) : List St :=
  (List.range n).map fun j => summarize (rs.map fun r => r.2.getD j .null)

theorem colSumm_nil {α : Type} (n : Nat) : colSumm n ([] : List (α × List SV)) = List.replicate n St.init := by
  unfold colSumm
  apply List.ext_getElem <;> simp [summarize]

theorem colSumm_length {α : Type} (n : Nat) (rs : List (α × List SV)) : (colSumm n rs).length = n := by
  simp [colSumm]

theorem list_eq_range_map (vals : List SV) : vals = (List.range vals.length).map fun j => vals.getD j .null := by
  apply List.ext_getElem
  · simp
  · intro i h _; simp [h]

theorem stepCols {α : Type} (n : Nat) (rs : List (α × List SV)) (r : α × List SV) (hr : r.2.length = n) :
    ((colSumm n rs).zip r.2).map (fun (s, v) => s.step v) = colSumm n (rs ++ [r]) := by
  unfold colSumm
  conv => lhs; rw [list_eq_range_map r.2, hr]
  rw [List.zip_map', List.map_map]
  apply List.map_congr_left
  intro j _
  simp [summarize_snoc]

/-- the per-row update of `addRow` -/
def colStep {α : Type} (r : α × List SV) (sts : List St) : List St := (sts.zip r.2).map fun (s, v) => s.step v

theorem foldR_cols {α : Type} (n : Nat) (rs : List (α × List SV)) (hlen : ∀ r ∈ rs, r.2.length = n) :
    foldR colStep (List.replicate n St.init) rs = colSumm n rs := by
  induction rs using list_rev_ind with
  | nil => rw [colSumm_nil]; rfl
  | snoc rs r ih =>
    rw [foldR_snoc, ih (fun x hx => hlen x (List.mem_append_left _ hx))]
    exact stepCols n rs r (hlen r (by simp))

section Agg
variable {κ : Type} [BEq κ] [LawfulBEq κ] [DecidableEq κ]

omit [LawfulBEq κ] [DecidableEq κ] in
theorem aggregateSpec_eq_foldG (n : Nat) (rows : List (κ × List SV)) :
    aggregateSpec n rows = foldG (·.1) colStep (List.replicate n St.init) rows := rfl

omit [LawfulBEq κ] [DecidableEq κ] in
theorem aggregate_eq_foldG (n : Nat) (parts : List (List (κ × List SV))) :
    aggregate n parts = (parts.map (foldG (·.1) colStep (List.replicate n St.init))).foldl mergeGroups [] := rfl

theorem aggregateSpec_rep (n : Nat) (rows : List (κ × List SV)) (hlen : ∀ r ∈ rows, r.2.length = n) :
    aggregateSpec n rows
      = rep (dedupK (rows.map (·.1))) (fun k => colSumm n (rows.filter (·.1 == k))) := by
  rw [aggregateSpec_eq_foldG, foldG_rep]
  apply rep_congr
  intro k _
  exact foldR_cols n _ (fun r hr => hlen r (List.mem_filter.1 hr).1)

end Agg

/-! ### partition independence -/

/-- every aggregated column is homogeneously typed over all rows (same as `C14.RowsTyped`) -/
def RowTyped {α : Type} (ts : List Ty) (r : α × List SV) : Prop :=
  r.2.length = ts.length ∧ ∀ (j : Nat) (t : Ty) (v : SV), ts[j]? = some t → r.2[j]? = some v → v = .null ∨ tyOf v = some t

def RowsTypedL {α : Type} (ts : List Ty) (rows : List (α × List SV)) : Prop := ∀ r ∈ rows, RowTyped ts r

theorem RowsTypedL.mono {α : Type} {ts : List Ty} {rows rows' : List (α × List SV)} (h : RowsTypedL ts rows)
    (hsub : ∀ r ∈ rows', r ∈ rows) : RowsTypedL ts rows' := fun r hr => h r (hsub r hr)

theorem RowsTypedL.col {α : Type} {ts : List Ty} {rows : List (α × List SV)} (h : RowsTypedL ts rows) (j : Nat)
    (hj : j < ts.length) : TypedL ts[j] (rows.map fun r => r.2.getD j .null) := by
  intro v hv
  obtain ⟨r, hr, rfl⟩ := List.mem_map.1 hv
  obtain ⟨hl, ht⟩ := h r hr
  have hj' : j < r.2.length := hl ▸ hj
  exact ht j ts[j] _ (List.getElem?_eq_getElem hj) (by simp [hj'])

theorem zipMerge_colSumm {α : Type} (ts : List Ty) (xs ys : List (α × List SV)) (h : RowsTypedL ts (xs ++ ys)) :
    zipMerge (colSumm ts.length xs) (colSumm ts.length ys) = colSumm ts.length (xs ++ ys) := by
  unfold zipMerge colSumm
  rw [List.zip_map', List.map_map]
  apply List.map_congr_left
  intro j hj
  have hj : j < ts.length := List.mem_range.1 hj
  have := h.col j hj
  rw [List.map_append] at this
  simp only [Function.comp, List.map_append]
  exact merge_summarize _ _ _ this

theorem zipMerge_foldR_cols {α : Type} (ts : List Ty) (xs ys : List (α × List SV)) (h : ∀ r ∈ xs ++ ys, RowTyped ts r) :
    zipMerge (foldR colStep (List.replicate ts.length St.init) xs) (foldR colStep (List.replicate ts.length St.init) ys)
      = foldR colStep (List.replicate ts.length St.init) (xs ++ ys) := by
  rw [foldR_cols _ xs (fun r hr => (h r (List.mem_append_left _ hr)).1),
    foldR_cols _ ys (fun r hr => (h r (List.mem_append_right _ hr)).1),
    foldR_cols _ (xs ++ ys) (fun r hr => (h r hr).1)]
  exact zipMerge_colSumm ts xs ys h

theorem aggregate_eq_spec {κ : Type} [BEq κ] [LawfulBEq κ] [DecidableEq κ] (ts : List Ty)
    (parts : List (List (κ × List SV))) (h : RowsTypedL ts parts.flatten) :
    aggregate ts.length parts = aggregateSpec ts.length parts.flatten := by
  rw [aggregate_eq_foldG, aggregateSpec_eq_foldG]
  exact parts_foldG _ _ _ (RowTyped ts) (zipMerge_foldR_cols ts) parts h

/-- `group_rows` for any lawful key equality -/
theorem aggregateSpec_groups {κ : Type} [BEq κ] [LawfulBEq κ] [DecidableEq κ] (ts : List Ty)
    (rows : List (κ × List SV)) (h : RowsTypedL ts rows) :
    ((aggregateSpec ts.length rows).map (·.1)).Nodup ∧
    (∀ k, k ∈ (aggregateSpec ts.length rows).map (·.1) ↔ k ∈ rows.map (·.1)) ∧
    ∀ k sts, (k, sts) ∈ aggregateSpec ts.length rows →
      sts = (List.range ts.length).map fun j => summarize ((rows.filter (·.1 == k)).map fun r => r.2.getD j .null) := by
  rw [aggregateSpec_rep ts.length rows (fun r hr => (h r hr).1), rep_keys]
  exact ⟨nodup_dedupK _, fun k => mem_dedupK _ k, fun k sts hks => (mem_rep hks).2⟩


/-! ### rollup / cube keys -/

theorem cubeKeys_length (key : List SV) : (cubeKeys key).length = 2 ^ key.length := by
  induction key with
  | nil => rfl
  | cons k ks ih =>
    simp only [cubeKeys, List.length_flatMap, List.length_cons, List.length_nil]
    rw [List.map_const', List.sum_replicate_nat, ih, Nat.pow_succ]

theorem cubeKeys_sound (key : List SV) :
    ∀ sk ∈ cubeKeys key, sk.length = key.length ∧
      ∀ (i : Nat) (v : SV), sk[i]? = some (some v) → key[i]? = some v := by
  induction key with
  | nil => intro sk hsk; simp [cubeKeys] at hsk; subst hsk; simp
  | cons k ks ih =>
    intro sk hsk
    simp only [cubeKeys, List.mem_flatMap, List.mem_cons, List.not_mem_nil, or_false] at hsk
    obtain ⟨r, hr, hsk⟩ := hsk
    obtain ⟨hl, hi⟩ := ih r hr
    rcases hsk with rfl | rfl
    · refine ⟨by simp [hl], fun i v => ?_⟩
      cases i with
      | zero => simp
      | succ i => simpa using hi i v
    · refine ⟨by simp [hl], fun i v => ?_⟩
      cases i with
      | zero => simp
      | succ i => simpa using hi i v


/-! ### `matchesKey` -/

theorem matchesKey_nil_right (sk : List (Option SV)) : matchesKey sk [] = true ↔ sk = [] := by
  cases sk <;> simp [matchesKey]

theorem matchesKey_nil_left (key : List SV) : matchesKey [] key = true ↔ key = [] := by
  cases key <;> simp [matchesKey]

theorem matchesKey_cons_cons (o : Option SV) (sk : List (Option SV)) (v : SV) (key : List SV) :
    matchesKey (o :: sk) (v :: key) = true ↔ (o = none ∨ o = some v) ∧ matchesKey sk key = true := by
  cases o with
  | none => simp [matchesKey]
  | some w =>
    simp only [matchesKey, List.length_cons, List.zip_cons_cons, List.all_cons, Bool.and_eq_true, beq_iff_eq,
      Nat.add_right_cancel_iff, reduceCtorEq, Option.some.injEq, false_or]
    tauto

theorem matchesKey_length {sk : List (Option SV)} {key : List SV} (h : matchesKey sk key = true) :
    sk.length = key.length := by
  simp only [matchesKey, Bool.and_eq_true, beq_iff_eq] at h
  exact h.1

theorem matchesKey_replicate_none (key : List SV) : matchesKey (List.replicate key.length none) key = true := by
  induction key with
  | nil => rfl
  | cons k ks ih => rw [List.length_cons, List.replicate_succ, matchesKey_cons_cons]; exact ⟨Or.inl rfl, ih⟩

/-! ### rollup keys -/

theorem rollupKeys_cons (k : SV) (ks : List SV) :
    rollupKeys (k :: ks) = List.replicate (ks.length + 1) none :: (rollupKeys ks).map (some k :: ·) := by
  unfold rollupKeys
  rw [List.length_cons, List.range_succ_eq_map]
  simp [List.map_map, Function.comp_def]

theorem rollupKeys_length (key : List SV) : (rollupKeys key).length = key.length + 1 := by
  simp [rollupKeys]

theorem mem_rollupKeys (key : List SV) (sk : List (Option SV)) :
    sk ∈ rollupKeys key ↔ ∃ i, i ≤ key.length ∧ sk = (key.take i).map some ++ List.replicate (key.length - i) none := by
  unfold rollupKeys
  rw [List.mem_map]
  constructor
  · rintro ⟨i, hi, rfl⟩; exact ⟨i, Nat.lt_succ_iff.1 (List.mem_range.1 hi), rfl⟩
  · rintro ⟨i, hi, rfl⟩; exact ⟨i, List.mem_range.2 (Nat.lt_succ_iff.2 hi), rfl⟩

theorem rollupKeys_nodup (key : List SV) : (rollupKeys key).Nodup := by
  induction key with
  | nil => simp [rollupKeys]
  | cons k ks ih =>
    rw [rollupKeys_cons, List.nodup_cons]
    refine ⟨?_, ih.map (fun a b h => (List.cons.inj h).2)⟩
    intro h
    obtain ⟨r, _, hr⟩ := List.mem_map.1 h
    rw [List.replicate_succ] at hr
    exact absurd (List.cons.inj hr).1 (by simp)

theorem rollupKeys_matches (key : List SV) : ∀ sk ∈ rollupKeys key, matchesKey sk key = true := by
  induction key with
  | nil => intro sk hsk; simp [rollupKeys] at hsk; subst hsk; rfl
  | cons k ks ih =>
    intro sk hsk
    rw [rollupKeys_cons, List.mem_cons] at hsk
    rcases hsk with rfl | hsk
    · exact matchesKey_replicate_none (k :: ks)
    · obtain ⟨r, hr, rfl⟩ := List.mem_map.1 hsk
      rw [matchesKey_cons_cons]
      exact ⟨Or.inr rfl, ih r hr⟩

theorem rollupKeys_of_matches (key : List SV) : ∀ (sk : List (Option SV)) (key' : List SV),
    sk ∈ rollupKeys key → matchesKey sk key' = true → sk ∈ rollupKeys key' := by
  induction key with
  | nil =>
    intro sk key' hsk hm
    simp [rollupKeys] at hsk; subst hsk
    rw [(matchesKey_nil_left key').1 hm]; simp [rollupKeys]
  | cons k ks ih =>
    intro sk key' hsk hm
    rw [rollupKeys_cons, List.mem_cons] at hsk
    rcases hsk with rfl | hsk
    · have hl := matchesKey_length hm
      rw [List.length_replicate] at hl
      rw [mem_rollupKeys]
      exact ⟨0, Nat.zero_le _, by simp [hl]⟩
    · obtain ⟨r, hr, rfl⟩ := List.mem_map.1 hsk
      cases key' with
      | nil => simp [matchesKey] at hm
      | cons k' ks' =>
        rw [matchesKey_cons_cons] at hm
        obtain ⟨hk, hm⟩ := hm
        have hk : k = k' := by simpa using hk
        subst hk
        rw [rollupKeys_cons]
        exact List.mem_cons_of_mem _ (List.mem_map.2 ⟨r, ih r ks' hr hm, rfl⟩)

/-! ### cube keys -/

theorem mem_cubeKeys_cons (k : SV) (ks : List SV) (sk : List (Option SV)) :
    sk ∈ cubeKeys (k :: ks) ↔ ∃ r ∈ cubeKeys ks, sk = none :: r ∨ sk = some k :: r := by
  simp [cubeKeys, List.mem_flatMap]

theorem mem_cubeKeys (key : List SV) : ∀ sk, sk ∈ cubeKeys key ↔ matchesKey sk key = true := by
  induction key with
  | nil => intro sk; rw [matchesKey_nil_right]; simp [cubeKeys]
  | cons k ks ih =>
    intro sk
    rw [mem_cubeKeys_cons]
    constructor
    · rintro ⟨r, hr, rfl | rfl⟩
      · rw [matchesKey_cons_cons]; exact ⟨Or.inl rfl, (ih r).1 hr⟩
      · rw [matchesKey_cons_cons]; exact ⟨Or.inr rfl, (ih r).1 hr⟩
    · intro hm
      cases sk with
      | nil => simp [matchesKey] at hm
      | cons o r =>
        rw [matchesKey_cons_cons] at hm
        refine ⟨r, (ih r).2 hm.2, ?_⟩
        rcases hm.1 with rfl | rfl
        · exact Or.inl rfl
        · exact Or.inr rfl

theorem cubeKeys_nodup (key : List SV) : (cubeKeys key).Nodup := by
  induction key with
  | nil => simp [cubeKeys]
  | cons k ks ih =>
    show ((cubeKeys ks).flatMap fun r => [none :: r, some k :: r]).Nodup
    rw [List.nodup_flatMap]
    refine ⟨fun r _ => by simp, ?_⟩
    refine List.Pairwise.imp ?_ ih
    intro a b hab
    simp only [Function.onFun, List.disjoint_left, List.mem_cons, List.not_mem_nil, or_false]
    rintro x (rfl | rfl) (h | h)
    · exact hab (List.cons.inj h).2
    · exact absurd (List.cons.inj h).1 (by simp)
    · exact absurd (List.cons.inj h).1 (by simp)
    · exact hab (List.cons.inj h).2

theorem groupByKeys_nodup (key : List SV) : (groupByKeys key).Nodup := by simp [groupByKeys]

/-! ### `expand` -/

theorem expand_append (keysOf : List SV → List (List (Option SV))) (a b : List (List SV × List SV)) :
    expand keysOf (a ++ b) = expand keysOf a ++ expand keysOf b := by
  simp [expand, List.flatMap_append]

theorem expand_flatten (keysOf : List SV → List (List (Option SV))) (parts : List (List (List SV × List SV))) :
    (parts.map (expand keysOf)).flatten = expand keysOf parts.flatten := by
  induction parts with
  | nil => rfl
  | cons p ps ih => rw [List.map_cons, List.flatten_cons, List.flatten_cons, expand_append, ih]

theorem mem_expand {keysOf : List SV → List (List (Option SV))} {rows : List (List SV × List SV)}
    {e : List (Option SV) × List SV} :
    e ∈ expand keysOf rows ↔ ∃ r ∈ rows, e.1 ∈ keysOf r.1 ∧ e.2 = r.2 := by
  unfold expand
  rw [List.mem_flatMap]
  constructor
  · rintro ⟨r, hr, he⟩
    obtain ⟨sk, hsk, rfl⟩ := List.mem_map.1 he
    exact ⟨r, hr, hsk, rfl⟩
  · rintro ⟨r, hr, h1, h2⟩
    exact ⟨r, hr, List.mem_map.2 ⟨e.1, h1, by rw [← h2]⟩⟩

theorem expand_typed (keysOf : List SV → List (List (Option SV))) (ts : List Ty) (rows : List (List SV × List SV))
    (h : RowsTypedL ts rows) : RowsTypedL ts (expand keysOf rows) := by
  intro e he
  obtain ⟨r, hr, _, h2⟩ := mem_expand.1 he
  have := h r hr
  unfold RowTyped at this ⊢
  rw [h2]; exact this

theorem mem_expand_keys (keysOf : List SV → List (List (Option SV))) (rows : List (List SV × List SV))
    (sk : List (Option SV)) : sk ∈ (expand keysOf rows).map (·.1) ↔ ∃ r ∈ rows, sk ∈ keysOf r.1 := by
  rw [List.mem_map]
  constructor
  · rintro ⟨e, he, rfl⟩
    obtain ⟨r, hr, h1, _⟩ := mem_expand.1 he
    exact ⟨r, hr, h1⟩
  · rintro ⟨r, hr, h⟩
    exact ⟨(sk, r.2), mem_expand.2 ⟨r, hr, h, rfl⟩, rfl⟩

theorem nodup_filter_beq {α : Type} [BEq α] [LawfulBEq α] (a : α) : ∀ l : List α, l.Nodup →
    l.filter (· == a) = if a ∈ l then [a] else [] := by
  intro l
  induction l with
  | nil => simp
  | cons x xs ih =>
    intro hnd
    rw [List.nodup_cons] at hnd
    rw [List.filter_cons, ih hnd.2]
    by_cases hx : x = a
    · subst hx; simp [hnd.1]
    · have : ¬ a = x := fun e => hx e.symm
      simp [hx, this]

/-- with duplicate-free keys a row is counted at most once in a subtotal group -/
theorem expand_filter (keysOf : List SV → List (List (Option SV))) (hnd : ∀ k, (keysOf k).Nodup)
    (sk : List (Option SV)) (rows : List (List SV × List SV)) :
    (expand keysOf rows).filter (·.1 == sk)
      = (rows.filter fun r => decide (sk ∈ keysOf r.1)).map fun r => (sk, r.2) := by
  induction rows with
  | nil => rfl
  | cons r rows ih =>
    have hexp : expand keysOf (r :: rows) = (keysOf r.1).map (fun s => (s, r.2)) ++ expand keysOf rows := by
      simp [expand]
    rw [hexp, List.filter_append, ih, List.filter_map]
    have : ((fun x : List (Option SV) × List SV => x.1 == sk) ∘ fun s => (s, r.2)) = fun s => s == sk := rfl
    rw [this, nodup_filter_beq sk _ (hnd r.1), List.filter_cons]
    by_cases hm : sk ∈ keysOf r.1 <;> simp [hm]


/-- `subtotals_are_groupby_subset` for any duplicate-free key expansion -/
theorem aggregateSub_groups (keysOf : List SV → List (List (Option SV))) (hnd : ∀ k, (keysOf k).Nodup)
    (ts : List Ty) (parts : List (List (List SV × List SV))) (h : RowsTypedL ts parts.flatten) :
    ((aggregateSub keysOf ts.length parts).map (·.1)).Nodup ∧
    (∀ sk, sk ∈ (aggregateSub keysOf ts.length parts).map (·.1) ↔ ∃ r ∈ parts.flatten, sk ∈ keysOf r.1) ∧
    ∀ sk sts, (sk, sts) ∈ aggregateSub keysOf ts.length parts →
      sts = (List.range ts.length).map fun j =>
        summarize ((parts.flatten.filter fun r => decide (sk ∈ keysOf r.1)).map fun r => r.2.getD j .null) := by
  have hT : RowsTypedL ts (expand keysOf parts.flatten) := expand_typed keysOf ts _ h
  have hagg : aggregateSub keysOf ts.length parts = aggregateSpec ts.length (expand keysOf parts.flatten) := by
    unfold aggregateSub
    rw [aggregate_eq_spec ts _ (by rw [expand_flatten]; exact hT), expand_flatten]
  rw [hagg]
  obtain ⟨h1, h2, h3⟩ := aggregateSpec_groups ts _ hT
  refine ⟨h1, fun sk => (h2 sk).trans (mem_expand_keys keysOf _ sk), fun sk sts hm => ?_⟩
  rw [h3 sk sts hm]
  apply List.map_congr_left
  intro j _
  rw [expand_filter keysOf hnd, List.map_map]
  rfl


/-! ### pivot -/

theorem zip_flatMap_eqlen {α β γ : Type} (f : α → List β) (g : α → List γ) : ∀ l : List α,
    (∀ p ∈ l, (f p).length = (g p).length) →
    (l.flatMap f).zip (l.flatMap g) = l.flatMap (fun p => (f p).zip (g p)) := by
  intro l
  induction l with
  | nil => intro _; rfl
  | cons a l ih =>
    intro h
    rw [List.flatMap_cons, List.flatMap_cons, List.flatMap_cons,
      List.zip_append (h a List.mem_cons_self), ih (fun p hp => h p (List.mem_cons_of_mem _ hp))]

theorem length_flatMap_block {α β : Type} (n : Nat) (f : α → List β) : ∀ l : List α,
    (∀ p ∈ l, (f p).length = n) → (l.flatMap f).length = l.length * n := by
  intro l
  induction l with
  | nil => intro _; simp
  | cons a l ih =>
    intro h
    rw [List.flatMap_cons, List.length_append, h a List.mem_cons_self,
      ih (fun p hp => h p (List.mem_cons_of_mem _ hp)), List.length_cons, Nat.succ_mul, Nat.add_comm]

/-- position `i * n + j` of a concatenation of blocks of length `n` is position `j` of block `i` -/
theorem getElem?_flatMap_block {α β : Type} (n : Nat) (f : α → List β) : ∀ l : List α,
    (∀ p ∈ l, (f p).length = n) → ∀ (i j : Nat) (p : α), l[i]? = some p → j < n →
    (l.flatMap f)[i * n + j]? = (f p)[j]? := by
  intro l
  induction l with
  | nil => intro _ i j p hi; simp at hi
  | cons a l ih =>
    intro h i j p hi hj
    have ha := h a List.mem_cons_self
    rw [List.flatMap_cons]
    cases i with
    | zero =>
      simp only [List.getElem?_cons_zero, Option.some.injEq] at hi
      subst hi
      rw [Nat.zero_mul, Nat.zero_add, List.getElem?_append_left (by rw [ha]; exact hj)]
    | succ i =>
      rw [List.getElem?_cons_succ] at hi
      rw [List.getElem?_append_right (by rw [ha, Nat.succ_mul]; omega), ha]
      have : (i + 1) * n + j - n = i * n + j := by rw [Nat.succ_mul]; omega
      rw [this]
      exact ih (fun p hp => h p (List.mem_cons_of_mem _ hp)) i j p hi hj

/-- the accumulator blocks of one pivoted group over the rows `rs`: one `colSumm` block per pivot value, over the
rows with that pivot value -/
def cellSumm {κ : Type} (n : Nat) (pvs : List SV) (rs : List (κ × SV × List SV)) : List St :=
  pvs.flatMap fun p => colSumm n ((rs.map (·.2)).filter (·.1 == p))

/-- the per-row update of `addRowPivot` -/
def cellStep {κ : Type} (pvs : List SV) (r : κ × SV × List SV) (sts : List St) : List St :=
  stepCells pvs r.2.1 sts r.2.2

theorem cellSumm_length {κ : Type} (n : Nat) (pvs : List SV) (rs : List (κ × SV × List SV)) :
    (cellSumm n pvs rs).length = pvs.length * n :=
  length_flatMap_block n _ pvs (fun _ _ => colSumm_length n _)

theorem cellSumm_nil {κ : Type} (n : Nat) (pvs : List SV) :
    cellSumm n pvs ([] : List (κ × SV × List SV)) = List.replicate (pvs.length * n) St.init := by
  unfold cellSumm
  induction pvs with
  | nil => simp
  | cons p ps ih =>
    rw [List.flatMap_cons, ih, List.map_nil, List.filter_nil, colSumm_nil, List.replicate_append_replicate,
      List.length_cons, Nat.succ_mul, Nat.add_comm]

theorem stepCells_cellSumm {κ : Type} (n : Nat) (pvs : List SV) (rs : List (κ × SV × List SV))
    (r : κ × SV × List SV) (hr : r.2.2.length = n) :
    stepCells pvs r.2.1 (cellSumm n pvs rs) r.2.2 = cellSumm n pvs (rs ++ [r]) := by
  unfold stepCells cellSumm
  rw [zip_flatMap_eqlen _ _ pvs (by intro p _; rw [colSumm_length, List.length_map, hr]), List.map_flatMap]
  apply List.flatMap_congr
  intro p _
  rw [List.zip_map_right, List.map_map, List.map_append, List.filter_append, List.map_singleton]
  by_cases hp : p = r.2.1
  · have : [r.2].filter (·.1 == p) = [r.2] := by simp [hp]
    rw [this, ← stepCols n _ r.2 hr]
    apply List.map_congr_left
    rintro ⟨s, v⟩ _
    simp [hp]
  · have : [r.2].filter (·.1 == p) = [] := by
      simp only [List.filter_cons, List.filter_nil]
      rw [if_neg (by simpa using fun e : r.2.1 = p => hp e.symm)]
    rw [this, List.append_nil]
    have hfst : ((fun x : St × SV × SV => if x.2.1 == r.2.1 then x.1.step x.2.2 else x.1) ∘
        Prod.map id fun v => (p, v)) = (Prod.fst : St × SV → St) := by
      funext x
      simp [hp]
    exact (congrArg (fun f => List.map f _) hfst).trans
      (List.map_fst_zip (by rw [colSumm_length, hr]))

theorem foldR_cells {κ : Type} (n : Nat) (pvs : List SV) (rs : List (κ × SV × List SV))
    (hlen : ∀ r ∈ rs, r.2.2.length = n) :
    foldR (cellStep pvs) (List.replicate (pvs.length * n) St.init) rs = cellSumm n pvs rs := by
  induction rs using list_rev_ind with
  | nil => rw [cellSumm_nil]; rfl
  | snoc rs r ih =>
    rw [foldR_snoc, ih (fun x hx => hlen x (List.mem_append_left _ hx))]
    exact stepCells_cellSumm n pvs rs r (hlen r (by simp))

theorem zipMerge_cellSumm {κ : Type} (ts : List Ty) (pvs : List SV) (xs ys : List (κ × SV × List SV))
    (h : ∀ r ∈ xs ++ ys, RowTyped ts r.2) :
    zipMerge (cellSumm ts.length pvs xs) (cellSumm ts.length pvs ys) = cellSumm ts.length pvs (xs ++ ys) := by
  unfold zipMerge cellSumm
  rw [zip_flatMap_eqlen _ _ pvs (by intro p _; rw [colSumm_length, colSumm_length]), List.map_flatMap]
  apply List.flatMap_congr
  intro p _
  rw [List.map_append, List.filter_append]
  refine zipMerge_colSumm ts _ _ ?_
  intro q hq
  rw [← List.filter_append, ← List.map_append] at hq
  obtain ⟨r, hr, rfl⟩ := List.mem_map.1 (List.mem_filter.1 hq).1
  exact h r hr

theorem zipMerge_foldR_cells {κ : Type} (ts : List Ty) (pvs : List SV) (xs ys : List (κ × SV × List SV))
    (h : ∀ r ∈ xs ++ ys, RowTyped ts r.2) :
    zipMerge (foldR (cellStep pvs) (List.replicate (pvs.length * ts.length) St.init) xs)
        (foldR (cellStep pvs) (List.replicate (pvs.length * ts.length) St.init) ys)
      = foldR (cellStep pvs) (List.replicate (pvs.length * ts.length) St.init) (xs ++ ys) := by
  rw [foldR_cells _ pvs xs (fun r hr => (h r (List.mem_append_left _ hr)).1),
    foldR_cells _ pvs ys (fun r hr => (h r (List.mem_append_right _ hr)).1),
    foldR_cells _ pvs (xs ++ ys) (fun r hr => (h r hr).1)]
  exact zipMerge_cellSumm ts pvs xs ys h

section Pivot
variable {κ : Type} [BEq κ] [LawfulBEq κ] [DecidableEq κ]

omit [LawfulBEq κ] [DecidableEq κ] in
theorem aggregatePivotSpec_eq_foldG (n : Nat) (pvs : List SV) (rows : List (κ × SV × List SV)) :
    aggregatePivotSpec n pvs rows = foldG (·.1) (cellStep pvs) (List.replicate (pvs.length * n) St.init) rows := rfl

omit [LawfulBEq κ] [DecidableEq κ] in
theorem aggregatePivot_eq_foldG (n : Nat) (pvs : List SV) (parts : List (List (κ × SV × List SV))) :
    aggregatePivot n pvs parts
      = (parts.map (foldG (·.1) (cellStep pvs) (List.replicate (pvs.length * n) St.init))).foldl mergeGroups [] := rfl

/-- pivoted aggregation is independent of the partitioning -/
theorem aggregatePivot_eq_spec (ts : List Ty) (pvs : List SV) (parts : List (List (κ × SV × List SV)))
    (h : ∀ r ∈ parts.flatten, RowTyped ts r.2) :
    aggregatePivot ts.length pvs parts = aggregatePivotSpec ts.length pvs parts.flatten := by
  rw [aggregatePivot_eq_foldG, aggregatePivotSpec_eq_foldG]
  exact parts_foldG _ _ _ (fun r => RowTyped ts r.2) (zipMerge_foldR_cells ts pvs) parts h

theorem aggregatePivotSpec_rep (n : Nat) (pvs : List SV) (rows : List (κ × SV × List SV))
    (hlen : ∀ r ∈ rows, r.2.2.length = n) :
    aggregatePivotSpec n pvs rows
      = rep (dedupK (rows.map (·.1))) (fun k => cellSumm n pvs (rows.filter (·.1 == k))) := by
  rw [aggregatePivotSpec_eq_foldG, foldG_rep]
  apply rep_congr
  intro k _
  exact foldR_cells n pvs _ (fun r hr => hlen r (List.mem_filter.1 hr).1)

/-- the groups of the pivoted aggregation and the contents of each cell -/
theorem aggregatePivotSpec_cells (n : Nat) (pvs : List SV) (rows : List (κ × SV × List SV))
    (hlen : ∀ r ∈ rows, r.2.2.length = n) :
    ((aggregatePivotSpec n pvs rows).map (·.1)).Nodup ∧
    (∀ k, k ∈ (aggregatePivotSpec n pvs rows).map (·.1) ↔ k ∈ rows.map (·.1)) ∧
    ∀ k sts, (k, sts) ∈ aggregatePivotSpec n pvs rows → sts.length = pvs.length * n ∧
      ∀ (i j : Nat) (p : SV), pvs[i]? = some p → j < n →
        sts[i * n + j]? = some (summarize ((rows.filter fun r => r.1 == k && r.2.1 == p).map fun r => r.2.2.getD j .null)) := by
  rw [aggregatePivotSpec_rep n pvs rows hlen, rep_keys]
  refine ⟨nodup_dedupK _, fun k => mem_dedupK _ k, fun k sts hks => ?_⟩
  rw [(mem_rep hks).2]
  refine ⟨cellSumm_length n pvs _, fun i j p hi hj => ?_⟩
  unfold cellSumm
  rw [getElem?_flatMap_block n _ pvs (fun _ _ => colSumm_length n _) i j p hi hj]
  unfold colSumm
  rw [List.getElem?_map, List.getElem?_range hj, Option.map_some, List.filter_map, List.map_map, List.filter_filter]
  have hf : (rows.filter fun a => ((fun x : SV × List SV => x.1 == p) ∘ fun x : κ × SV × List SV => x.2) a && a.1 == k)
      = rows.filter fun r => r.1 == k && r.2.1 == p :=
    List.filter_congr fun r _ => Bool.and_comm _ _
  rw [hf]
  rfl

end Pivot

end PysparklingVerif.Agg
