/-
  Helper lemmas for C14 (grouped aggregation).
  Strategy: (1) moments — express the two-pass central moments through raw power sums `pw k`, which
  are additive over `++`; the streaming update and the Pébay merge then are identities between rational
  functions (`field_simp; ring`). (2) every field of `summarize vs` gets a closed form (reverse
  induction), so `merge` = accumulator of the concatenation is shown field by field. (3) groups are
  represented functionally (`keys.map fun k => (k, G k)`); `addRow` / `mergeGroups` are instances of
  one `upsert` whose effect on that representation is a single lemma.
-/
import PysparklingVerif.Model.Agg
import Mathlib.Tactic.FieldSimp
import Mathlib.Tactic.Ring
import Mathlib.Tactic.Positivity
import Mathlib.Tactic.Linarith
import Mathlib.Algebra.Order.Field.Rat

namespace PysparklingVerif.Agg
open PysparklingVerif.Sql

/-! ### reverse induction -/

theorem list_rev_ind {α : Type} {P : List α → Prop} (nil : P [])
    (snoc : ∀ l a, P l → P (l ++ [a])) : ∀ l, P l := by
  intro l
  rw [← List.reverse_reverse l]
  induction l.reverse with
  | nil => exact nil
  | cons a t ih => rw [List.reverse_cons]; exact snoc _ _ ih

/-! ### `rsum` and raw power sums -/

theorem foldl_add_acc (xs : List Rat) (a : Rat) :
    xs.foldl (· + ·) a = a + xs.foldl (· + ·) 0 := by
  induction xs generalizing a with
  | nil => simp
  | cons x xs ih =>
    simp only [List.foldl_cons]
    rw [ih (a + x), ih (0 + x)]; ring

@[simp] theorem rsum_nil : rsum [] = 0 := rfl

theorem rsum_cons (x : Rat) (xs : List Rat) : rsum (x :: xs) = x + rsum xs := by
  unfold rsum
  simp only [List.foldl_cons]
  rw [foldl_add_acc xs (0 + x)]; ring

theorem rsum_append (xs ys : List Rat) : rsum (xs ++ ys) = rsum xs + rsum ys := by
  induction xs with
  | nil => simp
  | cons x xs ih => simp only [List.cons_append, rsum_cons, ih]; ring

/-- `Σ x^k` -/
def pw (k : Nat) (xs : List Rat) : Rat := rsum (xs.map fun x => x ^ k)

@[simp] theorem pw_nil (k : Nat) : pw k [] = 0 := rfl
theorem pw_cons (k : Nat) (x : Rat) (xs : List Rat) : pw k (x :: xs) = x ^ k + pw k xs := by
  simp only [pw, List.map_cons, rsum_cons]
theorem pw_append (k : Nat) (xs ys : List Rat) : pw k (xs ++ ys) = pw k xs + pw k ys := by
  simp only [pw, List.map_append, rsum_append]
theorem pw_singleton (k : Nat) (x : Rat) : pw k [x] = x ^ k := by simp [pw_cons]

/-! ### central moments through power sums -/

def M2 (n s1 s2 : ℚ) : ℚ := s2 - s1^2/n
def M3 (n s1 s2 s3 : ℚ) : ℚ := s3 - 3*s1*s2/n + 2*s1^3/n^2
def M4 (n s1 s2 s3 s4 : ℚ) : ℚ := s4 - 4*s1*s3/n + 6*s1^2*s2/n^2 - 3*s1^4/n^3

theorem dev2 (xs : List Rat) (c : Rat) :
    rsum (xs.map fun x => (x - c) ^ 2) = pw 2 xs - 2 * c * rsum xs + xs.length * c ^ 2 := by
  induction xs with
  | nil => simp
  | cons x xs ih =>
    simp only [List.map_cons, rsum_cons, ih, pw_cons, List.length_cons]
    push_cast; ring

theorem dev3 (xs : List Rat) (c : Rat) :
    rsum (xs.map fun x => (x - c) ^ 3)
      = pw 3 xs - 3 * c * pw 2 xs + 3 * c ^ 2 * rsum xs - xs.length * c ^ 3 := by
  induction xs with
  | nil => simp
  | cons x xs ih =>
    simp only [List.map_cons, rsum_cons, ih, pw_cons, List.length_cons]
    push_cast; ring

theorem dev4 (xs : List Rat) (c : Rat) :
    rsum (xs.map fun x => (x - c) ^ 4)
      = pw 4 xs - 4 * c * pw 3 xs + 6 * c ^ 2 * pw 2 xs - 4 * c ^ 3 * rsum xs + xs.length * c ^ 4 := by
  induction xs with
  | nil => simp
  | cons x xs ih =>
    simp only [List.map_cons, rsum_cons, ih, pw_cons, List.length_cons]
    push_cast; ring

theorem central2_eq (xs : List Rat) : central 2 xs = M2 xs.length (rsum xs) (pw 2 xs) := by
  unfold central
  simp only [dev2, M2]
  by_cases hn : (xs.length : ℚ) = 0
  · simp [hn]
  · field_simp; ring

theorem central3_eq (xs : List Rat) :
    central 3 xs = M3 xs.length (rsum xs) (pw 2 xs) (pw 3 xs) := by
  unfold central
  simp only [dev3, M3]
  by_cases hn : (xs.length : ℚ) = 0
  · simp [hn]
  · field_simp; ring

theorem central4_eq (xs : List Rat) :
    central 4 xs = M4 xs.length (rsum xs) (pw 2 xs) (pw 3 xs) (pw 4 xs) := by
  unfold central
  simp only [dev4, M4]
  by_cases hn : (xs.length : ℚ) = 0
  · simp [hn]
  · field_simp; ring

/-! ### Pébay merge identities (pure rational functions) -/

theorem merge_m2 (n1 n2 a1 a2 b1 b2 : ℚ) (h1 : 0 < n1) (h2 : 0 < n2) :
    M2 n1 a1 a2 + M2 n2 b1 b2 + (b1/n2 - a1/n1) * ((b1/n2 - a1/n1) / (n1+n2)) * n1 * n2
      = M2 (n1+n2) (a1+b1) (a2+b2) := by
  have : n1 + n2 ≠ 0 := by positivity
  have : n1 ≠ 0 := by positivity
  have : n2 ≠ 0 := by positivity
  simp only [M2]; field_simp; ring

theorem merge_m3 (n1 n2 a1 a2 a3 b1 b2 b3 : ℚ) (h1 : 0 < n1) (h2 : 0 < n2) :
    M3 n1 a1 a2 a3 + M3 n2 b1 b2 b3
      + ((b1/n2 - a1/n1) / (n1+n2)) * ((b1/n2 - a1/n1) / (n1+n2)) * (b1/n2 - a1/n1) * n1 * n2 * (n1 - n2)
      + 3 * ((b1/n2 - a1/n1) / (n1+n2)) * (n1 * M2 n2 b1 b2 - n2 * M2 n1 a1 a2)
      = M3 (n1+n2) (a1+b1) (a2+b2) (a3+b3) := by
  have : n1 + n2 ≠ 0 := by positivity
  have : n1 ≠ 0 := by positivity
  have : n2 ≠ 0 := by positivity
  simp only [M2, M3]; field_simp; ring

theorem merge_m4 (n1 n2 a1 a2 a3 a4 b1 b2 b3 b4 : ℚ) (h1 : 0 < n1) (h2 : 0 < n2) :
    M4 n1 a1 a2 a3 a4 + M4 n2 b1 b2 b3 b4
      + ((b1/n2 - a1/n1) / (n1+n2)) * ((b1/n2 - a1/n1) / (n1+n2)) * ((b1/n2 - a1/n1) / (n1+n2))
          * (b1/n2 - a1/n1) * n1 * n2 * (n1 * n1 - n1 * n2 + n2 * n2)
      + 6 * ((b1/n2 - a1/n1) / (n1+n2)) * ((b1/n2 - a1/n1) / (n1+n2))
          * (n1 * n1 * M2 n2 b1 b2 + n2 * n2 * M2 n1 a1 a2)
      + 4 * ((b1/n2 - a1/n1) / (n1+n2)) * (n1 * M3 n2 b1 b2 b3 - n2 * M3 n1 a1 a2 a3)
      = M4 (n1+n2) (a1+b1) (a2+b2) (a3+b3) (a4+b4) := by
  have : n1 + n2 ≠ 0 := by positivity
  have : n1 ≠ 0 := by positivity
  have : n2 ≠ 0 := by positivity
  simp only [M2, M3, M4]; field_simp; ring

/-! ### streaming update identities (one new value `x`) -/

theorem add_m2 (n a1 a2 x : ℚ) (h : 0 < n) :
    M2 n a1 a2 + (x - a1/n) * ((x - a1/n) - (x - a1/n) / (n + 1))
      = M2 (n+1) (a1+x) (a2+x^2) := by
  have : n + 1 ≠ 0 := by positivity
  have : n ≠ 0 := by positivity
  simp only [M2]; field_simp; ring

theorem add_m3 (n a1 a2 a3 x : ℚ) (h : 0 < n) :
    M3 n a1 a2 a3 - 3 * ((x - a1/n) / (n + 1)) * M2 (n+1) (a1+x) (a2+x^2)
      + (x - a1/n) * ((x - a1/n) * (x - a1/n) - ((x - a1/n) / (n + 1)) * ((x - a1/n) / (n + 1)))
      = M3 (n+1) (a1+x) (a2+x^2) (a3+x^3) := by
  have : n + 1 ≠ 0 := by positivity
  have : n ≠ 0 := by positivity
  simp only [M2, M3]; field_simp; ring

theorem add_m4 (n a1 a2 a3 a4 x : ℚ) (h : 0 < n) :
    M4 n a1 a2 a3 a4 - 4 * ((x - a1/n) / (n + 1)) * M3 (n+1) (a1+x) (a2+x^2) (a3+x^3)
      - 6 * (((x - a1/n) / (n + 1)) * ((x - a1/n) / (n + 1))) * M2 (n+1) (a1+x) (a2+x^2)
      + (x - a1/n) * ((x - a1/n) * ((x - a1/n) * (x - a1/n))
          - ((x - a1/n) / (n + 1)) * (((x - a1/n) / (n + 1)) * ((x - a1/n) / (n + 1))))
      = M4 (n+1) (a1+x) (a2+x^2) (a3+x^3) (a4+x^4) := by
  have : n + 1 ≠ 0 := by positivity
  have : n ≠ 0 := by positivity
  simp only [M2, M3, M4]; field_simp; ring

/-! ### the moment invariant -/

def MomRep (s : St) (xs : List Rat) : Prop :=
  s.n = xs.length ∧ s.sum = rsum xs ∧ s.m2 = M2 xs.length (rsum xs) (pw 2 xs) ∧
  s.m3 = M3 xs.length (rsum xs) (pw 2 xs) (pw 3 xs) ∧
  s.m4 = M4 xs.length (rsum xs) (pw 2 xs) (pw 3 xs) (pw 4 xs)

theorem momentsAdd_rep (s : St) (xs : List Rat) (x : Rat) (h : MomRep s xs) :
    MomRep (momentsAdd s x) (xs ++ [x]) := by
  obtain ⟨hn, hs, h2, h3, h4⟩ := h
  have hlen : ((xs ++ [x]).length : ℚ) = (xs.length : ℚ) + 1 := by simp
  have hr : rsum (xs ++ [x]) = rsum xs + x := by rw [rsum_append]; simp [rsum_cons]
  have hp : ∀ k, pw k (xs ++ [x]) = pw k xs + x ^ k := fun k => by rw [pw_append, pw_singleton]
  unfold MomRep
  rw [hlen, hr, hp, hp, hp]
  by_cases h0 : s.n = 0
  · have hx : xs = [] := by
      rw [h0] at hn; exact List.eq_nil_of_length_eq_zero hn.symm
    subst hx
    simp only [pw_nil, rsum_nil, List.length_nil, Nat.cast_zero, M2, M3, M4] at hs h2 h3 h4
    refine ⟨by simp [momentsAdd, h0], by simp [momentsAdd, hs], ?_, ?_, ?_⟩
    · simp [momentsAdd, h0, h2, M2]
    · simp [momentsAdd, h0, h2, h3, M3]; ring
    · simp [momentsAdd, h0, h2, h3, h4, M4]; ring
  · have hif : s.n > 0 := Nat.pos_of_ne_zero h0
    have hpos : (0:ℚ) < xs.length := by rw [← hn]; exact_mod_cast hif
    have e2 : (momentsAdd s x).m2 = M2 (xs.length + 1) (rsum xs + x) (pw 2 xs + x ^ 2) := by
      simp only [momentsAdd, hif, if_true]
      rw [hn, hs, h2]
      exact add_m2 _ _ _ _ hpos
    have e3 : (momentsAdd s x).m3 = M3 (xs.length + 1) (rsum xs + x) (pw 2 xs + x ^ 2) (pw 3 xs + x ^ 3) := by
      have : (momentsAdd s x).m3 = s.m3 - 3 * ((x - s.sum / s.n) / ((s.n : ℚ) + 1)) * (momentsAdd s x).m2
        + (x - s.sum / s.n) * ((x - s.sum / s.n) * (x - s.sum / s.n) - ((x - s.sum / s.n) / ((s.n : ℚ) + 1)) * ((x - s.sum / s.n) / ((s.n : ℚ) + 1))) := by
        simp only [momentsAdd, hif, if_true]
      rw [this, e2, hn, hs, h3]
      exact add_m3 _ _ _ _ _ hpos
    refine ⟨by simp [momentsAdd, hn], by simp [momentsAdd, hs], e2, e3, ?_⟩
    have : (momentsAdd s x).m4 = s.m4 - 4 * ((x - s.sum / s.n) / ((s.n : ℚ) + 1)) * (momentsAdd s x).m3
        - 6 * (((x - s.sum / s.n) / ((s.n : ℚ) + 1)) * ((x - s.sum / s.n) / ((s.n : ℚ) + 1))) * (momentsAdd s x).m2
        + (x - s.sum / s.n) * ((x - s.sum / s.n) * ((x - s.sum / s.n) * (x - s.sum / s.n))
          - ((x - s.sum / s.n) / ((s.n : ℚ) + 1)) * (((x - s.sum / s.n) / ((s.n : ℚ) + 1)) * ((x - s.sum / s.n) / ((s.n : ℚ) + 1)))) := by
      simp only [momentsAdd, hif, if_true]
    rw [this, e2, e3, hn, hs, h4]
    exact add_m4 _ _ _ _ _ _ hpos

theorem momentsMerge_rep (a b : St) (xs ys : List Rat) (ha : MomRep a xs) (hb : MomRep b ys) :
    MomRep (momentsMerge a b) (xs ++ ys) := by
  by_cases hb0 : b.n = 0
  · have hy : ys = [] := by
      have := hb.1; rw [hb0] at this; exact List.eq_nil_of_length_eq_zero this.symm
    subst hy
    simpa [momentsMerge, hb0] using ha
  by_cases ha0 : a.n = 0
  · have hx : xs = [] := by
      have := ha.1; rw [ha0] at this; exact List.eq_nil_of_length_eq_zero this.symm
    subst hx
    simpa [momentsMerge, hb0, ha0, MomRep] using hb
  obtain ⟨an, as, a2, a3, a4⟩ := ha
  obtain ⟨bn, bs, b2, b3, b4⟩ := hb
  have hp1 : (0:ℚ) < xs.length := by rw [← an]; exact_mod_cast Nat.pos_of_ne_zero ha0
  have hp2 : (0:ℚ) < ys.length := by rw [← bn]; exact_mod_cast Nat.pos_of_ne_zero hb0
  unfold MomRep
  rw [List.length_append, Nat.cast_add, rsum_append, pw_append, pw_append, pw_append]
  simp only [momentsMerge, hb0, ha0, if_false]
  refine ⟨by rw [an, bn], by rw [as, bs], ?_, ?_, ?_⟩
  · rw [an, bn, as, bs, a2, b2]; exact merge_m2 _ _ _ _ _ _ hp1 hp2
  · rw [an, bn, as, bs, a2, b2, a3, b3]; exact merge_m3 _ _ _ _ _ _ _ _ hp1 hp2
  · rw [an, bn, as, bs, a2, b2, a3, b3, a4, b4]; exact merge_m4 _ _ _ _ _ _ _ _ _ _ hp1 hp2

/-! ### one step, field by field -/

def pickStep (r : SV → SV → Bool) (acc : Option SV) (v : SV) : Option SV :=
  match acc with | none => some v | some m => some (if r m v then m else v)
def pickFold (r : SV → SV → Bool) (l : List SV) : Option SV := l.foldl (pickStep r) none
def pickMerge (r : SV → SV → Bool) : Option SV → Option SV → Option SV
  | none, y => y
  | some x, none => some x
  | some x, some y => some (if r x y then x else y)

/-- `svLe` flipped: the relation whose "min" is the max -/
def svGe (a b : SV) : Bool := svLe b a

theorem summarize_snoc (vs : List SV) (v : SV) : summarize (vs ++ [v]) = (summarize vs).step v := by
  simp [summarize, List.foldl_append]

theorem step_null (s : St) : s.step .null =
    { s with rows := s.rows + 1, first := s.first.orElse (fun _ => some .null), last := some .null } := by
  simp [St.step]

theorem step_rows (s : St) (v : SV) : (s.step v).rows = s.rows + 1 := by
  simp only [St.step]; split
  · rfl
  · split <;> rfl

theorem step_first (s : St) (v : SV) : (s.step v).first = s.first.orElse (fun _ => some v) := by
  simp only [St.step]; split
  · rfl
  · split <;> rfl

theorem step_last (s : St) (v : SV) : (s.step v).last = some v := by
  simp only [St.step]; split
  · rfl
  · split <;> rfl

theorem step_n (s : St) (v : SV) : (s.step v).n = if v = .null then s.n else s.n + 1 := by
  simp only [St.step]; split
  · rfl
  · split <;> rfl

theorem step_items (s : St) (v : SV) : (s.step v).items = if v = .null then s.items else s.items ++ [v] := by
  simp only [St.step]; split
  · rfl
  · split <;> rfl

theorem step_firstNN (s : St) (v : SV) :
    (s.step v).firstNN = if v = .null then s.firstNN else s.firstNN.orElse (fun _ => some v) := by
  simp only [St.step]; split
  · rfl
  · split <;> rfl

theorem step_lastNN (s : St) (v : SV) :
    (s.step v).lastNN = if v = .null then s.lastNN else some v := by
  simp only [St.step]; split
  · rfl
  · split <;> rfl

theorem step_minV (s : St) (v : SV) :
    (s.step v).minV = if v = .null then s.minV else pickStep svLe s.minV v := by
  simp only [St.step]; split
  · rfl
  · split <;> (cases s.minV <;> rfl)

theorem step_maxV (s : St) (v : SV) :
    (s.step v).maxV = if v = .null then s.maxV else pickStep svGe s.maxV v := by
  simp only [St.step]; split
  · rfl
  · split <;> (cases s.maxV <;> rfl)


/-! ### closed form of every non-moment field of `summarize` -/

/-- the non-null values -/
def nn (vs : List SV) : List SV := vs.filter (· ≠ .null)

@[simp] theorem nn_nil : nn [] = [] := rfl
theorem nn_append (xs ys : List SV) : nn (xs ++ ys) = nn xs ++ nn ys := by simp [nn]
theorem nn_snoc (vs : List SV) (v : SV) : nn (vs ++ [v]) = if v = .null then nn vs else nn vs ++ [v] := by
  by_cases h : v = .null <;> simp [nn, h]
theorem mem_nn {vs : List SV} {v : SV} : v ∈ nn vs ↔ v ∈ vs ∧ v ≠ .null := by simp [nn]

theorem head?_snoc {α : Type} (l : List α) (a : α) : (l ++ [a]).head? = l.head?.orElse (fun _ => some a) := by
  cases l <;> rfl

theorem pickFold_snoc (r : SV → SV → Bool) (l : List SV) (a : SV) :
    pickFold r (l ++ [a]) = pickStep r (pickFold r l) a := by
  simp [pickFold, List.foldl_append]

theorem summarize_basic (vs : List SV) :
    (summarize vs).rows = vs.length ∧ (summarize vs).n = (nn vs).length ∧ (summarize vs).items = nn vs ∧
    (summarize vs).first = vs.head? ∧ (summarize vs).last = vs.getLast? ∧
    (summarize vs).firstNN = (nn vs).head? ∧ (summarize vs).lastNN = (nn vs).getLast? ∧
    (summarize vs).minV = pickFold svLe (nn vs) ∧ (summarize vs).maxV = pickFold svGe (nn vs) := by
  induction vs using list_rev_ind with
  | nil => exact ⟨rfl, rfl, rfl, rfl, rfl, rfl, rfl, rfl, rfl⟩
  | snoc vs v ih =>
    obtain ⟨h1, h2, h3, h4, h5, h6, h7, h8, h9⟩ := ih
    rw [summarize_snoc, step_rows, step_n, step_items, step_first, step_last, step_firstNN, step_lastNN,
      step_minV, step_maxV, h1, h2, h3, h4, h6, h7, h8, h9, nn_snoc, head?_snoc]
    by_cases hv : v = .null
    · simp [hv]
    · simp [hv, pickFold_snoc]

/-! ### moment fields of `summarize` -/

theorem step_num_rep (s : St) (v : SV) (x : Rat) (xs : List Rat) (hx : num? v = some x)
    (h : MomRep s xs) : MomRep (s.step v) (xs ++ [x]) := by
  have hv : v ≠ .null := by rintro rfl; simp [num?] at hx
  simp only [St.step, hv, if_false, hx]
  exact momentsAdd_rep _ _ _ h

theorem step_null_rep (s : St) (xs : List Rat) (h : MomRep s xs) : MomRep (s.step .null) xs := by
  rw [step_null]; exact h

theorem nums_snoc (vs : List SV) (v : SV) :
    nums (vs ++ [v]) = match num? v with | some x => nums vs ++ [x] | none => nums vs := by
  cases h : num? v <;> simp [nums, List.filterMap_append, h]

theorem summarize_mom_num (vs : List SV) (h : ∀ v ∈ vs, v ≠ .null → ∃ x, num? v = some x) :
    MomRep (summarize vs) (nums vs) := by
  induction vs using list_rev_ind with
  | nil => simp [MomRep, summarize, St.init, nums, M2, M3, M4]
  | snoc vs v ih =>
    have ih := ih (fun w hw => h w (List.mem_append_left _ hw))
    rw [summarize_snoc, nums_snoc]
    by_cases hv : v = .null
    · subst hv; exact step_null_rep _ _ ih
    · obtain ⟨x, hx⟩ := h v (by simp) hv
      rw [hx]; exact step_num_rep _ _ _ _ hx ih

theorem step_nonnum (s : St) (v : SV) (hx : num? v = none) :
    (s.step v).sum = s.sum ∧ (s.step v).m2 = s.m2 ∧ (s.step v).m3 = s.m3 ∧ (s.step v).m4 = s.m4 := by
  simp only [St.step]; split
  · exact ⟨rfl, rfl, rfl, rfl⟩
  · simp [hx]

theorem summarize_mom_nonnum (vs : List SV) (h : ∀ v ∈ vs, num? v = none) :
    (summarize vs).sum = 0 ∧ (summarize vs).m2 = 0 ∧ (summarize vs).m3 = 0 ∧ (summarize vs).m4 = 0 := by
  induction vs using list_rev_ind with
  | nil => exact ⟨rfl, rfl, rfl, rfl⟩
  | snoc vs v ih =>
    have ih := ih (fun w hw => h w (List.mem_append_left _ hw))
    obtain ⟨e1, e2, e3, e4⟩ := step_nonnum (summarize vs) v (h v (by simp))
    rw [summarize_snoc, e1, e2, e3, e4]; exact ih

/-! ### `svLe` on values of one type is a total preorder -/

theorem svLe_int (x y : Int) : svLe (.int x) (.int y) = decide (x ≤ y) := by
  simp [svLe, cmpM, typeOrder, cmpSame, Except.map]
theorem svLe_dbl (x y : Rat) : svLe (.dbl x) (.dbl y) = decide (x ≤ y) := by
  simp [svLe, cmpM, typeOrder, cmpSame, Except.map]
theorem svLe_str (x y : String) : svLe (.str x) (.str y) = decide (x ≤ y) := by
  simp [svLe, cmpM, typeOrder, cmpSame, Except.map]
theorem svLe_bool (x y : Bool) : svLe (.bool x) (.bool y) = decide (x ≤ y) := by
  simp [svLe, cmpM, typeOrder, cmpSame, Except.map]

/-- `v` is a non-null value of SQL type `t` -/
def OfTy (t : Ty) (v : SV) : Prop := tyOf v = some t

theorem svLe_total (t : Ty) (a b : SV) (ha : OfTy t a) (hb : OfTy t b) :
    svLe a b = true ∨ svLe b a = true := by
  unfold OfTy at ha hb
  cases t <;> cases a <;> simp [tyOf] at ha <;> cases b <;> simp [tyOf] at hb
  · simp only [svLe_int, decide_eq_true_eq]; exact Int.le_total _ _
  · simp only [svLe_dbl, decide_eq_true_eq]; exact Rat.le_total
  · simp only [svLe_str, decide_eq_true_eq]; exact String.le_total _ _
  · simp only [svLe_bool, decide_eq_true_eq]; exact Bool.le_total _ _

theorem svLe_trans (t : Ty) (a b c : SV) (ha : OfTy t a) (hb : OfTy t b) (hc : OfTy t c)
    (hab : svLe a b = true) (hbc : svLe b c = true) : svLe a c = true := by
  unfold OfTy at ha hb hc
  cases t <;> cases a <;> simp [tyOf] at ha <;> cases b <;> simp [tyOf] at hb <;>
    cases c <;> simp [tyOf] at hc
  · simp only [svLe_int, decide_eq_true_eq] at *; exact Int.le_trans hab hbc
  · simp only [svLe_dbl, decide_eq_true_eq] at *; exact Rat.le_trans hab hbc
  · simp only [svLe_str, decide_eq_true_eq] at *; exact String.le_trans hab hbc
  · simp only [svLe_bool, decide_eq_true_eq] at *; exact Bool.le_trans hab hbc

/-- `r` restricted to `P` is a total preorder -/
structure TotPre (r : SV → SV → Bool) (P : SV → Prop) : Prop where
  total : ∀ a b, P a → P b → r a b = true ∨ r b a = true
  trans : ∀ a b c, P a → P b → P c → r a b = true → r b c = true → r a c = true

theorem svLe_totPre (t : Ty) : TotPre svLe (OfTy t) :=
  ⟨svLe_total t, svLe_trans t⟩
theorem svGe_totPre (t : Ty) : TotPre svGe (OfTy t) :=
  ⟨fun a b ha hb => svLe_total t b a hb ha,
   fun a b c ha hb hc hab hbc => svLe_trans t c b a hc hb ha hbc hab⟩

theorem pick_assoc {r : SV → SV → Bool} {P : SV → Prop} (h : TotPre r P) (a b c : SV)
    (ha : P a) (hb : P b) (hc : P c) :
    (if r a (if r b c then b else c) then a else (if r b c then b else c))
      = (if r (if r a b then a else b) c then (if r a b then a else b) else c) := by
  cases hbc : r b c
  · cases hab : r a b
    · have hba := (h.total a b ha hb).resolve_left (by simp [hab])
      have hac : r a c = false := by
        cases hac : r a c
        · rfl
        · have := h.trans b a c hb ha hc hba hac; simp [hbc] at this
      simp [hbc, hac]
    · simp
  · cases hab : r a b
    · simp [hbc, hab]
    · have := h.trans a b c ha hb hc hab hbc; simp [this, hab]

/-! ### the fold of a left-biased "min" -/

theorem pickFold_nil (r : SV → SV → Bool) : pickFold r [] = none := rfl

theorem pickFold_eq_none (r : SV → SV → Bool) (l : List SV) : pickFold r l = none ↔ l = [] := by
  induction l using list_rev_ind with
  | nil => simp [pickFold_nil]
  | snoc l a _ =>
    rw [pickFold_snoc]
    cases pickFold r l <;> simp [pickStep]

theorem pickFold_mem (r : SV → SV → Bool) (l : List SV) (m : SV) (h : pickFold r l = some m) : m ∈ l := by
  induction l using list_rev_ind generalizing m with
  | nil => simp [pickFold_nil] at h
  | snoc l a ih =>
    rw [pickFold_snoc] at h
    cases hp : pickFold r l with
    | none => rw [hp] at h; simp [pickStep] at h; simp [h]
    | some m' =>
      rw [hp] at h; simp only [pickStep, Option.some.injEq] at h
      have := ih m' hp
      split at h <;> subst h <;> simp [this]

theorem pickFold_le {r : SV → SV → Bool} {P : SV → Prop} (hr : TotPre r P) (l : List SV)
    (hP : ∀ v ∈ l, P v) (m : SV) (h : pickFold r l = some m) : ∀ v ∈ l, r m v = true := by
  induction l using list_rev_ind generalizing m with
  | nil => simp
  | snoc l a ih =>
    have hPl : ∀ v ∈ l, P v := fun v hv => hP v (List.mem_append_left _ hv)
    have hPa : P a := hP a (by simp)
    have haa : r a a = true := (hr.total a a hPa hPa).elim id id
    rw [pickFold_snoc] at h
    cases hp : pickFold r l with
    | none =>
      rw [hp] at h; simp only [pickStep, Option.some.injEq] at h
      have : l = [] := (pickFold_eq_none r l).1 hp
      subst this; subst h
      intro v hv; simp at hv; subst hv; exact haa
    | some m' =>
      rw [hp] at h; simp only [pickStep, Option.some.injEq] at h
      have ihm := ih hPl m' hp
      have hPm' : P m' := hPl m' (pickFold_mem r l m' hp)
      intro v hv
      rw [List.mem_append, List.mem_singleton] at hv
      by_cases hc : r m' a = true
      · rw [if_pos hc] at h; subst h
        rcases hv with hv | rfl
        · exact ihm v hv
        · exact hc
      · rw [if_neg hc] at h; subst h
        have ham : r a m' = true := (hr.total m' a hPm' hPa).resolve_left hc
        rcases hv with hv | rfl
        · exact hr.trans a m' v hPa hPm' (hPl v hv) ham (ihm v hv)
        · exact haa

theorem pickMerge_none_right (r : SV → SV → Bool) (x : Option SV) : pickMerge r x none = x := by
  cases x <;> rfl

theorem pickMerge_fold {r : SV → SV → Bool} {P : SV → Prop} (hr : TotPre r P) (xs ys : List SV)
    (hx : ∀ v ∈ xs, P v) (hy : ∀ v ∈ ys, P v) :
    pickMerge r (pickFold r xs) (pickFold r ys) = pickFold r (xs ++ ys) := by
  induction ys using list_rev_ind with
  | nil => simp [pickFold_nil, pickMerge_none_right]
  | snoc ys z ih =>
    have hy' : ∀ v ∈ ys, P v := fun v hv => hy v (List.mem_append_left _ hv)
    have hz : P z := hy z (by simp)
    rw [← List.append_assoc, pickFold_snoc, pickFold_snoc, ← ih hy']
    cases hA : pickFold r xs with
    | none => cases pickFold r ys <;> rfl
    | some x =>
      cases hB : pickFold r ys with
      | none => rfl
      | some y =>
        have hPx := hx x (pickFold_mem r xs x hA)
        have hPy := hy' y (pickFold_mem r ys y hB)
        simp only [pickStep, pickMerge]
        rw [pick_assoc hr x y z hPx hPy hz]

/-! ### `merge` field by field -/

theorem St.ext' {a b : St} (h1 : a.rows = b.rows) (h2 : a.n = b.n) (h3 : a.sum = b.sum)
    (h4 : a.m2 = b.m2) (h5 : a.m3 = b.m3) (h6 : a.m4 = b.m4) (h7 : a.minV = b.minV)
    (h8 : a.maxV = b.maxV) (h9 : a.items = b.items) (h10 : a.first = b.first)
    (h11 : a.firstNN = b.firstNN) (h12 : a.last = b.last) (h13 : a.lastNN = b.lastNN) : a = b := by
  cases a; cases b; simp_all

theorem merge_minV (a b : St) : (a.merge b).minV = pickMerge svLe a.minV b.minV := by
  simp only [St.merge]; cases a.minV <;> cases b.minV <;> rfl

theorem merge_maxV (a b : St) : (a.merge b).maxV = pickMerge svGe a.maxV b.maxV := by
  simp only [St.merge]; cases a.maxV <;> cases b.maxV <;> rfl

theorem momentsMerge_n (a b : St) : (momentsMerge a b).n = a.n + b.n := by
  unfold momentsMerge
  split
  · simp [*]
  · split
    · simp [*]
    · rfl

theorem momentsMerge_zero (a b : St) (ha : a.sum = 0 ∧ a.m2 = 0 ∧ a.m3 = 0 ∧ a.m4 = 0)
    (hb : b.sum = 0 ∧ b.m2 = 0 ∧ b.m3 = 0 ∧ b.m4 = 0) :
    (momentsMerge a b).sum = 0 ∧ (momentsMerge a b).m2 = 0 ∧ (momentsMerge a b).m3 = 0 ∧
      (momentsMerge a b).m4 = 0 := by
  obtain ⟨a1, a2, a3, a4⟩ := ha
  obtain ⟨b1, b2, b3, b4⟩ := hb
  unfold momentsMerge
  split
  · exact ⟨a1, a2, a3, a4⟩
  · split
    · exact ⟨b1, b2, b3, b4⟩
    · simp [a1, a2, a3, a4, b1, b2, b3, b4]

theorem nums_append (xs ys : List SV) : nums (xs ++ ys) = nums xs ++ nums ys := by
  simp [nums, List.filterMap_append]

theorem MomRep_unique {s s' : St} {l : List Rat} (h : MomRep s l) (h' : MomRep s' l) :
    s.sum = s'.sum ∧ s.m2 = s'.m2 ∧ s.m3 = s'.m3 ∧ s.m4 = s'.m4 := by
  obtain ⟨_, a1, a2, a3, a4⟩ := h
  obtain ⟨_, b1, b2, b3, b4⟩ := h'
  exact ⟨a1.trans b1.symm, a2.trans b2.symm, a3.trans b3.symm, a4.trans b4.symm⟩

/-- all non-null values have SQL type `t` -/
def TypedL (t : Ty) (vs : List SV) : Prop := ∀ v ∈ vs, v = .null ∨ tyOf v = some t

theorem TypedL.num {t : Ty} {vs : List SV} (h : TypedL t vs) (ht : t = .int ∨ t = .dbl) :
    ∀ v ∈ vs, v ≠ .null → ∃ x, num? v = some x := by
  intro v hv hn
  rcases h v hv with h | h
  · exact absurd h hn
  · rcases ht with rfl | rfl <;> cases v <;> simp [tyOf] at h <;> exact ⟨_, rfl⟩

theorem TypedL.nonnum {t : Ty} {vs : List SV} (h : TypedL t vs) (ht : t = .str ∨ t = .bool) :
    ∀ v ∈ vs, num? v = none := by
  intro v hv
  rcases h v hv with h | h
  · subst h; rfl
  · rcases ht with rfl | rfl <;> cases v <;> simp [tyOf] at h <;> rfl

theorem TypedL.ofTy {t : Ty} {vs : List SV} (h : TypedL t vs) : ∀ v ∈ nn vs, OfTy t v := by
  intro v hv
  rw [mem_nn] at hv
  exact (h v hv.1).resolve_left hv.2

theorem merge_summarize (xs ys : List SV) (t : Ty) (h : TypedL t (xs ++ ys)) :
    (summarize xs).merge (summarize ys) = summarize (xs ++ ys) := by
  have hxT : TypedL t xs := fun v hv => h v (List.mem_append_left _ hv)
  have hyT : TypedL t ys := fun v hv => h v (List.mem_append_right _ hv)
  obtain ⟨a1, a2, a3, a4, a5, a6, a7, a8, a9⟩ := summarize_basic xs
  obtain ⟨b1, b2, b3, b4, b5, b6, b7, b8, b9⟩ := summarize_basic ys
  obtain ⟨c1, c2, c3, c4, c5, c6, c7, c8, c9⟩ := summarize_basic (xs ++ ys)
  have hmom : (momentsMerge (summarize xs) (summarize ys)).sum = (summarize (xs ++ ys)).sum ∧
      (momentsMerge (summarize xs) (summarize ys)).m2 = (summarize (xs ++ ys)).m2 ∧
      (momentsMerge (summarize xs) (summarize ys)).m3 = (summarize (xs ++ ys)).m3 ∧
      (momentsMerge (summarize xs) (summarize ys)).m4 = (summarize (xs ++ ys)).m4 := by
    by_cases ht : t = .int ∨ t = .dbl
    · have := momentsMerge_rep _ _ _ _ (summarize_mom_num xs (hxT.num ht)) (summarize_mom_num ys (hyT.num ht))
      rw [← nums_append] at this
      exact MomRep_unique this (summarize_mom_num _ (h.num ht))
    · have ht' : t = .str ∨ t = .bool := by cases t <;> simp at ht ⊢
      obtain ⟨z1, z2, z3, z4⟩ := momentsMerge_zero _ _ (summarize_mom_nonnum xs (hxT.nonnum ht'))
        (summarize_mom_nonnum ys (hyT.nonnum ht'))
      obtain ⟨w1, w2, w3, w4⟩ := summarize_mom_nonnum _ (h.nonnum ht')
      exact ⟨z1.trans w1.symm, z2.trans w2.symm, z3.trans w3.symm, z4.trans w4.symm⟩
  apply St.ext'
  · show (summarize xs).rows + (summarize ys).rows = _
    rw [a1, b1, c1, List.length_append]
  · show (momentsMerge (summarize xs) (summarize ys)).n = _
    rw [momentsMerge_n, a2, b2, c2, nn_append, List.length_append]
  · exact hmom.1
  · exact hmom.2.1
  · exact hmom.2.2.1
  · exact hmom.2.2.2
  · rw [merge_minV, a8, b8, c8, nn_append]
    exact pickMerge_fold (svLe_totPre t) _ _ hxT.ofTy hyT.ofTy
  · rw [merge_maxV, a9, b9, c9, nn_append]
    exact pickMerge_fold (svGe_totPre t) _ _ hxT.ofTy hyT.ofTy
  · show (summarize xs).items ++ (summarize ys).items = _
    rw [a3, b3, c3, nn_append]
  · show (summarize xs).first.orElse (fun _ => (summarize ys).first) = _
    rw [a4, b4, c4]; cases xs <;> rfl
  · show (summarize xs).firstNN.orElse (fun _ => (summarize ys).firstNN) = _
    rw [a6, b6, c6, nn_append]; cases nn xs <;> rfl
  · show (summarize ys).last.orElse (fun _ => (summarize xs).last) = _
    rw [a5, b5, c5, List.getLast?_append]; cases ys.getLast? <;> rfl
  · show (summarize ys).lastNN.orElse (fun _ => (summarize xs).lastNN) = _
    rw [a7, b7, c7, nn_append, List.getLast?_append]; cases (nn ys).getLast? <;> rfl

/-! ### first-occurrence dedup of keys -/

abbrev Key := List SV

def dedupK (l : List Key) : List Key := l.foldl (fun acc k => if k ∈ acc then acc else acc ++ [k]) []

@[simp] theorem dedupK_nil : dedupK [] = [] := rfl
theorem dedupK_snoc (l : List Key) (k : Key) :
    dedupK (l ++ [k]) = if k ∈ dedupK l then dedupK l else dedupK l ++ [k] := by
  unfold dedupK; rw [List.foldl_append]; rfl

theorem mem_dedupK (l : List Key) (k : Key) : k ∈ dedupK l ↔ k ∈ l := by
  induction l using list_rev_ind generalizing k with
  | nil => simp
  | snoc l a ih =>
    rw [dedupK_snoc]
    by_cases ha : a ∈ dedupK l
    · rw [if_pos ha, List.mem_append, List.mem_singleton, ih]
      constructor
      · exact Or.inl
      · rintro (h | rfl)
        · exact h
        · exact (ih _).1 ha
    · rw [if_neg ha, List.mem_append, List.mem_append, ih]

theorem nodup_dedupK (l : List Key) : (dedupK l).Nodup := by
  induction l using list_rev_ind with
  | nil => simp
  | snoc l a ih =>
    rw [dedupK_snoc]
    by_cases ha : a ∈ dedupK l
    · rw [if_pos ha]; exact ih
    · rw [if_neg ha]
      exact List.nodup_append.2 ⟨ih, by simp, by
        intro x hx y hy; simp at hy; subst hy; rintro rfl; exact ha hx⟩

theorem dedupK_append (l₁ l₂ : List Key) :
    dedupK (l₁ ++ l₂) = dedupK l₁ ++ (dedupK l₂).filter (fun k => decide (k ∉ dedupK l₁)) := by
  induction l₂ using list_rev_ind with
  | nil => simp
  | snoc l a ih =>
    rw [← List.append_assoc, dedupK_snoc, dedupK_snoc, ih]
    by_cases h1 : a ∈ dedupK l₁
    · by_cases h2 : a ∈ dedupK l <;> simp [h1, h2, List.filter_append]
    · by_cases h2 : a ∈ dedupK l <;> simp [h1, h2, List.filter_append]

/-! ### functional representation of groups and the generic `upsert` -/

/-- groups with keys `K` (in order) and accumulators `G k` -/
def rep {β : Type} (K : List β) (G : β → List St) : List (β × List St) := K.map fun k => (k, G k)

def upsert {β : Type} [BEq β] (g : List (β × List St)) (key : β) (upd : List St → List St) (ins : List St) :
    List (β × List St) :=
  if g.any (·.1 == key) then g.map fun e => if e.1 == key then (e.1, upd e.2) else e
  else g ++ [(key, ins)]

theorem rep_nil {β : Type} (G : β → List St) : rep [] G = [] := rfl
theorem rep_keys {β : Type} (K : List β) (G : β → List St) : (rep K G).map (·.1) = K := by
  simp [rep, Function.comp_def]
theorem mem_rep {β : Type} {K : List β} {G : β → List St} {k : β} {sts : List St} (h : (k, sts) ∈ rep K G) :
    k ∈ K ∧ sts = G k := by
  simp only [rep, List.mem_map, Prod.mk.injEq] at h
  obtain ⟨k', hk', rfl, rfl⟩ := h
  exact ⟨hk', rfl⟩

theorem upsert_rep {β : Type} [BEq β] [LawfulBEq β] [DecidableEq β] (K : List β) (G : β → List St) (key : β)
    (upd : List St → List St) (ins : List St) :
    upsert (rep K G) key upd ins
      = rep (if key ∈ K then K else K ++ [key])
          (fun k => if k = key then (if key ∈ K then upd (G key) else ins) else G k) := by
  unfold upsert rep
  by_cases hk : key ∈ K
  · have : (List.map (fun k => (k, G k)) K).any (fun x => x.1 == key) = true := by
      simp [List.any_map, hk]
    simp only [if_pos this, if_pos hk, List.map_map]
    apply List.map_congr_left
    intro k _
    by_cases h : k = key
    · subst h; simp
    · simp [h]
  · have : ¬ (List.map (fun k => (k, G k)) K).any (fun x => x.1 == key) = true := by
      simp [List.any_map, hk]
    simp only [if_neg this, if_neg hk, List.map_append]
    congr 1
    · apply List.map_congr_left
      intro k hk'
      have : k ≠ key := fun e => hk (e ▸ hk')
      simp [this]
    · simp

/-! ### `aggregateSpec` in closed form -/

abbrev RowT := List SV × List SV

/-- one accumulator per aggregated column over the rows `rs` -/
def colSumm (n : Nat) (rs : List RowT) : List St :=
  (List.range n).map fun j => summarize (rs.map fun r => r.2.getD j .null)

theorem colSumm_nil (n : Nat) : colSumm n [] = List.replicate n St.init := by
  unfold colSumm
  apply List.ext_getElem <;> simp [summarize]

theorem list_eq_range_map (vals : List SV) : vals = (List.range vals.length).map fun j => vals.getD j .null := by
  apply List.ext_getElem
  · simp
  · intro i h _; simp [h]

theorem stepCols (n : Nat) (rs : List RowT) (r : RowT) (hr : r.2.length = n) :
    ((colSumm n rs).zip r.2).map (fun (s, v) => s.step v) = colSumm n (rs ++ [r]) := by
  unfold colSumm
  conv => lhs; rw [list_eq_range_map r.2, hr]
  rw [List.zip_map', List.map_map]
  apply List.map_congr_left
  intro j _
  simp [summarize_snoc]

theorem addRow_eq_upsert (n : Nat) (g : Groups) (key vals : List SV) :
    addRow n g key vals
      = upsert g key (fun sts => (sts.zip vals).map fun (s, v) => s.step v)
          (((List.replicate n St.init).zip vals).map fun (s, v) => s.step v) := rfl

theorem aggregateSpec_snoc (n : Nat) (rows : List RowT) (r : RowT) :
    aggregateSpec n (rows ++ [r]) = addRow n (aggregateSpec n rows) r.1 r.2 := by
  simp [aggregateSpec, List.foldl_append]

theorem filter_key_snoc (rows : List RowT) (r : RowT) (k : Key) :
    (rows ++ [r]).filter (·.1 == k) = if r.1 = k then rows.filter (·.1 == k) ++ [r] else rows.filter (·.1 == k) := by
  by_cases h : r.1 = k <;> simp [List.filter_append, h]

theorem filter_key_eq_nil (rows : List RowT) (k : Key) (h : k ∉ rows.map (·.1)) :
    rows.filter (·.1 == k) = [] := by
  rw [List.filter_eq_nil_iff]
  intro r hr hk
  exact h (List.mem_map.2 ⟨r, hr, by simpa using hk⟩)

theorem aggregateSpec_rep (n : Nat) (rows : List RowT) (hlen : ∀ r ∈ rows, r.2.length = n) :
    aggregateSpec n rows
      = rep (dedupK (rows.map (·.1))) (fun k => colSumm n (rows.filter (·.1 == k))) := by
  induction rows using list_rev_ind with
  | nil => rfl
  | snoc rows r ih =>
    have ih := ih (fun x hx => hlen x (List.mem_append_left _ hx))
    have hr : r.2.length = n := hlen r (by simp)
    rw [aggregateSpec_snoc, addRow_eq_upsert, ih, upsert_rep, List.map_append, List.map_singleton,
      dedupK_snoc]
    congr 1
    funext k
    rw [filter_key_snoc]
    by_cases hk : k = r.1
    · subst hk
      rw [if_pos rfl, if_pos rfl, ← stepCols n _ r hr]
      by_cases hm : r.1 ∈ dedupK (rows.map (·.1))
      · rw [if_pos hm]
      · rw [if_neg hm, filter_key_eq_nil rows r.1 (fun h => hm ((mem_dedupK _ _).2 h)), colSumm_nil]
    · rw [if_neg hk, if_neg (fun e => hk e.symm)]

/-! ### `mergeGroups` on the functional representation -/

def zipMerge (a b : List St) : List St := (a.zip b).map fun (s, t) => s.merge t

theorem mergeGroups_snoc (a b : Groups) (e : Key × List St) :
    mergeGroups a (b ++ [e]) = upsert (mergeGroups a b) e.1 (fun s => zipMerge s e.2) e.2 := by
  simp only [mergeGroups, List.foldl_append, List.foldl_cons, List.foldl_nil]
  rfl

theorem rep_snoc {β : Type} (K : List β) (k : β) (G : β → List St) : rep (K ++ [k]) G = rep K G ++ [(k, G k)] := by
  simp [rep]

theorem mergeGroups_rep (K₁ K₂ : List Key) (G₁ G₂ : Key → List St) (hnd : K₂.Nodup) :
    mergeGroups (rep K₁ G₁) (rep K₂ G₂)
      = rep (K₁ ++ K₂.filter (fun k => decide (k ∉ K₁)))
          (fun k => if k ∈ K₂ then (if k ∈ K₁ then zipMerge (G₁ k) (G₂ k) else G₂ k) else G₁ k) := by
  induction K₂ using list_rev_ind with
  | nil => simp [rep_nil, mergeGroups]
  | snoc K k ih =>
    have hK : K.Nodup := (List.nodup_append.1 hnd).1
    have hkK : k ∉ K := fun h => (List.nodup_append.1 hnd).2.2 k h k (by simp) rfl
    rw [rep_snoc, mergeGroups_snoc, ih hK, upsert_rep]
    have hmem : k ∈ K₁ ++ K.filter (fun k => decide (k ∉ K₁)) ↔ k ∈ K₁ := by
      simp [hkK]
    congr 1
    · by_cases h1 : k ∈ K₁
      · rw [if_pos (hmem.2 h1)]; simp [List.filter_append, h1]
      · rw [if_neg (fun h => h1 (hmem.1 h))]; simp [List.filter_append, h1]
    · funext k'
      by_cases hk : k' = k
      · subst hk
        by_cases h1 : k' ∈ K₁ <;> simp [h1, hkK]
      · simp [hk]

/-! ### partition independence -/

/-- every aggregated column is homogeneously typed over all rows (same as `C14.RowsTyped`) -/
def RowsTypedL (ts : List Ty) (rows : List RowT) : Prop :=
  ∀ r ∈ rows, r.2.length = ts.length ∧ ∀ (j : Nat) (t : Ty) (v : SV), ts[j]? = some t → r.2[j]? = some v → v = .null ∨ tyOf v = some t

theorem RowsTypedL.mono {ts : List Ty} {rows rows' : List RowT} (h : RowsTypedL ts rows)
    (hsub : ∀ r ∈ rows', r ∈ rows) : RowsTypedL ts rows' := fun r hr => h r (hsub r hr)

theorem RowsTypedL.col {ts : List Ty} {rows : List RowT} (h : RowsTypedL ts rows) (j : Nat)
    (hj : j < ts.length) : TypedL ts[j] (rows.map fun r => r.2.getD j .null) := by
  intro v hv
  obtain ⟨r, hr, rfl⟩ := List.mem_map.1 hv
  obtain ⟨hl, ht⟩ := h r hr
  have hj' : j < r.2.length := hl ▸ hj
  exact ht j ts[j] _ (List.getElem?_eq_getElem hj) (by simp [hj'])

theorem zipMerge_colSumm (ts : List Ty) (xs ys : List RowT) (h : RowsTypedL ts (xs ++ ys)) :
    zipMerge (colSumm ts.length xs) (colSumm ts.length ys) = colSumm ts.length (xs ++ ys) := by
  unfold zipMerge colSumm
  rw [List.zip_map', List.map_map]
  apply List.map_congr_left
  intro j hj
  have hj : j < ts.length := List.mem_range.1 hj
  have := h.col j hj
  rw [List.map_append] at this
  simp only [Function.comp, List.map_append]
  exact merge_summarize _ _ _ this

theorem merge_aggregateSpec (ts : List Ty) (A B : List RowT) (h : RowsTypedL ts (A ++ B)) :
    mergeGroups (aggregateSpec ts.length A) (aggregateSpec ts.length B) = aggregateSpec ts.length (A ++ B) := by
  have hA : ∀ r ∈ A, r.2.length = ts.length := fun r hr => (h r (List.mem_append_left _ hr)).1
  have hB : ∀ r ∈ B, r.2.length = ts.length := fun r hr => (h r (List.mem_append_right _ hr)).1
  rw [aggregateSpec_rep _ A hA, aggregateSpec_rep _ B hB, aggregateSpec_rep _ (A ++ B) (fun r hr => (h r hr).1),
    mergeGroups_rep _ _ _ _ (nodup_dedupK _), List.map_append, dedupK_append]
  congr 1
  funext k
  rw [List.filter_append]
  by_cases hkB : k ∈ dedupK (B.map (·.1))
  · rw [if_pos hkB]
    by_cases hkA : k ∈ dedupK (A.map (·.1))
    · rw [if_pos hkA]
      apply zipMerge_colSumm
      exact h.mono (fun r hr => by
        rcases List.mem_append.1 hr with hr | hr
        · exact List.mem_append_left _ (List.mem_filter.1 hr).1
        · exact List.mem_append_right _ (List.mem_filter.1 hr).1)
    · rw [if_neg hkA, filter_key_eq_nil A k (fun h => hkA ((mem_dedupK _ _).2 h)), List.nil_append]
  · rw [if_neg hkB, filter_key_eq_nil B k (fun h => hkB ((mem_dedupK _ _).2 h)), List.append_nil]

theorem aggregate_eq_spec (ts : List Ty) (parts : List (List RowT)) (h : RowsTypedL ts parts.flatten) :
    aggregate ts.length parts = aggregateSpec ts.length parts.flatten := by
  induction parts using list_rev_ind with
  | nil => rfl
  | snoc ps p ih =>
    rw [List.flatten_append, List.flatten_singleton] at h ⊢
    have ih := ih (h.mono fun r hr => List.mem_append_left _ hr)
    unfold aggregate at ih ⊢
    rw [List.map_append, List.foldl_append, ih]
    exact merge_aggregateSpec ts _ _ h

/-! ### rollup / cube keys -/

theorem cubeKeys_length (key : List SV) : (cubeKeys key).length = 2 ^ key.length := by
  induction key with
  | nil => rfl
  | cons k ks ih =>
    simp only [cubeKeys, List.length_flatMap, List.length_cons, List.length_nil]
    rw [List.map_const', List.sum_replicate_nat, ih, Nat.pow_succ]

theorem cubeKeys_sound (key : List SV) :
    ∀ sk ∈ cubeKeys key, sk.length = key.length ∧
      ∀ (i : Nat) (v : SV), sk[i]? = some (some v) → key[i]? = some v := by
  induction key with
  | nil => intro sk hsk; simp [cubeKeys] at hsk; subst hsk; simp
  | cons k ks ih =>
    intro sk hsk
    simp only [cubeKeys, List.mem_flatMap, List.mem_cons, List.not_mem_nil, or_false] at hsk
    obtain ⟨r, hr, hsk⟩ := hsk
    obtain ⟨hl, hi⟩ := ih r hr
    rcases hsk with rfl | rfl
    · refine ⟨by simp [hl], fun i v => ?_⟩
      cases i with
      | zero => simp
      | succ i => simpa using hi i v
    · refine ⟨by simp [hl], fun i v => ?_⟩
      cases i with
      | zero => simp
      | succ i => simpa using hi i v

end PysparklingVerif.Agg
