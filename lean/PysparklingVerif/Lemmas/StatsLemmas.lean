/-
  Helper lemmas for C17 (streaming statistics vs two-pass formulas).
  Strategy: express the two-pass SPEC (`mean`, `ssd`, `scp`) through raw power sums
  `s1`, `s2`, `sxy`, which are additive over `++`; every Welford / Chan update then becomes an
  identity between rational expressions, closed by `field_simp; ring`.
-/
import PysparklingVerif.Model.Stats
import Mathlib.Tactic.FieldSimp
import Mathlib.Tactic.Ring
import Mathlib.Tactic.Positivity
import Mathlib.Tactic.Linarith
import Mathlib.Algebra.Order.Field.Rat

namespace PysparklingVerif.Stats

/-! ### `lsum` is additive -/

theorem foldl_add_acc (xs : List Rat) (a : Rat) :
    xs.foldl (· + ·) a = a + xs.foldl (· + ·) 0 := by
  induction xs generalizing a with
  | nil => simp
  | cons x xs ih =>
    simp only [List.foldl_cons]
    rw [ih (a + x), ih (0 + x)]; ring

@[simp] theorem lsum_nil : lsum [] = 0 := rfl

theorem lsum_cons (x : Rat) (xs : List Rat) : lsum (x :: xs) = x + lsum xs := by
  unfold lsum
  simp only [List.foldl_cons]
  rw [foldl_add_acc xs (0 + x)]; ring

theorem lsum_append (xs ys : List Rat) : lsum (xs ++ ys) = lsum xs + lsum ys := by
  induction xs with
  | nil => simp
  | cons x xs ih => simp only [List.cons_append, lsum_cons, ih]; ring

/-! ### raw power sums -/

/-- `Σ x` -/
def s1 (xs : List Rat) : Rat := lsum xs
/-- `Σ x²` -/
def s2 (xs : List Rat) : Rat := lsum (xs.map fun x => x * x)
/-- `Σ x·y` -/
def sxy (ps : List (Rat × Rat)) : Rat := lsum (ps.map fun p => p.1 * p.2)

@[simp] theorem s1_nil : s1 [] = 0 := rfl
@[simp] theorem s2_nil : s2 [] = 0 := rfl
@[simp] theorem sxy_nil : sxy [] = 0 := rfl

theorem s1_cons (x : Rat) (xs : List Rat) : s1 (x :: xs) = x + s1 xs := lsum_cons x xs
theorem s2_cons (x : Rat) (xs : List Rat) : s2 (x :: xs) = x * x + s2 xs := by
  simp only [s2, List.map_cons, lsum_cons]
theorem sxy_cons (p : Rat × Rat) (ps : List (Rat × Rat)) :
    sxy (p :: ps) = p.1 * p.2 + sxy ps := by
  simp only [sxy, List.map_cons, lsum_cons]

theorem s1_append (xs ys : List Rat) : s1 (xs ++ ys) = s1 xs + s1 ys := lsum_append xs ys
theorem s2_append (xs ys : List Rat) : s2 (xs ++ ys) = s2 xs + s2 ys := by
  simp only [s2, List.map_append, lsum_append]
theorem sxy_append (ps qs : List (Rat × Rat)) : sxy (ps ++ qs) = sxy ps + sxy qs := by
  simp only [sxy, List.map_append, lsum_append]

@[simp] theorem s1_singleton (x : Rat) : s1 [x] = x := by simp [s1_cons]
@[simp] theorem s2_singleton (x : Rat) : s2 [x] = x * x := by simp [s2_cons]
@[simp] theorem sxy_singleton (p : Rat × Rat) : sxy [p] = p.1 * p.2 := by simp [sxy_cons]

/-! ### the SPEC through power sums -/

theorem mean_eq (xs : List Rat) : mean xs = s1 xs / xs.length := rfl

theorem lsum_dev_sq (xs : List Rat) (c : Rat) :
    lsum (xs.map fun x => (x - c) * (x - c)) = s2 xs - 2 * c * s1 xs + xs.length * c * c := by
  induction xs with
  | nil => simp
  | cons x xs ih =>
    simp only [List.map_cons, lsum_cons, ih, s1_cons, s2_cons, List.length_cons]
    push_cast; ring

theorem lsum_dev_prod (ps : List (Rat × Rat)) (c d : Rat) :
    lsum (ps.map fun p => (p.1 - c) * (p.2 - d))
      = sxy ps - c * s1 (ps.map (·.2)) - d * s1 (ps.map (·.1)) + ps.length * c * d := by
  induction ps with
  | nil => simp
  | cons p ps ih =>
    simp only [List.map_cons, lsum_cons, ih, s1_cons, sxy_cons, List.length_cons]
    push_cast; ring

/-- `Σ (x - mean)² = Σ x² - (Σ x)² / n`; for `[]` both sides are `0` (`x / 0 = 0`) -/
theorem ssd_eq (xs : List Rat) : ssd xs = s2 xs - s1 xs * s1 xs / xs.length := by
  unfold ssd
  rw [lsum_dev_sq, mean_eq]
  by_cases h : (xs.length : Rat) = 0
  · simp [h]
  · field_simp; ring

/-- `Σ (x - mean x)(y - mean y) = Σ xy - (Σ x)(Σ y) / n` -/
theorem scp_eq (ps : List (Rat × Rat)) :
    scp ps = sxy ps - s1 (ps.map (·.1)) * s1 (ps.map (·.2)) / ps.length := by
  unfold scp
  rw [lsum_dev_prod, mean_eq, mean_eq]
  simp only [List.length_map]
  by_cases h : (ps.length : Rat) = 0
  · simp [h]
  · field_simp; ring

@[simp] theorem mean_nil : mean [] = 0 := by simp [mean_eq]
@[simp] theorem ssd_nil : ssd [] = 0 := by simp [ssd_eq]
@[simp] theorem scp_nil : scp [] = 0 := by simp [scp_eq]

theorem length_cast_pos {α : Type} (xs : List α) (h : xs ≠ []) : (0 : Rat) < (xs.length : Rat) := by
  have : 0 < xs.length := List.length_pos_iff.mpr h
  exact_mod_cast this

/-! ### rational identities behind Welford / Chan -/

/-- Welford mean update -/
theorem welford_mu (n a1 x : Rat) (hn : 0 < n) :
    a1 / n + (x - a1 / n) / (n + 1) = (a1 + x) / (n + 1) := by
  have h1 : n ≠ 0 := ne_of_gt hn
  have h2 : n + 1 ≠ 0 := by positivity
  field_simp; ring

/-- Welford co-moment update (the `m2` update is the case `x = y`) -/
theorem welford_ck (n ax ay axy x y : Rat) (hn : 0 < n) :
    (axy - ax * ay / n) + (x - ax / n) * (y - (ay / n + (y - ay / n) / (n + 1)))
      = (axy + x * y) - (ax + x) * (ay + y) / (n + 1) := by
  have h1 : n ≠ 0 := ne_of_gt hn
  have h2 : n + 1 ≠ 0 := by positivity
  field_simp; ring

/-- Chan mean update, branch `o.n * 10 < s.n` -/
theorem chan_mu1 (n m a1 b1 : Rat) (hn : 0 < n) (hm : 0 < m) :
    a1 / n + (b1 / m - a1 / n) * m / (n + m) = (a1 + b1) / (n + m) := by
  have h1 : n ≠ 0 := ne_of_gt hn
  have h2 : m ≠ 0 := ne_of_gt hm
  have h3 : n + m ≠ 0 := by positivity
  field_simp; ring

/-- Chan mean update, branch `s.n * 10 < o.n` -/
theorem chan_mu2 (n m a1 b1 : Rat) (hn : 0 < n) (hm : 0 < m) :
    b1 / m - (b1 / m - a1 / n) * n / (n + m) = (a1 + b1) / (n + m) := by
  have h1 : n ≠ 0 := ne_of_gt hn
  have h2 : m ≠ 0 := ne_of_gt hm
  have h3 : n + m ≠ 0 := by positivity
  field_simp; ring

/-- Chan mean update, balanced branch; also valid for `n = 0` -/
theorem chan_mu3 (n m a1 b1 : Rat) (hn : n = 0 → a1 = 0) (hm : m ≠ 0) :
    (a1 / n * n + b1 / m * m) / (n + m) = (a1 + b1) / (n + m) := by
  by_cases h1 : n = 0
  · subst h1; simp [hn rfl, hm]
  · field_simp

/-- the mean moved by the weighted difference (the repaired `CovarianceCounter.merge`) -/
theorem chan_mu_delta (n m a1 b1 : Rat) (hn : 0 < n) (hm : 0 < m) :
    a1 / n - (a1 / n - b1 / m) * (m / (n + m)) = (a1 + b1) / (n + m) := by
  have h1 : n ≠ 0 := ne_of_gt hn
  have h2 : m ≠ 0 := ne_of_gt hm
  have h3 : n + m ≠ 0 := ne_of_gt (by linarith)
  field_simp
  ring

/-- Chan co-moment update in the model's `StatCounter` shape -/
theorem chan_m2 (n m a1 a2 b1 b2 : Rat) (hn : 0 < n) (hm : 0 < m) :
    (a2 - a1 * a1 / n) + ((b2 - b1 * b1 / m)
        + (b1 / m - a1 / n) * (b1 / m - a1 / n) * n * m / (n + m))
      = (a2 + b2) - (a1 + b1) * (a1 + b1) / (n + m) := by
  have h1 : n ≠ 0 := ne_of_gt hn
  have h2 : m ≠ 0 := ne_of_gt hm
  have h3 : n + m ≠ 0 := by positivity
  field_simp; ring

/-- Chan co-moment update in the model's `CovarianceCounter` shape -/
theorem chan_ck (n m ax ay axy bx by' bxy : Rat) (hn : 0 < n) (hm : 0 < m) :
    (axy - ax * ay / n) + ((bxy - bx * by' / m)
        + (ax / n - bx / m) * (ay / n - by' / m) * n / (n + m) * m)
      = (axy + bxy) - (ax + bx) * (ay + by') / (n + m) := by
  have h1 : n ≠ 0 := ne_of_gt hn
  have h2 : m ≠ 0 := ne_of_gt hm
  have h3 : n + m ≠ 0 := by positivity
  field_simp; ring

/-! ### max / min -/

/-- binary max / min exactly as the model's fold step writes them -/
def mx (m z : Rat) : Rat := if m < z then z else m
def mn (m z : Rat) : Rat := if z < m then z else m

theorem mx_assoc (k y z : Rat) : mx (mx k y) z = mx k (mx y z) := by
  unfold mx; split_ifs <;> first | rfl | (exfalso; linarith)

theorem mn_assoc (k y z : Rat) : mn (mn k y) z = mn k (mn y z) := by
  unfold mn; split_ifs <;> first | rfl | (exfalso; linarith)

theorem foldl_mx (ys : List Rat) (k y : Rat) : ys.foldl mx (mx k y) = mx k (ys.foldl mx y) := by
  induction ys generalizing y with
  | nil => rfl
  | cons z zs ih => simp only [List.foldl_cons]; rw [mx_assoc, ih]

theorem foldl_mn (ys : List Rat) (k y : Rat) : ys.foldl mn (mn k y) = mn k (ys.foldl mn y) := by
  induction ys generalizing y with
  | nil => rfl
  | cons z zs ih => simp only [List.foldl_cons]; rw [mn_assoc, ih]

theorem foldl_max_comm (ys : List Rat) (k y : Rat) :
    ys.foldl (fun m z => if m < z then z else m) (if k < y then y else k)
      = (if k < ys.foldl (fun m z => if m < z then z else m) y
          then ys.foldl (fun m z => if m < z then z else m) y else k) :=
  foldl_mx ys k y

theorem foldl_min_comm (ys : List Rat) (k y : Rat) :
    ys.foldl (fun m z => if z < m then z else m) (if y < k then y else k)
      = (if ys.foldl (fun m z => if z < m then z else m) y < k
          then ys.foldl (fun m z => if z < m then z else m) y else k) :=
  foldl_mn ys k y

theorem lmax_append (xs ys : List Rat) : lmax (xs ++ ys) = optMax2 (lmax xs) (lmax ys) := by
  cases ys with
  | nil => simp [optMax2, lmax]
  | cons y ys =>
    cases xs with
    | nil => simp [optMax2, optMax, lmax]
    | cons x xs =>
      simp only [lmax, optMax2, optMax, List.cons_append, List.foldl_append, List.foldl_cons]
      rw [foldl_max_comm]

theorem lmin_append (xs ys : List Rat) : lmin (xs ++ ys) = optMin2 (lmin xs) (lmin ys) := by
  cases ys with
  | nil => simp [optMin2, lmin]
  | cons y ys =>
    cases xs with
    | nil => simp [optMin2, optMin, lmin]
    | cons x xs =>
      simp only [lmin, optMin2, optMin, List.cons_append, List.foldl_append, List.foldl_cons]
      rw [foldl_min_comm]

theorem lmax_snoc (xs : List Rat) (x : Rat) : lmax (xs ++ [x]) = optMax (lmax xs) x := by
  rw [lmax_append]; rfl

theorem lmin_snoc (xs : List Rat) (x : Rat) : lmin (xs ++ [x]) = optMin (lmin xs) x := by
  rw [lmin_append]; rfl

end PysparklingVerif.Stats
