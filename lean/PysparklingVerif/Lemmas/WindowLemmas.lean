/-
  Helper lemmas for C11 (windowed and stateful streams, Model/Stream.lean).
-/
import PysparklingVerif.Model.Stream
namespace PysparklingVerif.Stream

variable {α κ ν σ : Type}

/-! ### windows -/

/-- pushing onto "the last `w` of `pre`" gives "the last `w` of `pre ++ [b]`" -/
theorem pushWindow_drop (w : Nat) (hw : 1 ≤ w) (pre : List (Batch α)) (b : Batch α) :
    pushWindow w (pre.drop (pre.length - w)) b = (pre ++ [b]).drop ((pre ++ [b]).length - w) := by
  unfold pushWindow
  simp only [List.length_append, List.length_drop, List.length_cons, List.length_nil]
  rw [← List.drop_append_of_le_length (by omega), List.drop_drop]
  congr 1
  omega

/-- the window run started after the batches `pre` have been processed -/
theorem windowRun_getElem? (w s : Nat) (hw : 1 ≤ w) (rest : List (Batch α)) :
    ∀ (pre : List (Batch α)) (j : Nat), j < rest.length →
      (windowRun w s rest (pre.drop (pre.length - w), pre.length % s))[j]? =
        some (if (pre.length + j + 1) % s = 0
          then (((pre ++ rest).take (pre.length + j + 1)).drop (pre.length + j + 1 - w)).flatten
          else []) := by
  induction rest with
  | nil => intro pre j hj; simp at hj
  | cons b rest ih =>
    intro pre j hj
    have hstate : (pushWindow w (pre.drop (pre.length - w)) b, (pre.length % s + 1) % s) =
        ((pre ++ [b]).drop ((pre ++ [b]).length - w), (pre ++ [b]).length % s) := by
      rw [pushWindow_drop w hw, Nat.mod_add_mod]
      simp
    cases j with
    | zero =>
      simp only [windowRun, List.getElem?_cons_zero, Nat.add_zero]
      rw [Nat.mod_add_mod, pushWindow_drop w hw]
      have htake : (pre ++ b :: rest).take (pre.length + 1) = pre ++ [b] := by
        have : pre ++ b :: rest = (pre ++ [b]) ++ rest := by simp
        rw [this]
        exact List.take_left' (by simp)
      rw [htake]
      simp
    | succ j =>
      simp only [windowRun, List.getElem?_cons_succ]
      rw [hstate, ih (pre ++ [b]) j (by simpa using hj)]
      have h1 : (pre ++ [b]) ++ rest = pre ++ b :: rest := by simp
      have h2 : (pre ++ [b]).length + j + 1 = pre.length + (j + 1) + 1 := by simp; omega
      rw [h1, h2]

theorem windowRun_length (w s : Nat) (bs : List (Batch α)) :
    ∀ st, (windowRun w s bs st).length = bs.length := by
  induction bs with
  | nil => intro st; rfl
  | cons b rest ih => intro st; obtain ⟨buf, c⟩ := st; simp [windowRun, ih]

/-! ### the stateful fold -/

theorem foldRun_getElem? (g : Batch α → Batch α → Batch α) (bs : List (Batch α)) :
    ∀ (m0 : Batch α) (t : Nat), t < bs.length →
      (foldRun g bs m0)[t]? = some ((bs.take (t + 1)).foldl (fun m b => g b m) m0) := by
  induction bs with
  | nil => intro m0 t ht; simp at ht
  | cons b rest ih =>
    intro m0 t ht
    cases t with
    | zero => simp [foldRun]
    | succ t =>
      simp only [foldRun, List.getElem?_cons_succ]
      rw [ih (g b m0) t (by simpa using ht)]
      simp

/-! ### updateStateByKey -/

/-- the values of key `k` in a batch, in order -/
def valsOf [DecidableEq κ] (b : List (κ × ν)) (k : κ) : List ν :=
  b.filterMap fun kv => if kv.1 = k then some kv.2 else none

/-- the update function folded over the key's value lists -/
def specOf [DecidableEq κ] (upd : List ν → Option σ → σ) (bs : List (List (κ × ν))) (k : κ) : Option σ :=
  bs.foldl (fun st b => if valsOf b k = [] ∧ st = none then none else some (upd (valsOf b k) st)) none

/-- first-occurrence de-duplication with an accumulator -/
def dedupKeys [DecidableEq κ] (l : List κ) (acc : List κ) : List κ :=
  l.foldl (fun acc k => if k ∈ acc then acc else acc ++ [k]) acc

theorem dedupKeys_spec [DecidableEq κ] (l : List κ) :
    ∀ acc : List κ, acc.Nodup →
      (dedupKeys l acc).Nodup ∧ ∀ k, k ∈ dedupKeys l acc ↔ k ∈ acc ∨ k ∈ l := by
  induction l with
  | nil => intro acc h; simp [dedupKeys, h]
  | cons x l ih =>
    intro acc h
    have step : dedupKeys (x :: l) acc = dedupKeys l (if x ∈ acc then acc else acc ++ [x]) := rfl
    rw [step]
    by_cases hx : x ∈ acc
    · rw [if_pos hx]
      obtain ⟨h1, h2⟩ := ih acc h
      refine ⟨h1, fun k => ?_⟩
      rw [h2 k]
      constructor
      · rintro (h | h)
        · exact Or.inl h
        · exact Or.inr (List.mem_cons_of_mem _ h)
      · rintro (h | h)
        · exact Or.inl h
        · rcases List.mem_cons.mp h with rfl | h
          · exact Or.inl hx
          · exact Or.inr h
    · rw [if_neg hx]
      have hnd : (acc ++ [x]).Nodup := by
        rw [List.nodup_append]
        refine ⟨h, by simp, ?_⟩
        intro a ha b hb
        simp at hb
        subst hb
        intro hab
        subst hab
        exact hx ha
      obtain ⟨h1, h2⟩ := ih (acc ++ [x]) hnd
      refine ⟨h1, fun k => ?_⟩
      rw [h2 k]
      simp only [List.mem_append, List.mem_cons, List.not_mem_nil, or_false]
      constructor
      · rintro ((h | h) | h)
        · exact Or.inl h
        · exact Or.inr (Or.inl h)
        · exact Or.inr (Or.inr h)
      · rintro (h | h | h)
        · exact Or.inl (Or.inl h)
        · exact Or.inl (Or.inr h)
        · exact Or.inr h

theorem lookup_map_key [DecidableEq κ] (F : κ → σ) (keys : List κ) (k : κ) (hk : k ∈ keys) :
    List.lookup k (keys.map fun k => (k, F k)) = some (F k) := by
  induction keys with
  | nil => simp at hk
  | cons x keys ih =>
    simp only [List.map_cons, List.lookup_cons]
    by_cases hx : k = x
    · subst hx; simp
    · have : (k == x) = false := by simpa using hx
      rw [this]
      rcases List.mem_cons.mp hk with h | h
      · exact absurd h hx
      · exact ih h

theorem lookup_isSome_of_mem [DecidableEq κ] (st : List (κ × σ)) (k : κ) (hk : k ∈ st.map (·.1)) :
    List.lookup k st ≠ none := by
  induction st with
  | nil => simp at hk
  | cons x st ih =>
    obtain ⟨k', v⟩ := x
    simp only [List.lookup_cons]
    by_cases hx : k = k'
    · subst hx; simp
    · have : (k == k') = false := by simpa using hx
      rw [this]
      simp only [List.map_cons, List.mem_cons] at hk
      rcases hk with h | h
      · exact absurd h hx
      · exact ih h

theorem lookup_eq_none_of_not_mem [DecidableEq κ] (st : List (κ × σ)) (k : κ)
    (hk : k ∉ st.map (·.1)) : List.lookup k st = none := by
  induction st with
  | nil => rfl
  | cons x st ih =>
    obtain ⟨k', v⟩ := x
    simp only [List.map_cons, List.mem_cons, not_or] at hk
    have hb : (k == k') = false := by simpa using hk.1
    simp only [List.lookup_cons, hb]
    exact ih hk.2

theorem valsOf_eq_nil [DecidableEq κ] (b : List (κ × ν)) (k : κ) (hk : k ∉ b.map (·.1)) :
    valsOf b k = [] := by
  unfold valsOf
  rw [List.filterMap_eq_nil_iff]
  intro a ha
  have : a.1 ≠ k := by
    intro h
    exact hk (List.mem_map.mpr ⟨a, ha, h⟩)
  simp [this]

theorem valsOf_ne_nil [DecidableEq κ] (b : List (κ × ν)) (k : κ) (hk : k ∈ b.map (·.1)) :
    valsOf b k ≠ [] := by
  unfold valsOf
  rw [Ne, List.filterMap_eq_nil_iff]
  intro h
  obtain ⟨a, ha, hak⟩ := List.mem_map.mp hk
  have := h a ha
  simp [hak] at this

theorem stateStep_keys [DecidableEq κ] (upd : List ν → Option σ → σ) (b : List (κ × ν))
    (st : List (κ × σ)) :
    (stateStep upd b st).map (·.1) = dedupKeys (b.map (·.1) ++ st.map (·.1)) [] := by
  simp [stateStep, dedupKeys, List.map_map, Function.comp_def]

theorem stateStep_lookup [DecidableEq κ] (upd : List ν → Option σ → σ) (b : List (κ × ν))
    (st : List (κ × σ)) (k : κ) (hk : k ∈ (stateStep upd b st).map (·.1)) :
    List.lookup k (stateStep upd b st) = some (upd (valsOf b k) (List.lookup k st)) := by
  rw [stateStep_keys] at hk
  exact lookup_map_key (fun k => upd (valsOf b k) (List.lookup k st)) _ k hk

theorem specOf_snoc [DecidableEq κ] (upd : List ν → Option σ → σ) (bs : List (List (κ × ν)))
    (b : List (κ × ν)) (k : κ) :
    specOf upd (bs ++ [b]) k =
      if valsOf b k = [] ∧ specOf upd bs k = none then none
      else some (upd (valsOf b k) (specOf upd bs k)) := by
  show List.foldl _ none (bs ++ [b]) = _
  rw [List.foldl_append]
  rfl

/-- the invariant linking the state list to the history -/
def StateInv [DecidableEq κ] (upd : List ν → Option σ → σ) (bs : List (List (κ × ν)))
    (st : List (κ × σ)) : Prop :=
  (st.map (·.1)).Nodup ∧
  (∀ k, k ∈ st.map (·.1) ↔ ∃ b ∈ bs, k ∈ b.map (·.1)) ∧
  (∀ k, k ∈ st.map (·.1) → List.lookup k st = specOf upd bs k) ∧
  (∀ k, k ∉ st.map (·.1) → specOf upd bs k = none)

theorem stateInv_nil [DecidableEq κ] (upd : List ν → Option σ → σ) :
    StateInv upd ([] : List (List (κ × ν))) ([] : List (κ × σ)) := by
  refine ⟨by simp, by simp, by simp, ?_⟩
  intro k _
  rfl

theorem stateInv_step [DecidableEq κ] (upd : List ν → Option σ → σ) (bs : List (List (κ × ν)))
    (st : List (κ × σ)) (b : List (κ × ν)) (h : StateInv upd bs st) :
    StateInv upd (bs ++ [b]) (stateStep upd b st) := by
  obtain ⟨_, hmem, hlook, hnone⟩ := h
  obtain ⟨knd, kmem⟩ := dedupKeys_spec (b.map (·.1) ++ st.map (·.1)) [] List.nodup_nil
  have hkeys := stateStep_keys upd b st
  have hmem' : ∀ k, k ∈ (stateStep upd b st).map (·.1) ↔ k ∈ b.map (·.1) ∨ k ∈ st.map (·.1) := by
    intro k
    rw [hkeys, kmem k]
    simp
  refine ⟨by rw [hkeys]; exact knd, ?_, ?_, ?_⟩
  · intro k
    rw [hmem' k, hmem k]
    constructor
    · rintro (h | ⟨b', hb', h⟩)
      · exact ⟨b, by simp, h⟩
      · exact ⟨b', by simp [hb'], h⟩
    · rintro ⟨b', hb', h⟩
      rcases List.mem_append.mp hb' with hb' | hb'
      · exact Or.inr ⟨b', hb', h⟩
      · simp at hb'
        subst hb'
        exact Or.inl h
  · intro k hk
    rw [stateStep_lookup upd b st k hk, specOf_snoc]
    have hcond : ¬ (valsOf b k = [] ∧ specOf upd bs k = none) := by
      rintro ⟨hv, hs⟩
      rcases (hmem' k).mp hk with h | h
      · exact valsOf_ne_nil b k h hv
      · rw [← hlook k h] at hs
        exact lookup_isSome_of_mem st k h hs
    rw [if_neg hcond]
    by_cases hst : k ∈ st.map (·.1)
    · rw [hlook k hst]
    · rw [hnone k hst]
      have : List.lookup k st = none := lookup_eq_none_of_not_mem st k hst
      rw [this]
  · intro k hk
    rw [hmem' k] at hk
    have h1 : k ∉ b.map (·.1) := fun h => hk (Or.inl h)
    have h2 : k ∉ st.map (·.1) := fun h => hk (Or.inr h)
    rw [specOf_snoc, valsOf_eq_nil b k h1, hnone k h2]
    simp

theorem stateInv_foldl [DecidableEq κ] (upd : List ν → Option σ → σ) (bs : List (List (κ × ν))) :
    ∀ (pre : List (List (κ × ν))) (st : List (κ × σ)), StateInv upd pre st →
      StateInv upd (pre ++ bs) (bs.foldl (fun st b => stateStep upd b st) st) := by
  induction bs with
  | nil => intro pre st h; simpa using h
  | cons b bs ih =>
    intro pre st h
    have := ih (pre ++ [b]) (stateStep upd b st) (stateInv_step upd pre st b h)
    simpa using this

end PysparklingVerif.Stream
