/-
  Helper lemmas for C15 (a DataFrame's schema, column list and rows always agree).
  Strategy: one width lemma per operation (`*_consistent`), each relating the separately computed
  schema (`opNames`) to the separately computed rows (`opRows`); generic facts about `mapM` /
  `filterMapM` in `Except`, about `updGroup` folds (aggregation, subtotals, pivot) and `chunks`.
-/
import PysparklingVerif.Model.Frame
import PysparklingVerif.Lemmas.SqlLemmas
import PysparklingVerif.Lemmas.JoinLemmas
import PysparklingVerif.Lemmas.AggLemmas
import PysparklingVerif.Properties.C13
namespace PysparklingVerif.Frame
open PysparklingVerif.Sql PysparklingVerif.Join PysparklingVerif.Agg PysparklingVerif.Rdd

/-! ### `Except` plumbing -/

section generic
variable {ε α β : Type}

theorem bind_ok {x : Except ε α} {f : α → Except ε β} {b : β} (h : (x >>= f) = .ok b) :
    ∃ a, x = .ok a ∧ f a = .ok b := by
  cases x with
  | error e => cases h
  | ok a => exact ⟨a, rfl, h⟩

theorem map_ok {x : Except ε α} {f : α → β} {b : β} (h : (f <$> x) = .ok b) :
    ∃ a, x = .ok a ∧ f a = b := by
  cases x with
  | error e => cases h
  | ok a => exact ⟨a, rfl, by cases h; rfl⟩

theorem pure_ok {a b : α} (h : (pure a : Except ε α) = .ok b) : a = b := by
  cases h; rfl

/-- a successful `mapM` relates input and output elementwise -/
theorem mapM_ok_forall₂ (f : α → Except ε β) : ∀ (l : List α) (out : List β), l.mapM f = .ok out →
    List.Forall₂ (fun x y => f x = .ok y) l out := by
  intro l
  induction l with
  | nil =>
    intro out h
    rw [List.mapM_nil] at h
    cases pure_ok h
    exact .nil
  | cons x xs ih =>
    intro out h
    rw [List.mapM_cons] at h
    obtain ⟨y, hy, h⟩ := bind_ok h
    obtain ⟨ys, hys, h⟩ := bind_ok h
    cases pure_ok h
    exact .cons hy (ih ys hys)

theorem mapM_ok_length {f : α → Except ε β} {l : List α} {out : List β} (h : l.mapM f = .ok out) :
    out.length = l.length :=
  (mapM_ok_forall₂ f l out h).length_eq.symm

theorem forall₂_mem_right {R : α → β → Prop} {l : List α} {out : List β} (h : List.Forall₂ R l out) :
    ∀ y ∈ out, ∃ x ∈ l, R x y := by
  induction h with
  | nil => intro y hy; cases hy
  | cons hxy _ ih =>
    intro y hy
    rcases List.mem_cons.mp hy with rfl | hy
    · exact ⟨_, List.mem_cons_self, hxy⟩
    · obtain ⟨x, hx, hr⟩ := ih y hy
      exact ⟨x, List.mem_cons_of_mem _ hx, hr⟩

theorem mapM_ok_mem {f : α → Except ε β} {l : List α} {out : List β} (h : l.mapM f = .ok out) :
    ∀ y ∈ out, ∃ x ∈ l, f x = .ok y :=
  forall₂_mem_right (mapM_ok_forall₂ f l out h)

/-- a successful `filterMapM` returns images of input elements, at most one per input element -/
theorem filterMapM_ok (f : α → Except ε (Option β)) : ∀ (l : List α) (out : List β),
    l.filterMapM f = .ok out → (∀ y ∈ out, ∃ x ∈ l, f x = .ok (some y)) ∧ out.length ≤ l.length := by
  intro l
  induction l with
  | nil =>
    intro out h
    rw [List.filterMapM_nil] at h
    cases pure_ok h
    exact ⟨fun y hy => (by cases hy), Nat.le_refl _⟩
  | cons x xs ih =>
    intro out h
    rw [List.filterMapM_cons] at h
    obtain ⟨o, ho, h⟩ := bind_ok h
    cases o with
    | none =>
      obtain ⟨h1, h2⟩ := ih out h
      refine ⟨fun y hy => ?_, by simp only [List.length_cons]; omega⟩
      obtain ⟨x', hx', hf⟩ := h1 y hy
      exact ⟨x', List.mem_cons_of_mem _ hx', hf⟩
    | some b =>
      obtain ⟨ys, hys, h⟩ := bind_ok h
      cases pure_ok h
      obtain ⟨h1, h2⟩ := ih ys hys
      refine ⟨fun y hy => ?_, by simp only [List.length_cons]; omega⟩
      rcases List.mem_cons.mp hy with rfl | hy
      · exact ⟨x, List.mem_cons_self, ho⟩
      · obtain ⟨x', hx', hf⟩ := h1 y hy
        exact ⟨x', List.mem_cons_of_mem _ hx', hf⟩

end generic

/-- what the main theorem says about one operation -/
def Agree (d : DF) (op : Op) : Prop :=
  ∀ ns rs, opNames d op = .ok ns → opRows d op = .ok rs → ∀ r ∈ rs, r.length = ns.length

/-! ### select -/

theorem item_width (names : List String) (r : Row) (hr : r.length = names.length) (it : SelItem)
    (ns : List String) (vs : List SV) (hn : itemNames names it = .ok ns) (hv : itemVals names r it = .ok vs) :
    vs.length = ns.length := by
  cases it with
  | star =>
    simp only [itemNames, itemVals] at hn hv
    cases hn; cases hv; exact hr
  | col c =>
    simp only [itemNames, itemVals] at hn hv
    obtain ⟨i, _, hn⟩ := bind_ok hn
    obtain ⟨j, _, hv⟩ := bind_ok hv
    cases pure_ok hn; cases pure_ok hv; rfl
  | expr a e =>
    have hv1 : vs.length = 1 := by
      simp only [itemVals] at hv
      split at hv
      · cases hv; rfl
      · cases hv
    cases a with
    | none => simp only [itemNames] at hn; cases hn; simpa using hv1
    | some a => simp only [itemNames] at hn; cases hn; simpa using hv1

theorem items_width (names : List String) (r : Row) (hr : r.length = names.length) :
    ∀ (items : List SelItem) (nss : List (List String)) (vss : List (List SV)),
      items.mapM (itemNames names) = .ok nss → items.mapM (itemVals names r) = .ok vss →
      vss.flatten.length = nss.flatten.length := by
  intro items
  induction items with
  | nil =>
    intro nss vss hn hv
    rw [List.mapM_nil] at hn hv
    cases pure_ok hn; cases pure_ok hv; rfl
  | cons it items ih =>
    intro nss vss hn hv
    rw [List.mapM_cons] at hn hv
    obtain ⟨ns, hns, hn⟩ := bind_ok hn
    obtain ⟨nss', hnss, hn⟩ := bind_ok hn
    obtain ⟨vs, hvs, hv⟩ := bind_ok hv
    obtain ⟨vss', hvss, hv⟩ := bind_ok hv
    cases pure_ok hn; cases pure_ok hv
    simp only [List.flatten_cons, List.length_append]
    rw [item_width names r hr it ns vs hns hvs, ih nss' vss' hnss hvss]

theorem select_consistent (d : DF) (items : List SelItem) (h : d.Consistent) : Agree d (.select items) := by
  intro ns rs hn hr r hmem
  simp only [opNames] at hn
  obtain ⟨nss, hnss, hn⟩ := bind_ok hn
  cases pure_ok hn
  simp only [opRows] at hr
  obtain ⟨r0, hr0, hf⟩ := mapM_ok_mem hr r hmem
  obtain ⟨vss, hvss, hf⟩ := bind_ok hf
  cases pure_ok hf
  exact items_width d.names r0 (h r0 hr0) items nss vss hnss hvss

/-! ### withColumn / drop / rename -/

theorem withColumn_consistent (d : DF) (name : String) (e : Expr) (h : d.Consistent) :
    Agree d (.withColumn name e) := by
  intro ns rs hn hr r hmem
  simp only [opNames] at hn
  cases hn
  simp only [opRows] at hr
  split at hr
  · rename_i p hp
    cases hr
    simp only [withColumnM] at hp
    obtain ⟨vals, _, hp⟩ := bind_ok hp
    split at hp
    · rename_i hc
      cases pure_ok hp
      rw [if_pos hc]
      obtain ⟨⟨r0, v⟩, hz, rfl⟩ := List.mem_map.mp hmem
      have := h r0 (List.of_mem_zip hz).1
      simp [this]
    · rename_i hc
      cases pure_ok hp
      rw [if_neg hc]
      obtain ⟨⟨r0, v⟩, hz, rfl⟩ := List.mem_map.mp hmem
      have := h r0 (List.of_mem_zip hz).1
      simp [this]
  · cases hr

theorem drop_consistent (d : DF) (cols : List String) : Agree d (.drop cols) := by
  intro ns rs hn hr r hmem
  simp only [opNames] at hn
  simp only [opRows] at hr
  cases hn; cases hr
  simp only [dropCols, List.mem_map] at hmem ⊢
  obtain ⟨r0, _, rfl⟩ := hmem
  simp

theorem rename_consistent (d : DF) (old new : String) (h : d.Consistent) : Agree d (.rename old new) := by
  intro ns rs hn hr r hmem
  simp only [opNames] at hn
  simp only [opRows] at hr
  cases hn; cases hr
  simpa using h r hmem

/-! ### join / crossJoin / union -/

theorem join_consistent (d : DF) (how : How) (on : List String) (other : DF) (h : d.Consistent)
    (ho : other.Consistent) : Agree d (.join how on other) := by
  intro ns rs hn hr r hmem
  simp only [opNames] at hn
  cases hn
  simp only [opRows] at hr
  obtain ⟨u, _, hr⟩ := bind_ok hr
  cases pure_ok hr
  refine C13.dfjoin_row_length_model how d.names other.names on [d.rows] [other.rows] ?_ ?_ r hmem
  · intro row hrow
    exact h row (by simpa [flat] using hrow)
  · intro row hrow
    exact ho row (by simpa [flat] using hrow)

theorem crossJoin_consistent (d : DF) (other : DF) (h : d.Consistent) (ho : other.Consistent) :
    Agree d (.crossJoin other) := by
  intro ns rs hn hr r hmem
  simp only [opNames] at hn
  simp only [opRows] at hr
  cases hn; cases hr
  rw [C13.crossJoin_eq] at hmem
  obtain ⟨a, ha, hm⟩ := List.mem_flatMap.mp hmem
  obtain ⟨b, hb, rfl⟩ := List.mem_map.mp hm
  have h1 := h a (by simpa [flat] using ha)
  have h2 := ho b (by simpa [flat] using hb)
  simp [h1, h2]

/-! ### join on a condition -/

theorem nullRow_length (n : Nat) : (nullRow n).length = n := List.length_replicate

/-- a successful `joinOnRows` has computed the match matrix, and its result is the explicit expression in it -/
theorem joinOnRows_ok {how : How} {e : Expr} {ln rn : Nat} {ls rs out : List Row}
    (h : joinOnRows how e ln rn ls rs = .ok out) :
    ∃ m : List (List Bool), (ls.mapM fun l => rs.mapM fun r => condHolds e l r) = .ok m ∧
      out = (match (generalizing := false) how with
        | .right | .full =>
          ((ls.zip m).flatMap fun (l, ms) =>
            joinOnLeft how rn l ((rs.zip ms).filterMap fun (r, b) => if b then some r else none)) ++
          (rs.zipIdx.filterMap fun (r, j) =>
            if m.any (fun ms => ms.getD j false) then none else some (nullRow ln ++ r))
        | _ =>
          (ls.zip m).flatMap fun (l, ms) =>
            joinOnLeft how rn l ((rs.zip ms).filterMap fun (r, b) => if b then some r else none)) := by
  unfold joinOnRows at h
  obtain ⟨m, hm, h⟩ := bind_ok h
  exact ⟨m, hm, (pure_ok h).symm⟩

/-- the right rows selected by a row of the match matrix are right rows -/
theorem partners_mem (rs : List Row) (ms : List Bool) :
    ∀ p ∈ (rs.zip ms).filterMap (fun (x : Row × Bool) => if x.2 then some x.1 else none), p ∈ rs := by
  intro p hp
  obtain ⟨⟨r, b⟩, hz, hf⟩ := List.mem_filterMap.mp hp
  dsimp only at hf
  split at hf
  · cases hf; exact (List.of_mem_zip hz).1
  · cases hf

/-- width of what one left row contributes -/
theorem joinOnLeft_width (how : How) (lnames rnames : List String) (l : Row) (partners : List Row)
    (hl : l.length = lnames.length) (hp : ∀ p ∈ partners, p.length = rnames.length) :
    ∀ x ∈ joinOnLeft how rnames.length l partners, x.length = (joinOnNames how lnames rnames).length := by
  intro x hx
  have hmap : ∀ x ∈ partners.map (l ++ ·), x.length = lnames.length + rnames.length := by
    intro x hx
    obtain ⟨p, hp', rfl⟩ := List.mem_map.mp hx
    rw [List.length_append, hl, hp p hp']
  have hpad : (l ++ nullRow rnames.length).length = lnames.length + rnames.length := by
    rw [List.length_append, hl, nullRow_length]
  cases how with
  | inner => simpa [joinOnNames] using hmap x (by simpa [joinOnLeft] using hx)
  | right => simpa [joinOnNames] using hmap x (by simpa [joinOnLeft] using hx)
  | left =>
    simp only [joinOnLeft] at hx
    simp only [joinOnNames, List.length_append]
    split at hx
    · rw [List.mem_singleton] at hx; subst hx; exact hpad
    · exact hmap x hx
  | full =>
    simp only [joinOnLeft] at hx
    simp only [joinOnNames, List.length_append]
    split at hx
    · rw [List.mem_singleton] at hx; subst hx; exact hpad
    · exact hmap x hx
  | semi =>
    simp only [joinOnLeft] at hx
    simp only [joinOnNames]
    split at hx
    · cases hx
    · rw [List.mem_singleton] at hx; subst hx; exact hl
  | anti =>
    simp only [joinOnLeft] at hx
    simp only [joinOnNames]
    split at hx
    · rw [List.mem_singleton] at hx; subst hx; exact hl
    · cases hx

/-- the width theorem of the join on a condition (C15.joinOn_rows_width) -/
theorem joinOnRows_width (how : How) (e : Expr) (lnames rnames : List String) (ls rs out : List Row)
    (hl : ∀ r ∈ ls, r.length = lnames.length) (hr : ∀ r ∈ rs, r.length = rnames.length)
    (h : joinOnRows how e lnames.length rnames.length ls rs = .ok out) :
    ∀ r ∈ out, r.length = (joinOnNames how lnames rnames).length := by
  obtain ⟨m, _, rfl⟩ := joinOnRows_ok h
  have hper : ∀ x ∈ ((ls.zip m).flatMap fun (l, ms) =>
      joinOnLeft how rnames.length l ((rs.zip ms).filterMap fun (r, b) => if b then some r else none)),
      x.length = (joinOnNames how lnames rnames).length := by
    intro x hx
    obtain ⟨⟨l, ms⟩, hz, hx⟩ := List.mem_flatMap.mp hx
    exact joinOnLeft_width how lnames rnames l _ (hl l (List.of_mem_zip hz).1)
      (fun p hp => hr p (partners_mem rs ms p hp)) x hx
  have hun : ∀ x ∈ (rs.zipIdx.filterMap fun (r, j) =>
      if m.any (fun ms => ms.getD j false) then none else some (nullRow lnames.length ++ r)),
      x.length = lnames.length + rnames.length := by
    intro x hx
    obtain ⟨⟨r, j⟩, hz, hf⟩ := List.mem_filterMap.mp hx
    dsimp only at hf
    split at hf
    · cases hf
    · cases hf
      have hmem : r ∈ rs := by
        have := List.mem_map_of_mem (f := Prod.fst) hz
        rwa [List.zipIdx_map_fst] at this
      rw [List.length_append, nullRow_length, hr r hmem]
  intro r hmem
  cases how with
  | right =>
    rcases List.mem_append.mp hmem with hm | hm
    · exact hper r hm
    · simpa [joinOnNames] using hun r hm
  | full =>
    rcases List.mem_append.mp hmem with hm | hm
    · exact hper r hm
    · simpa [joinOnNames] using hun r hm
  | inner => exact hper r hmem
  | left => exact hper r hmem
  | semi => exact hper r hmem
  | anti => exact hper r hmem

theorem joinOn_consistent (d : DF) (how : How) (cond : Expr) (other : DF) (h : d.Consistent)
    (ho : other.Consistent) : Agree d (.joinOn how cond other) := by
  intro ns rs hn hr r hmem
  simp only [opNames] at hn
  cases hn
  simp only [opRows] at hr
  exact joinOnRows_width how cond d.names other.names d.rows other.rows rs h ho hr r hmem

/-- splitting the first components of a list by a test on the second ones: two sublists whose lengths add up -/
theorem split_by_test {α β : Type} (p : β → Bool) : ∀ (zs : List (α × β)),
    (zs.flatMap fun (x : α × β) => if p x.2 then [] else [x.1]).Sublist (zs.map (·.1)) ∧
    (zs.flatMap fun (x : α × β) => if p x.2 then [x.1] else []).Sublist (zs.map (·.1)) ∧
    (zs.flatMap fun (x : α × β) => if p x.2 then [] else [x.1]).length +
      (zs.flatMap fun (x : α × β) => if p x.2 then [x.1] else []).length = zs.length := by
  intro zs
  induction zs with
  | nil => simp
  | cons z zs ih =>
    obtain ⟨h1, h2, h3⟩ := ih
    simp only [List.flatMap_cons, List.map_cons, List.length_append, List.length_cons]
    cases hp : p z.2
    · refine ⟨by simpa using h1.cons_cons z.1, by simpa using h2.cons z.1, ?_⟩
      simp only [Bool.false_eq_true, if_false, List.length_cons, List.length_nil]
      omega
    · refine ⟨by simpa using h1.cons z.1, by simpa using h2.cons_cons z.1, ?_⟩
      simp only [if_true, List.length_cons, List.length_nil]
      omega

/-- semi and anti joins on a condition split the left rows (C15.joinOn_semi_anti_partition) -/
theorem joinOnRows_semi_anti (e : Expr) (ln rn : Nat) (ls rs semi anti : List Row)
    (hs : joinOnRows .semi e ln rn ls rs = .ok semi) (ha : joinOnRows .anti e ln rn ls rs = .ok anti) :
    semi.Sublist ls ∧ anti.Sublist ls ∧ semi.length + anti.length = ls.length := by
  obtain ⟨m, hm, rfl⟩ := joinOnRows_ok hs
  obtain ⟨m', hm', rfl⟩ := joinOnRows_ok ha
  rw [hm] at hm'
  cases hm'
  have hlen : ls.length ≤ m.length := Nat.le_of_eq (mapM_ok_length hm).symm
  obtain ⟨h1, h2, h3⟩ := split_by_test (α := Row)
    (fun ms : List Bool => ((rs.zip ms).filterMap fun (x : Row × Bool) => if x.2 then some x.1 else none).isEmpty)
    (ls.zip m)
  rw [List.map_fst_zip hlen] at h1 h2
  rw [List.length_zip, Nat.min_eq_left hlen] at h3
  exact ⟨h1, h2, h3⟩

/-- a `mapM` in `Except` succeeds exactly when the function succeeds on every element -/
theorem mapM_ok_iff {ε α β : Type} (f : α → Except ε β) (l : List α) :
    (∃ out, l.mapM f = .ok out) ↔ ∀ x ∈ l, ∃ y, f x = .ok y := by
  induction l with
  | nil => exact ⟨fun _ x hx => (by cases hx), fun _ => ⟨[], by rw [List.mapM_nil]; rfl⟩⟩
  | cons x xs ih =>
    constructor
    · rintro ⟨out, h⟩
      rw [List.mapM_cons] at h
      obtain ⟨y, hy, h⟩ := bind_ok h
      obtain ⟨ys, hys, h⟩ := bind_ok h
      intro z hz
      rcases List.mem_cons.mp hz with rfl | hz
      · exact ⟨y, hy⟩
      · exact ih.mp ⟨ys, hys⟩ z hz
    · intro h
      obtain ⟨y, hy⟩ := h x List.mem_cons_self
      obtain ⟨ys, hys⟩ := ih.mpr fun z hz => h z (List.mem_cons_of_mem _ hz)
      exact ⟨y :: ys, by rw [List.mapM_cons, hy, hys]; rfl⟩

/-- a successful `mapM` of a function that agrees with a pure one is the `map` of the pure one -/
theorem mapM_ok_eq_map {ε α β : Type} {f : α → Except ε β} {g : α → β}
    (hfg : ∀ x y, f x = .ok y → g x = y) : ∀ (l : List α) (out : List β), l.mapM f = .ok out → out = l.map g := by
  intro l
  induction l with
  | nil =>
    intro out h
    rw [List.mapM_nil] at h
    cases pure_ok h
    rfl
  | cons x xs ih =>
    intro out h
    rw [List.mapM_cons] at h
    obtain ⟨y, hy, h⟩ := bind_ok h
    obtain ⟨ys, hys, h⟩ := bind_ok h
    cases pure_ok h
    rw [List.map_cons, hfg x y hy, ← ih ys hys]

/-- the match matrix of a successful join, given a pure test that agrees with the condition where it evaluates -/
theorem matrix_eq_map {e : Expr} {ls rs : List Row} {m : List (List Bool)} (p : Row → Row → Bool)
    (hp : ∀ l r b, condHolds e l r = .ok b → p l r = b)
    (hm : (ls.mapM fun l => rs.mapM fun r => condHolds e l r) = .ok m) :
    m = ls.map fun l => rs.map (p l) :=
  mapM_ok_eq_map (fun l ms h => (mapM_ok_eq_map (hp l) rs ms h).symm) ls m hm

/-- `joinOnRows` is defined exactly when the match matrix is -/
theorem joinOnRows_defined_iff (how : How) (e : Expr) (ln rn : Nat) (ls rs : List Row) :
    (∃ out, joinOnRows how e ln rn ls rs = .ok out) ↔
      ∃ m, (ls.mapM fun l => rs.mapM fun r => condHolds e l r) = .ok m := by
  constructor
  · rintro ⟨out, h⟩
    obtain ⟨m, hm, _⟩ := joinOnRows_ok h
    exact ⟨m, hm⟩
  · rintro ⟨m, hm⟩
    unfold joinOnRows
    rw [hm]
    exact ⟨_, rfl⟩

theorem zip_map_flatMap {α β γ : Type} (F : α → β) (G : α × β → List γ) (l : List α) :
    (l.zip (l.map F)).flatMap G = l.flatMap fun x => G (x, F x) := by
  induction l with
  | nil => rfl
  | cons x xs ih => simp only [List.map_cons, List.zip_cons_cons, List.flatMap_cons, ih]

/-- selecting by a row of tests computed with `map` is `filter` -/
theorem zip_map_filterMap {α : Type} (p : α → Bool) (l : List α) :
    (l.zip (l.map p)).filterMap (fun (x : α × Bool) => if x.2 then some x.1 else none) = l.filter p := by
  induction l with
  | nil => rfl
  | cons x xs ih =>
    simp only [List.map_cons, List.zip_cons_cons, List.filterMap_cons, List.filter_cons, ih]
    cases p x <;> simp

/-- dropping by a test on the position that agrees with a test on the element is `filter` -/
theorem zipIdx_filterMap_eq {α β : Type} (q : Nat → Bool) (p : α → Bool) (f : α → β) :
    ∀ (l : List α) (n : Nat), (∀ j (h : j < l.length), q (n + j) = p l[j]) →
      (l.zipIdx n).filterMap (fun (x : α × Nat) => if q x.2 then none else some (f x.1)) =
        (l.filter fun a => !p a).map f := by
  intro l
  induction l with
  | nil => intros; rfl
  | cons a as ih =>
    intro n h
    have h0 : q n = p a := h 0 (Nat.zero_lt_succ _)
    have ih' := ih (n + 1) (fun j hj => by
      have := h (j + 1) (Nat.succ_lt_succ hj)
      rw [List.getElem_cons_succ] at this
      rw [← this]
      congr 1
      omega)
    rw [List.zipIdx_cons, List.filterMap_cons, List.filter_cons, ih']
    simp only [h0]
    cases p a <;> simp

theorem flatMap_ite_singleton {α : Type} (c : α → Bool) (l : List α) :
    (l.flatMap fun x => if c x then [x] else []) = l.filter c := by
  induction l with
  | nil => rfl
  | cons x xs ih =>
    rw [List.flatMap_cons, List.filter_cons, ih]
    cases c x <;> simp

theorem filter_isEmpty_eq {α : Type} (p : α → Bool) (l : List α) : (l.filter p).isEmpty = !l.any p := by
  induction l with
  | nil => rfl
  | cons x xs ih =>
    rw [List.filter_cons, List.any_cons]
    cases p x
    · simpa using ih
    · simp

/-- a successful join on a condition as a pure nested loop over any test that agrees with the condition where it
evaluates: the per-left-row part, then (right, full) the null-padded right rows no left row matches -/
theorem joinOnRows_ok_pure {how : How} {e : Expr} {ln rn : Nat} {ls rs out : List Row} (p : Row → Row → Bool)
    (hp : ∀ l r b, condHolds e l r = .ok b → p l r = b)
    (h : joinOnRows how e ln rn ls rs = .ok out) :
    out = (ls.flatMap fun l => joinOnLeft how rn l (rs.filter (p l))) ++
      (match how with
        | .right | .full => (rs.filter fun r => ls.all fun l => !p l r).map (nullRow ln ++ ·)
        | _ => []) := by
  obtain ⟨m, hm, rfl⟩ := joinOnRows_ok h
  cases matrix_eq_map p hp hm
  have hper : ((ls.zip (ls.map fun l => rs.map (p l))).flatMap fun (x : Row × List Bool) =>
      joinOnLeft how rn x.1 ((rs.zip x.2).filterMap fun (y : Row × Bool) => if y.2 then some y.1 else none)) =
      ls.flatMap fun l => joinOnLeft how rn l (rs.filter (p l)) :=
    (zip_map_flatMap _ _ ls).trans
      (congrArg (fun g => ls.flatMap g) (funext fun l => congrArg (joinOnLeft how rn l) (zip_map_filterMap (p l) rs)))
  have hun : (rs.zipIdx.filterMap fun (x : Row × Nat) =>
      if (ls.map fun l => rs.map (p l)).any (fun ms => ms.getD x.2 false) then none else some (nullRow ln ++ x.1)) =
      (rs.filter fun r => ls.all fun l => !p l r).map (nullRow ln ++ ·) := by
    have := zipIdx_filterMap_eq (fun j => (ls.map fun l => rs.map (p l)).any (fun ms => ms.getD j false))
      (fun r => ls.any fun l => p l r) (nullRow ln ++ ·) rs 0 (fun j hj => by
        rw [Nat.zero_add, List.any_map]
        congr 1
        funext l
        simp [Function.comp, hj])
    have hnot : (fun a => !ls.any fun l => p l a) = fun r => ls.all fun l => !p l r := by
      funext r
      exact List.not_any_eq_all_not
    rw [this, hnot]
  cases how with
  | right => exact (congrArg₂ (· ++ ·) hper hun)
  | full => exact (congrArg₂ (· ++ ·) hper hun)
  | inner => exact hper.trans (List.append_nil _).symm
  | left => exact hper.trans (List.append_nil _).symm
  | semi => exact hper.trans (List.append_nil _).symm
  | anti => exact hper.trans (List.append_nil _).symm

theorem union_consistent(d : DF) (other : DF) (h : d.Consistent) (ho : other.Consistent) :
    Agree d (.union other) := by
  intro ns rs hn hr r hmem
  simp only [opNames] at hn
  simp only [opRows] at hr
  cases hn
  split at hr
  · rename_i hw
    cases hr
    rcases List.mem_append.mp hmem with hm | hm
    · exact h r hm
    · rw [ho r hm, hw]
  · cases hr

/-! ### row-only operations: the rows are rows of the input -/

theorem filter_rows (d : DF) (e : Expr) (rs : List Row) (hr : opRows d (.filter e) = .ok rs) :
    (∀ r ∈ rs, r ∈ d.rows) ∧ rs.length ≤ d.rows.length := by
  simp only [opRows] at hr
  split at hr
  · rename_i rs' h'
    cases hr
    unfold filterM at h'
    obtain ⟨h1, h2⟩ := filterMapM_ok _ _ _ h'
    refine ⟨fun r hmem => ?_, h2⟩
    obtain ⟨x, hx, hf⟩ := h1 r hmem
    obtain ⟨v, _, hf⟩ := bind_ok hf
    have := pure_ok hf
    split at this
    · cases this; exact hx
    · cases this
  · cases hr

theorem sort_rows (d : DF) (keys : List (String × Bool)) (rs : List Row) (hr : opRows d (.sort keys) = .ok rs) :
    rs.Perm d.rows := by
  simp only [opRows] at hr
  obtain ⟨ks, _, hr⟩ := bind_ok hr
  cases pure_ok hr
  exact sortM_perm ks d.rows

theorem limit_rows (d : DF) (n : Nat) (rs : List Row) (hr : opRows d (.limit n) = .ok rs) :
    (∀ r ∈ rs, r ∈ d.rows) ∧ rs.length ≤ d.rows.length := by
  simp only [opRows] at hr
  cases hr
  exact ⟨fun r hm => List.mem_of_mem_take hm, List.length_take_le' _ _⟩

theorem distinct_rows (d : DF) (rs : List Row) (hr : opRows d .distinct = .ok rs) :
    (∀ r ∈ rs, r ∈ d.rows) ∧ rs.length ≤ d.rows.length := by
  simp only [opRows] at hr
  cases hr
  have hs := (dedup_ok id d.rows).2.1
  exact ⟨fun r hm => hs.subset hm, hs.length_le⟩

theorem sample_rows (d : DF) (keep : List Bool) (rs : List Row) (hr : opRows d (.sample keep) = .ok rs) :
    (∀ r ∈ rs, r ∈ d.rows) ∧ rs.length ≤ d.rows.length := by
  simp only [opRows] at hr
  cases hr
  refine ⟨fun r hm => ?_, ?_⟩
  · obtain ⟨⟨r0, k⟩, hz, hf⟩ := List.mem_filterMap.mp hm
    dsimp only at hf
    split at hf
    · cases hf; exact (List.of_mem_zip hz).1
    · cases hf
  · refine Nat.le_trans (List.length_filterMap_le _ _) ?_
    rw [List.length_zip]
    exact Nat.min_le_left _ _

theorem repartition_rows (d : DF) (n : Nat) (rs : List Row) (hr : opRows d (.repartition n) = .ok rs) :
    rs = d.rows := by
  simp only [opRows] at hr
  cases hr; rfl

/-! ### folds over groups -/

theorem foldl_inv {σ α : Type} (P : σ → Prop) (f : σ → α → σ) : ∀ (l : List α) (init : σ), P init →
    (∀ s, P s → ∀ a ∈ l, P (f s a)) → P (l.foldl f init) := by
  intro l
  induction l with
  | nil => intro init h0 _; exact h0
  | cons a l ih =>
    intro init h0 hstep
    rw [List.foldl_cons]
    exact ih _ (hstep init h0 a List.mem_cons_self)
      (fun s hs b hb => hstep s hs b (List.mem_cons_of_mem _ hb))

theorem updGroup_inv {κ : Type} [BEq κ] (P : κ × List St → Prop) (g : GroupsK κ) (key : κ) (f : List St → List St)
    (fresh : List St) (hg : ∀ e ∈ g, P e) (hf : ∀ e, P e → P (e.1, f e.2)) (hnew : P (key, f fresh)) :
    ∀ e ∈ updGroup g key f fresh, P e := by
  unfold updGroup
  split
  · intro e he
    obtain ⟨x, hx, rfl⟩ := List.mem_map.mp he
    split
    · exact hf x (hg x hx)
    · exact hg x hx
  · intro e he
    rcases List.mem_append.mp he with h | h
    · exact hg e h
    · rw [List.mem_singleton] at h
      subst h
      exact hnew

/-- width of the two tuples of every group -/
def GW (K n : Nat) (e : List SV × List St) : Prop := e.1.length = K ∧ e.2.length = n
def SW (K n : Nat) (e : List (Option SV) × List St) : Prop := e.1.length = K ∧ e.2.length = n

/-! ### agg -/

theorem aggInput_ok (d : DF) (keys : List String) (aggs : List AggSpec) (rows : List (List SV × List SV))
    (h : aggInput d keys aggs = .ok rows) :
    ∃ ki ai : List Nat, ki.length = keys.length ∧ ai.length = aggs.length ∧
      rows = d.rows.map fun r => (ki.map (colOf r), ai.map (colOf r)) := by
  unfold aggInput at h
  obtain ⟨ki, hki, h⟩ := bind_ok h
  obtain ⟨ai, hai, h⟩ := bind_ok h
  exact ⟨ki, ai, mapM_ok_length hki, mapM_ok_length hai, (pure_ok h).symm⟩

theorem aggInput_widths (d : DF) (keys : List String) (aggs : List AggSpec) (rows : List (List SV × List SV))
    (h : aggInput d keys aggs = .ok rows) :
    ∀ kv ∈ rows, kv.1.length = keys.length ∧ kv.2.length = aggs.length := by
  obtain ⟨ki, ai, hk, ha, rfl⟩ := aggInput_ok d keys aggs rows h
  intro kv hkv
  obtain ⟨r, _, rfl⟩ := List.mem_map.mp hkv
  simp [hk, ha]

/-- generic in the key type: every group key satisfies `Q` (e.g. has the width of the row keys) and there are
`n` accumulators -/
theorem aggregateSpec_inv {κ : Type} [BEq κ] (Q : κ → Prop) (n : Nat) (rows : List (κ × List SV))
    (h : ∀ kv ∈ rows, Q kv.1 ∧ kv.2.length = n) :
    ∀ e ∈ aggregateSpec n rows, Q e.1 ∧ e.2.length = n := by
  unfold aggregateSpec
  refine foldl_inv (fun g : GroupsK κ => ∀ e ∈ g, Q e.1 ∧ e.2.length = n) _ rows [] (fun e he => by cases he) ?_
  intro g hg r hr
  obtain ⟨h1, h2⟩ := h r hr
  unfold addRow
  refine updGroup_inv (fun e => Q e.1 ∧ e.2.length = n) g r.1 _ _ hg ?_ ?_
  · intro e he
    exact ⟨he.1, by simp [List.length_zip, he.2, h2]⟩
  · exact ⟨h1, by simp [List.length_zip, h2]⟩

theorem aggregateSpec_widths (n K : Nat) (rows : List (List SV × List SV))
    (h : ∀ kv ∈ rows, kv.1.length = K ∧ kv.2.length = n) : ∀ e ∈ aggregateSpec n rows, GW K n e :=
  aggregateSpec_inv (fun k : List SV => k.length = K) n rows h

theorem aggregateSub_widths (n K : Nat) (rows : List (List (Option SV) × List SV))
    (h : ∀ kv ∈ rows, kv.1.length = K ∧ kv.2.length = n) : ∀ e ∈ aggregateSpec n rows, SW K n e :=
  aggregateSpec_inv (fun k : List (Option SV) => k.length = K) n rows h

theorem rollupKeys_width (key : List SV) : ∀ sk ∈ rollupKeys key, sk.length = key.length := by
  intro sk hsk
  unfold rollupKeys at hsk
  obtain ⟨i, hi, rfl⟩ := List.mem_map.mp hsk
  have := List.mem_range.mp hi
  simp only [List.length_append, List.length_map, List.length_take, List.length_replicate]
  omega

theorem cubeKeys_width (key : List SV) : ∀ sk ∈ cubeKeys key, sk.length = key.length :=
  fun sk hsk => (cubeKeys_sound key sk hsk).1

theorem keysOfMode_width (mode : GroupMode) (key : List SV) : ∀ sk ∈ keysOfMode mode key, sk.length = key.length := by
  cases mode with
  | groupBy => intro sk hsk; simp only [keysOfMode, groupByKeys, List.mem_singleton] at hsk; subst hsk; simp
  | rollup => exact rollupKeys_width key
  | cube => exact cubeKeys_width key

theorem expand_widths (keysOf : List SV → List (List (Option SV)))
    (hk : ∀ key, ∀ sk ∈ keysOf key, sk.length = key.length) (K n : Nat) (rows : List (List SV × List SV))
    (h : ∀ kv ∈ rows, kv.1.length = K ∧ kv.2.length = n) :
    ∀ kv ∈ expand keysOf rows, kv.1.length = K ∧ kv.2.length = n := by
  intro kv hkv
  unfold expand at hkv
  obtain ⟨r, hr, hkv⟩ := List.mem_flatMap.mp hkv
  obtain ⟨sk, hsk, rfl⟩ := List.mem_map.mp hkv
  exact ⟨(hk r.1 sk hsk).trans (h r hr).1, (h r hr).2⟩

theorem projectAll_length (aggs : List AggSpec) (sts : List St) :
    (projectAll aggs sts).length = min aggs.length sts.length := by
  simp [projectAll, List.length_zip]

theorem agg_consistent (d : DF) (mode : GroupMode) (keys : List String) (aggs : List AggSpec) :
    Agree d (.agg mode keys aggs) := by
  intro ns rs hn hr r hmem
  simp only [opNames] at hn
  cases hn
  simp only [opRows] at hr
  obtain ⟨rows, hrows, hr⟩ := bind_ok hr
  cases pure_ok hr
  obtain ⟨x, hx, rfl⟩ := List.mem_map.mp hmem
  obtain ⟨h1, h2⟩ := aggregateSub_widths aggs.length keys.length _
    (expand_widths (keysOfMode mode) (keysOfMode_width mode) keys.length aggs.length rows
      (aggInput_widths d keys aggs rows hrows)) x hx
  simp [showKey, projectAll_length, aggNames, h1, h2]

/-! ### pivot -/

theorem pairs_length {α β γ : Type} (vals : List β) (g : α → β → γ) :
    ∀ pvs : List α, (pvs.flatMap fun p => vals.map (g p)).length = pvs.length * vals.length := by
  intro pvs
  induction pvs with
  | nil => simp
  | cons p ps ih =>
    rw [List.flatMap_cons, List.length_append, ih, List.length_map, List.length_cons, Nat.succ_mul]
    omega

theorem stepCells_length (pvs : List SV) (pv : SV) (sts : List St) (vals : List SV)
    (h : sts.length = pvs.length * vals.length) : (stepCells pvs pv sts vals).length = sts.length := by
  unfold stepCells
  have := pairs_length vals (fun (p : SV) (v : SV) => (p, v)) pvs
  rw [List.length_map, List.length_zip, this, h]
  exact Nat.min_self _

theorem aggregatePivotSpec_widths (n K : Nat) (pvs : List SV) (rows : List (List SV × SV × List SV))
    (h : ∀ r ∈ rows, r.1.length = K ∧ r.2.2.length = n) :
    ∀ e ∈ aggregatePivotSpec n pvs rows, GW K (pvs.length * n) e := by
  unfold aggregatePivotSpec
  refine foldl_inv (fun g : Groups => ∀ e ∈ g, GW K (pvs.length * n) e) _ rows []
    (fun e he => by cases he) ?_
  intro g hg r hr
  obtain ⟨h1, h2⟩ := h r hr
  unfold addRowPivot
  refine updGroup_inv (GW K (pvs.length * n)) g r.1 _ _ hg ?_ ?_
  · intro e he
    refine ⟨he.1, ?_⟩
    show (stepCells pvs r.2.1 e.2 r.2.2).length = _
    rw [stepCells_length _ _ _ _ (by rw [he.2, h2]), he.2]
  · refine ⟨h1, ?_⟩
    rw [stepCells_length _ _ _ _ (by rw [List.length_replicate, h2]), List.length_replicate]

theorem chunks_project_length (aggs : List AggSpec) : ∀ (k : Nat) (sts : List St),
    sts.length = k * aggs.length →
    ((chunks aggs.length k sts).flatMap (projectAll aggs)).length = k * aggs.length := by
  intro k
  induction k with
  | zero => intro sts _; simp [chunks]
  | succ k ih =>
    intro sts h
    rw [Nat.succ_mul] at h
    have hd : (sts.drop aggs.length).length = k * aggs.length := by
      rw [List.length_drop, h]; omega
    rw [chunks, List.flatMap_cons, List.length_append, ih _ hd, projectAll_length, List.length_take,
      Nat.succ_mul, h]
    omega

theorem pivotNames_length (pvs : List String) (aggs : List AggSpec) :
    (pivotNames pvs aggs).length = pvs.length * aggs.length := by
  unfold pivotNames
  split
  · simp
  · exact pairs_length aggs (fun (p : String) (a : AggSpec) => p ++ "_" ++ a.name) pvs

theorem pivot_consistent (d : DF) (keys : List String) (pcol : String) (values : Option (List String))
    (aggs : List AggSpec) : Agree d (.pivot keys pcol values aggs) := by
  intro ns rs hn hr r hmem
  simp only [opNames] at hn
  obtain ⟨pvs, hpvs, hn⟩ := bind_ok hn
  cases pure_ok hn
  simp only [opRows] at hr
  obtain ⟨pvs', hpvs', hr⟩ := bind_ok hr
  rw [hpvs] at hpvs'
  cases hpvs'
  obtain ⟨pi, _, hr⟩ := bind_ok hr
  obtain ⟨rows, hrows, hr⟩ := bind_ok hr
  cases pure_ok hr
  obtain ⟨e, he, rfl⟩ := List.mem_map.mp hmem
  have hw := aggInput_widths d keys aggs rows hrows
  obtain ⟨h1, h2⟩ := aggregatePivotSpec_widths aggs.length keys.length pvs _ (by
    intro p hp
    obtain ⟨⟨r0, kv⟩, hz, rfl⟩ := List.mem_map.mp hp
    exact hw kv (List.of_mem_zip hz).2) e he
  rw [List.length_append, List.length_append, chunks_project_length aggs pvs.length e.2 h2,
    pivotNames_length, List.length_map, h1]

/-! ### one step, all operations -/

theorem apply_ok {d d' : DF} {op : Op} (ha : apply d op = .ok d') :
    ∃ ns rs, opNames d op = .ok ns ∧ opRows d op = .ok rs ∧ d' = ⟨ns, rs⟩ := by
  unfold apply at ha
  obtain ⟨ns, hn, ha⟩ := bind_ok ha
  obtain ⟨rs, hr, ha⟩ := bind_ok ha
  exact ⟨ns, rs, hn, hr, (pure_ok ha).symm⟩

/-- row-only operations keep the schema and return input rows, hence keep the invariant -/
theorem agree_of_rows (d : DF) (op : Op) (h : d.Consistent) (hn : opNames d op = .ok d.names)
    (hr : ∀ rs, opRows d op = .ok rs → ∀ r ∈ rs, r ∈ d.rows) : Agree d op := by
  intro ns rs hn' hr' r hmem
  rw [hn] at hn'
  cases hn'
  exact h r (hr rs hr' r hmem)

theorem filter_consistent (d : DF) (e : Expr) (h : d.Consistent) : Agree d (.filter e) :=
  agree_of_rows d _ h rfl fun rs hr => (filter_rows d e rs hr).1

theorem sort_consistent (d : DF) (keys : List (String × Bool)) (h : d.Consistent) : Agree d (.sort keys) :=
  agree_of_rows d _ h rfl fun rs hr _ hm => (sort_rows d keys rs hr).mem_iff.mp hm

theorem limit_consistent (d : DF) (n : Nat) (h : d.Consistent) : Agree d (.limit n) :=
  agree_of_rows d _ h rfl fun rs hr => (limit_rows d n rs hr).1

theorem distinct_consistent (d : DF) (h : d.Consistent) : Agree d .distinct :=
  agree_of_rows d _ h rfl fun rs hr => (distinct_rows d rs hr).1

theorem sample_consistent (d : DF) (keep : List Bool) (h : d.Consistent) : Agree d (.sample keep) :=
  agree_of_rows d _ h rfl fun rs hr => (sample_rows d keep rs hr).1

theorem repartition_consistent (d : DF) (n : Nat) (h : d.Consistent) : Agree d (.repartition n) :=
  agree_of_rows d _ h rfl fun rs hr _ hm => by rw [repartition_rows d n rs hr] at hm; exact hm

end PysparklingVerif.Frame
