/-
  Helper lemmas for C13 (DataFrame joins on column names).
-/
import PysparklingVerif.Model.Join
import PysparklingVerif.Properties.C02
namespace PysparklingVerif.Join
open PysparklingVerif.Rdd PysparklingVerif.Keyed PysparklingVerif.Sql

/-! ### keyed spec comprehensions, formatted, are the row-level spec comprehensions -/

section generic
variable {κ α : Type} [DecidableEq κ]

/-- the `BEq` derived from `DecidableEq` (used by the keyed model) agrees with any lawful `BEq` -/
theorem beq_inst (inst : BEq κ) [LawfulBEq κ] (a b : κ) :
    @BEq.beq κ instBEqOfDecidableEq a b = @BEq.beq κ inst a b := by
  show decide (a = b) = _
  by_cases h : a = b
  · subst h; simp
  · have : (a == b) = false := by simpa using h
    rw [this]; simpa using h

theorem gfilter (f : α → κ) (k : κ) (p : α → Bool) (hp : ∀ b, p b = (f b == k)) (R : List α) :
    (R.map (fun b => (f b, b))).filter (fun x => x.1 == k) = (R.filter p).map (fun b => (f b, b)) := by
  rw [List.filter_map]
  congr 1
  apply List.filter_congr
  intro b _
  exact (hp b).symm

theorem gany (f : α → κ) (k : κ) (p : α → Bool) (hp : ∀ b, p b = (f b == k)) (R : List α) :
    (R.map (fun b => (f b, b))).any (fun x => x.1 == k) = R.any p := by
  rw [List.any_map]
  congr 1
  funext b
  exact (hp b).symm

end generic

/-- the keying function -/
abbrev kf (names on : List String) : Row → List SV × Row := fun row => (keyOf names on row, row)

theorem km_r (ln rn on : List String) (a b : Row) :
    keyMatch ln rn on a b = @BEq.beq (List SV) instBEqOfDecidableEq (keyOf rn on b) (keyOf ln on a) := by
  rw [beq_inst]
  exact BEq.comm

theorem km_l (ln rn on : List String) (a b : Row) :
    keyMatch ln rn on a b = @BEq.beq (List SV) instBEqOfDecidableEq (keyOf ln on a) (keyOf rn on b) := by
  rw [beq_inst]
  rfl

theorem filter_keyed (ln rn on : List String) (a : Row) (R : List Row) :
    (R.map (kf rn on)).filter (fun x => @BEq.beq (List SV) instBEqOfDecidableEq x.1 (keyOf ln on a)) =
      (R.filter (keyMatch ln rn on a)).map (kf rn on) :=
  gfilter (keyOf rn on) (keyOf ln on a) (keyMatch ln rn on a) (fun b => km_r ln rn on a b) R

theorem filter_keyed_left (ln rn on : List String) (b : Row) (L : List Row) :
    (L.map (kf ln on)).filter (fun x => @BEq.beq (List SV) instBEqOfDecidableEq x.1 (keyOf rn on b)) =
      (L.filter (fun a => keyMatch ln rn on a b)).map (kf ln on) :=
  gfilter (keyOf ln on) (keyOf rn on b) (fun a => keyMatch ln rn on a b) (fun a => km_l ln rn on a b) L

theorem any_keyed (ln rn on : List String) (a : Row) (R : List Row) :
    (R.map (kf rn on)).any (fun x => @BEq.beq (List SV) instBEqOfDecidableEq x.1 (keyOf ln on a)) =
      R.any (keyMatch ln rn on a) :=
  gany (keyOf rn on) (keyOf ln on a) (keyMatch ln rn on a) (fun b => km_r ln rn on a b) R

theorem any_keyed_left (ln rn on : List String) (b : Row) (L : List Row) :
    (L.map (kf ln on)).any (fun x => @BEq.beq (List SV) instBEqOfDecidableEq x.1 (keyOf rn on b)) =
      L.any (fun a => keyMatch ln rn on a b) :=
  gany (keyOf ln on) (keyOf rn on b) (fun a => keyMatch ln rn on a b) (fun a => km_l ln rn on a b) L

theorem isEmpty_map' {α β : Type} (f : α → β) (xs : List α) : (xs.map f).isEmpty = xs.isEmpty := by
  cases xs <;> rfl

theorem spec_inner (ln rn on : List String) (L R : List Row) :
    (Keyed.specJoin (L.map (kf ln on)) (R.map (kf rn on))).map
        (fun e => mergeRow ln rn on (some e.2.1) (some e.2.2) true) =
      specJoin .inner ln rn on L R := by
  unfold Keyed.specJoin Join.specJoin
  simp only [List.flatMap_map, List.map_flatMap]
  congr 1
  funext a
  rw [filter_keyed, List.map_map, List.map_map]
  rfl

theorem leftOuter_row (ln rn on : List String) (a : Row) (R : List Row) :
    (if ((R.map (kf rn on)).filter
          (fun x => @BEq.beq (List SV) instBEqOfDecidableEq x.1 (keyOf ln on a))).isEmpty = true
      then [(keyOf ln on a, (a, (none : Option Row)))]
      else ((R.map (kf rn on)).filter
          (fun x => @BEq.beq (List SV) instBEqOfDecidableEq x.1 (keyOf ln on a))).map
            fun kw => (keyOf ln on a, (a, some kw.2))).map
        (fun e => mergeRow ln rn on (some e.2.1) e.2.2 true) =
      (if (R.filter (keyMatch ln rn on a)).isEmpty = true then [mergeRow ln rn on (some a) none true]
       else (R.filter (keyMatch ln rn on a)).map fun b => mergeRow ln rn on (some a) (some b) true) := by
  rw [filter_keyed, isEmpty_map']
  split
  · rfl
  · rw [List.map_map, List.map_map]
    rfl

theorem spec_left (ln rn on : List String) (L R : List Row) :
    (Keyed.specLeftOuter (L.map (kf ln on)) (R.map (kf rn on))).map
        (fun e => mergeRow ln rn on (some e.2.1) e.2.2 true) =
      specJoin .left ln rn on L R := by
  unfold Keyed.specLeftOuter Join.specJoin
  simp only [List.flatMap_map, List.map_flatMap]
  congr 1
  funext a
  exact leftOuter_row ln rn on a R

theorem spec_right (ln rn on : List String) (L R : List Row) :
    (Keyed.specRightOuter (L.map (kf ln on)) (R.map (kf rn on))).map
        (fun e => mergeRow ln rn on e.2.1 (some e.2.2) true) =
      specJoin .right ln rn on L R := by
  unfold Keyed.specRightOuter Join.specJoin
  simp only [List.flatMap_map, List.map_flatMap]
  congr 1
  funext b
  rw [filter_keyed_left, isEmpty_map']
  split
  · rfl
  · rw [List.map_map, List.map_map]
    rfl

theorem spec_full (ln rn on : List String) (L R : List Row) :
    (Keyed.specFullOuter (L.map (kf ln on)) (R.map (kf rn on))).map
        (fun e => mergeRow ln rn on e.2.1 e.2.2 true) =
      specJoin .full ln rn on L R := by
  unfold Keyed.specFullOuter
  rw [List.map_append, List.map_map]
  have h1 : (Keyed.specLeftOuter (L.map (kf ln on)) (R.map (kf rn on))).map
      ((fun e : List SV × (Option Row × Option Row) => mergeRow ln rn on e.2.1 e.2.2 true) ∘
        (fun e : List SV × (Row × Option Row) => (e.1, (some e.2.1, e.2.2)))) =
      specJoin .left ln rn on L R := spec_left ln rn on L R
  rw [h1]
  show _ = specJoin .left ln rn on L R ++ _
  congr 1
  rw [List.filter_map, List.map_map, List.map_map]
  simp only [Function.comp_def, any_keyed_left]

theorem spec_semi (ln rn on : List String) (L R : List Row) :
    (Keyed.specSemi (L.map (kf ln on)) (R.map (kf rn on))).map
        (fun e => mergeRow ln rn on (some e.2) none false) =
      specJoin .semi ln rn on L R := by
  unfold Keyed.specSemi Join.specJoin
  rw [List.filter_map, List.map_map]
  simp only [Function.comp_def, any_keyed]

theorem spec_anti (ln rn on : List String) (L R : List Row) :
    (Keyed.specSubtractByKey (L.map (kf ln on)) (R.map (kf rn on))).map
        (fun e => mergeRow ln rn on (some e.2) none false) =
      specJoin .anti ln rn on L R := by
  unfold Keyed.specSubtractByKey Join.specJoin
  rw [List.filter_map, List.map_map]
  simp only [Function.comp_def, any_keyed]

/-! ### widths -/

theorem keyOf_length (names on : List String) (r : Row) : (keyOf names on r).length = on.length := by
  simp [keyOf]

theorem nulls_length (n : Nat) : (nulls n).length = n := by
  simp [nulls]

theorem rest_length (on : List String) : ∀ (names : List String) (r : Row), r.length = names.length →
    (rest names on r).length = (restNames names on).length := by
  intro names
  induction names with
  | nil => intro r _; simp [rest, restNames]
  | cons n ns ih =>
    intro r hr
    cases r with
    | nil => simp at hr
    | cons v vs =>
      have hvs : vs.length = ns.length := by simpa using hr
      have ih' := ih vs hvs
      simp only [rest, restNames, List.zip_cons_cons, List.filterMap_cons, List.filter_cons] at ih' ⊢
      cases h : on.contains n <;> simp at ih' ⊢ <;> exact ih'

/-- width of a merged row -/
theorem mergeRow_length (ln rn on : List String) (l r : Option Row) (w : Bool)
    (hl : ∀ a, l = some a → a.length = ln.length) (hr : ∀ b, r = some b → b.length = rn.length) :
    (mergeRow ln rn on l r w).length =
      on.length + (restNames ln on).length + (if w then (restNames rn on).length else 0) := by
  cases l with
  | none =>
    cases r with
    | none => cases w <;> simp [Nat.add_assoc, mergeRow, nulls_length]
    | some b =>
      have hb := rest_length on rn b (hr b rfl)
      cases w <;> simp [Nat.add_assoc, mergeRow, keyOf_length, nulls_length, hb]
  | some a =>
    have ha := rest_length on ln a (hl a rfl)
    cases r with
    | none => cases w <;> simp [Nat.add_assoc, mergeRow, keyOf_length, nulls_length, ha]
    | some b =>
      have hb := rest_length on rn b (hr b rfl)
      cases w <;> simp [Nat.add_assoc, mergeRow, keyOf_length, ha, hb]

theorem joinNames_length (how : How) (ln rn on : List String) :
    (joinNames how ln rn on).length =
      on.length + (restNames ln on).length +
        (if how = .semi ∨ how = .anti then 0 else (restNames rn on).length) := by
  unfold joinNames
  split <;> simp [*, Nat.add_assoc]

theorem specJoin_row_length (how : How) (ln rn on : List String) (L R : List Row)
    (hl : ∀ row ∈ L, row.length = ln.length) (hr : ∀ row ∈ R, row.length = rn.length) :
    ∀ row ∈ specJoin how ln rn on L R, row.length = (joinNames how ln rn on).length := by
  intro row hrow
  rw [joinNames_length]
  have mSS : ∀ a ∈ L, ∀ b ∈ R, (mergeRow ln rn on (some a) (some b) true).length =
      on.length + (restNames ln on).length + (restNames rn on).length := by
    intro a ha b hb
    rw [mergeRow_length ln rn on (some a) (some b) true
      (fun x hx => by cases hx; exact hl _ ha) (fun x hx => by cases hx; exact hr _ hb)]
    simp
  have mSN : ∀ a ∈ L, ∀ w, (mergeRow ln rn on (some a) none w).length =
      on.length + (restNames ln on).length + (if w then (restNames rn on).length else 0) := by
    intro a ha w
    exact mergeRow_length ln rn on (some a) none w
      (fun x hx => by cases hx; exact hl _ ha) (fun x hx => by cases hx)
  have mNS : ∀ b ∈ R, (mergeRow ln rn on none (some b) true).length =
      on.length + (restNames ln on).length + (restNames rn on).length := by
    intro b hb
    rw [mergeRow_length ln rn on none (some b) true
      (fun x hx => by cases hx) (fun x hx => by cases hx; exact hr _ hb)]
    simp
  have leftCase : ∀ a ∈ L, row ∈ (let ms := R.filter (keyMatch ln rn on a)
      if ms.isEmpty then [mergeRow ln rn on (some a) none true]
      else ms.map fun b => mergeRow ln rn on (some a) (some b) true) →
      row.length = on.length + (restNames ln on).length + (restNames rn on).length := by
    intro a ha h
    dsimp only at h
    split at h
    · rw [List.mem_singleton] at h
      rw [h, mSN a ha true]; simp
    · obtain ⟨b, hb, rfl⟩ := List.mem_map.mp h
      exact mSS a ha b (List.mem_filter.mp hb).1
  cases how with
  | inner =>
    unfold specJoin at hrow
    obtain ⟨a, ha, h⟩ := List.mem_flatMap.mp hrow
    obtain ⟨b, hb, rfl⟩ := List.mem_map.mp h
    simpa using mSS a ha b (List.mem_filter.mp hb).1
  | left =>
    unfold specJoin at hrow
    obtain ⟨a, ha, h⟩ := List.mem_flatMap.mp hrow
    simpa using leftCase a ha h
  | right =>
    unfold specJoin at hrow
    obtain ⟨b, hb, h⟩ := List.mem_flatMap.mp hrow
    dsimp only at h
    split at h
    · rw [List.mem_singleton] at h
      rw [h]; simpa using mNS b hb
    · obtain ⟨a, ha, rfl⟩ := List.mem_map.mp h
      simpa using mSS a (List.mem_filter.mp ha).1 b hb
  | full =>
    unfold specJoin at hrow
    rcases List.mem_append.mp hrow with hrow | hrow
    · obtain ⟨a, ha, h⟩ := List.mem_flatMap.mp hrow
      simpa using leftCase a ha h
    · obtain ⟨b, hb, rfl⟩ := List.mem_map.mp hrow
      simpa using mNS b (List.mem_filter.mp hb).1
  | semi =>
    unfold specJoin at hrow
    obtain ⟨a, ha, rfl⟩ := List.mem_map.mp hrow
    simpa using mSN a (List.mem_filter.mp ha).1 false
  | anti =>
    unfold specJoin at hrow
    obtain ⟨a, ha, rfl⟩ := List.mem_map.mp hrow
    simpa using mSN a (List.mem_filter.mp ha).1 false

end PysparklingVerif.Join
