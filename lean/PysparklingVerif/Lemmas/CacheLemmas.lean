/-
  Helper lemmas for C05 (persistence / cache manager model, Model/Cache.lean).
-/
import PysparklingVerif.Model.Cache
namespace PysparklingVerif.Cache

variable {α : Type}

/-! ### Store -/

theorem lookup_filter_bne (l : Store α) (k k' : Nat × Nat) :
    List.lookup k' (l.filter (·.1 != k)) = if k' = k then none else l.lookup k' := by
  induction l with
  | nil => simp
  | cons a t ih =>
    obtain ⟨a, b⟩ := a
    by_cases h : a = k
    · subst h
      by_cases h' : k' = a
      · subst h'; simp [ih]
      · have : (k' == a) = false := by simpa using h'
        simp [ih, List.lookup_cons, h', this]
    · have hb : (a != k) = true := by simpa using h
      by_cases h' : k' = a
      · subst h'; simp [hb, h]
      · have : (k' == a) = false := by simpa using h'
        simp [hb, List.lookup_cons, this, ih]

theorem Store.get_del (c : Store α) (k k' : Nat × Nat) :
    (c.del k).get k' = if k' = k then none else c.get k' :=
  lookup_filter_bne c k k'

theorem Store.get_del_self (c : Store α) (k : Nat × Nat) : (c.del k).get k = none := by
  simp [Store.get_del]

theorem Store.get_del_ne (c : Store α) {k k' : Nat × Nat} (h : k' ≠ k) :
    (c.del k).get k' = c.get k' := by
  simp [Store.get_del, h]

theorem Store.get_put (c : Store α) (k k' : Nat × Nat) (d : List α) :
    (c.put k d).get k' = if k' = k then some d else c.get k' := by
  unfold Store.put Store.get
  rw [List.lookup_append, lookup_filter_bne]
  by_cases h : k' = k
  · subst h; simp
  · have : (k' == k) = false := by simpa using h
    simp [h, List.lookup_cons, this]

theorem Store.get_put_self (c : Store α) (k : Nat × Nat) (d : List α) :
    (c.put k d).get k = some d := by
  simp [Store.get_put]

theorem Store.get_put_ne (c : Store α) {k k' : Nat × Nat} (d : List α) (h : k' ≠ k) :
    (c.put k d).get k' = c.get k' := by
  simp [Store.get_put, h]

/-- deleting a list of keys (given through a key function) -/
theorem get_foldl_del {β : Type} (g : β → Nat × Nat) (ks : List β) (c : Store α) (k : Nat × Nat) :
    (ks.foldl (fun c e => c.del (g e)) c).get k = if k ∈ ks.map g then none else c.get k := by
  induction ks generalizing c with
  | nil => simp
  | cons x t ih =>
    simp only [List.foldl_cons, ih, List.map_cons, List.mem_cons, Store.get_del]
    by_cases h1 : k ∈ t.map g
    · simp [h1]
    · by_cases h2 : k = g x <;> simp [h1, h2]

/-! ### compute / runAction equations -/

theorem compute_nil (src : List α) (i : Nat) (c : Store α) : compute src i [] c = (src, c, []) := rfl

theorem compute_op (src : List α) (i t : Nat) (f : List α → List α) (up : List (Stage α)) (c : Store α) :
    compute src i (.op t f :: up) c =
      (f (compute src i up c).1, (compute src i up c).2.1, (compute src i up c).2.2 ++ [⟨t, i⟩]) := rfl

theorem compute_persist_hit (src : List α) (i id : Nat) (up : List (Stage α)) (c : Store α) (d : List α)
    (h : c.get (id, i) = some d) :
    compute src i (.persist id :: up) c = (d, c, []) := by
  simp only [compute, h]

theorem compute_persist_miss (src : List α) (i id : Nat) (up : List (Stage α)) (c : Store α)
    (h : c.get (id, i) = none) :
    compute src i (.persist id :: up) c =
      ((compute src i up c).1, (compute src i up c).2.1.put (id, i) (compute src i up c).1,
        (compute src i up c).2.2) := by
  simp only [compute, h]

theorem runAction_nil (srcs : List (List α)) (stages : List (Stage α)) (c : Store α) :
    runAction srcs stages [] c = ([], c, []) := rfl

theorem runAction_cons (srcs : List (List α)) (stages : List (Stage α)) (i : Nat) (is : List Nat)
    (c : Store α) :
    runAction srcs stages (i :: is) c =
      ((compute (srcs.getD i []) i stages c).1 ::
          (runAction srcs stages is (compute (srcs.getD i []) i stages c).2.1).1,
        (runAction srcs stages is (compute (srcs.getD i []) i stages c).2.1).2.1,
        (compute (srcs.getD i []) i stages c).2.2 ++
          (runAction srcs stages is (compute (srcs.getD i []) i stages c).2.1).2.2) := rfl

/-! ### gc on the bare lists -/

theorem gc_lists (th : Int) (added : List ((Nat × Nat) × Nat)) (c : Store α)
    (hsorted : added.Pairwise (fun a b => a.2 ≤ b.2)) :
    let expired := added.takeWhile fun e => decide ((e.2 : Int) ≤ th)
    (∀ e ∈ added, (e.2 : Int) ≤ th → (expired.foldl (fun c e => c.del e.1) c).get e.1 = none) ∧
    (∀ e ∈ added.drop expired.length, th < (e.2 : Int)) ∧
    (∀ k, (∀ e ∈ added, e.1 ≠ k) → (expired.foldl (fun c e => c.del e.1) c).get k = c.get k) := by
  induction added generalizing c with
  | nil => simp
  | cons x t ih =>
    rw [List.pairwise_cons] at hsorted
    obtain ⟨hx, ht⟩ := hsorted
    by_cases hp : (x.2 : Int) ≤ th
    · have hpd : decide ((x.2 : Int) ≤ th) = true := by simpa using hp
      simp only [List.takeWhile_cons, hpd, if_true, List.foldl_cons, List.length_cons, List.drop_succ_cons]
      obtain ⟨ih1, ih2, ih3⟩ := ih (c.del x.1) ht
      refine ⟨?_, ih2, ?_⟩
      · intro e he hle
        rcases List.mem_cons.mp he with rfl | he
        · rw [get_foldl_del (fun e : (Nat × Nat) × Nat => e.1)]
          simp [Store.get_del_self]
        · exact ih1 e he hle
      · intro k hk
        rw [ih3 k (fun e he => hk e (List.mem_cons_of_mem _ he))]
        exact Store.get_del_ne c (Ne.symm (hk x (List.mem_cons_self ..)))
    · have hpd : decide ((x.2 : Int) ≤ th) = false := by simpa using hp
      simp only [List.takeWhile_cons, hpd]
      refine ⟨?_, ?_, fun _ _ => rfl⟩
      · intro e he hle
        exfalso
        rcases List.mem_cons.mp he with rfl | he
        · exact hp hle
        · have := hx e he
          omega
      · intro e he
        rcases List.mem_cons.mp he with rfl | he
        · omega
        · have := hx e he
          omega

end PysparklingVerif.Cache
