/-
  Model of task retry and the context lock (pysparkling/context.py: `_run_task`,
  `Context.runJob`, `_runJob_local`; `RDD.__init__`'s lock test). Core-only.

  A *fault plan* gives, per partition, the outcome of each successive attempt of computing
  it (the real harness makes an instrumented user function fail on demand). `runJob` is the
  REPAIRED program (lock released in a `finally`); `runJobBuggy` is the code as it was at the
  pinned commit, kept for the defect witness.
-/
namespace PysparklingVerif.Retry

/-- exception classes are opaque tags -/
abbrev Exc := Nat
def ctxLocked : Exc := 0     -- ContextIsLockedException

inductive Outcome (α : Type) where
  | ok (v : α)
  | fail (e : Exc)
  deriving Repr, DecidableEq

/-- result of one task: value or the exception that reaches the caller, with the number of attempts made -/
structure TaskRun (α : Type) where
  result : Except Exc α
  attempts : Nat

/-- `_run_task`: `attempt += 1; try: return f() except: if attempt == max_retries: raise`; recurse.
`outs` are the outcomes of successive attempts (each attempt recomputes the partition from its
source data, so an attempt's outcome does not depend on earlier attempts); `fuel` bounds the
recursion of the model (the real recursion is unbounded when `max_retries = 0`). -/
def runTask (maxRetries : Nat) (outs : Nat → Outcome α) : (fuel : Nat) → (attempt : Nat) → TaskRun α
  | 0, attempt => ⟨.error ctxLocked, attempt⟩      -- out of fuel: never reached when 1 ≤ maxRetries ≤ fuel
  | fuel + 1, attempt =>
    let attempt := attempt + 1
    match outs (attempt - 1) with
    | .ok v => ⟨.ok v, attempt⟩
    | .fail e => if attempt = maxRetries then ⟨.error e, attempt⟩ else runTask maxRetries outs fuel attempt

structure Ctx where
  locked : Bool
  deriving Repr, DecidableEq

/-- what a job returns to its caller -/
inductive JobResult (α : Type) where
  | done (vs : List α)
  | raised (e : Exc)
  | refused                      -- ContextIsLockedException from `runJob` / dataset construction
  deriving Repr, DecidableEq

/-- `_runJob_local` consumed by a whole-partition result handler: tasks run in partition order,
the first exhausted task aborts the job; returns the per-partition attempt counts made so far -/
def runTasks (maxRetries : Nat) : List (Nat → Outcome α) → Except Exc (List α) × List Nat
  | [] => (.ok [], [])
  | p :: ps =>
    let r := runTask maxRetries p maxRetries 0
    match r.result with
    | .error e => (.error e, [r.attempts])
    | .ok v =>
      let (rest, att) := runTasks maxRetries ps
      (rest.map (v :: ·), r.attempts :: att)

structure JobRun (α : Type) where
  ctx : Ctx
  result : JobResult α
  attempts : List Nat

/-- REPAIRED `Context.runJob`: refuse when locked, else lock, run, and release in `finally` -/
def runJob (c : Ctx) (maxRetries : Nat) (plan : List (Nat → Outcome α)) : JobRun α :=
  if c.locked then ⟨c, .refused, []⟩
  else
    let (r, att) := runTasks maxRetries plan
    match r with
    | .ok vs => ⟨{ locked := false }, .done vs, att⟩
    | .error e => ⟨{ locked := false }, .raised e, att⟩

/-- the pinned code: `self.locked = False` only after a successful result handler -/
def runJobBuggy (c : Ctx) (maxRetries : Nat) (plan : List (Nat → Outcome α)) : JobRun α :=
  if c.locked then ⟨c, .refused, []⟩
  else
    let (r, att) := runTasks maxRetries plan
    match r with
    | .ok vs => ⟨{ locked := false }, .done vs, att⟩
    | .error e => ⟨{ locked := true }, .raised e, att⟩

/-- creating a dataset (`RDD.__init__`) or starting a job from inside a running task: the
context is locked by the outer job, so the attempt is refused -/
def nestedAttempt (c : Ctx) (inner : Outcome α) : Outcome α :=
  if c.locked then .fail ctxLocked else inner

/-- a history of jobs on one context -/
def runHistory (c : Ctx) (maxRetries : Nat) : List (List (Nat → Outcome α)) → Ctx × List (JobResult α)
  | [] => (c, [])
  | j :: js =>
    let r := runJob c maxRetries j
    let (c', rs) := runHistory r.ctx maxRetries js
    (c', r.result :: rs)

/-- fault plan of a partition that fails its first `k` attempts with `e` and then yields `v` -/
def failsThenOk (k : Nat) (e : Exc) (v : α) : Nat → Outcome α :=
  fun i => if i < k then .fail e else .ok v

/-- fault plan of a partition that always fails, attempt `i` raising `e i` -/
def alwaysFails (e : Nat → Exc) : Nat → Outcome α := fun i => .fail (e i)

end PysparklingVerif.Retry
