/-
  `compute` / `runAction` of Model/Cache.lean over a TimedCacheManager: `add` stamps the entry with
  the current time and runs `gc` immediately (so an `add` can evict older entries in the middle of
  an action). `has`/`get` do not look at the clock. Core-only.
-/
import PysparklingVerif.Model.Cache
namespace PysparklingVerif.Cache

def computeT (now : Nat) (src : List α) (i : Nat) : List (Stage α) → Timed α → List α × Timed α × List Run
  | [], t => (src, t, [])
  | .op tag f :: up, t =>
    let (d, t', l) := computeT now src i up t
    (f d, t', l ++ [⟨tag, i⟩])
  | .persist id :: up, t =>
    match t.store.get (id, i) with
    | some d => (d, t, [])
    | none =>
      let (d, t', l) := computeT now src i up t
      (d, t'.add (id, i) d now, l)

def runActionT (now : Nat) (srcs : List (List α)) (stages : List (Stage α)) :
    List Nat → Timed α → List (List α) × Timed α × List Run
  | [], t => ([], t, [])
  | i :: is, t =>
    let (d, t', l) := computeT now (srcs.getD i []) i stages t
    let (ds, t'', l') := runActionT now srcs stages is t'
    (d :: ds, t'', l ++ l')

/-- `unpersist` on a timed manager: the store entries go, the stale time stamps stay (as in the code) -/
def Timed.unpersist (id n : Nat) (t : Timed α) : Timed α := { t with store := Cache.unpersist id n t.store }

end PysparklingVerif.Cache
