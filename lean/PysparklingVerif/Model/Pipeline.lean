/-
  Deep embedding of RDD pipelines over one element type `α` (the driver instantiates
  `α := Val`; the theorems quantify over arbitrary functions inside the constructors),
  and the plain-list semantics they are compared with (the SPEC of C01). Core-only.
-/
import PysparklingVerif.Model.Rdd
namespace PysparklingVerif.Rdd

inductive Op (α : Type) where
  | map (f : α → α)
  | filter (p : α → Bool)
  | flatMap (f : α → List α)
  | mapPartitions (g : List α → List α)
  | glom (wrap : List α → α)                       -- elements become (wrapped) lists
  | union (other : Parts α)
  | zip (other : Parts α) (pair : α → α → α)
  | zipWithIndex (pair : α → Nat → α)
  | sortBy (key : α → α) (le : α → α → Bool) (asc : Bool) (m : Option Nat)
  | coalesce (m : Nat)
  | repartition (m : Nat)

/-- what the implementation computes, on partitions -/
def Op.run : Op α → Parts α → Parts α
  | .map f, ps => Rdd.map f ps
  | .filter p, ps => Rdd.filter p ps
  | .flatMap f, ps => Rdd.flatMap f ps
  | .mapPartitions g, ps => Rdd.mapPartitions g ps
  | .glom wrap, ps => Rdd.map wrap (Rdd.glom ps)
  | .union o, ps => Rdd.union ps o
  | .zip o pair, ps => Rdd.map (fun ab => pair ab.1 ab.2) (Rdd.zip ps o)
  | .zipWithIndex pair, ps => Rdd.map (fun ai => pair ai.1 ai.2) (Rdd.zipWithIndex ps)
  | .sortBy key le asc m, ps => Rdd.sortBy key le asc m ps
  | .coalesce m, ps => Rdd.coalesce m ps
  | .repartition m, ps => Rdd.repartition m ps

/-- SPEC: the same operation on a plain Python list -/
def Op.runList : Op α → List α → List α
  | .map f, xs => xs.map f
  | .filter p, xs => xs.filter p
  | .flatMap f, xs => xs.flatMap f
  | .mapPartitions g, xs => g xs
  | .glom wrap, xs => [wrap xs]
  | .union o, xs => xs ++ flat o
  | .zip o pair, xs => (List.zip xs (flat o)).map (fun ab => pair ab.1 ab.2)
  | .zipWithIndex pair, xs => xs.zipIdx.map (fun ai => pair ai.1 ai.2)
  | .sortBy key le asc _, xs => pySorted key le asc xs
  | .coalesce _, xs => xs
  | .repartition _, xs => xs

def runAll (ops : List (Op α)) (ps : Parts α) : Parts α := ops.foldl (fun ps op => op.run ps) ps
def runListAll (ops : List (Op α)) (xs : List α) : List α := ops.foldl (fun xs op => op.runList xs) xs

/-- ops whose list semantics do not depend on the partitioning: everything except `glom`
and `mapPartitions g` with a `g` that is not a list homomorphism; `coalesce` needs `1 ≤ m`. -/
def Op.Indep : Op α → Prop
  | .mapPartitions g => ∀ a b, g (a ++ b) = g a ++ g b
  | .glom _ => False
  | .coalesce m => 1 ≤ m
  | _ => True

end PysparklingVerif.Rdd
