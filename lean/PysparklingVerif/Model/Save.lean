/-
  Model of saveAsTextFile as a state machine over a tiny file system, with injected write
  faults and failing partition computations (pysparkling/rdd.py saveAsTextFile, retry through
  context._run_task, fileio/fs/local.py exists/dump), and of reading a saved directory back
  (context.textFile over the resolved part files). Core-only.
-/
import PysparklingVerif.Model.TextIO
namespace PysparklingVerif.Save
open PysparklingVerif.TextIO

structure FileC where
  codec : Codec        -- codec the writer selected from the file name
  text : Str
  deriving DecidableEq, Repr

structure FS where
  files : List (Str × FileC)
  dirs : List Str        -- (possibly empty) directories
  deriving DecidableEq, Repr

def isUnder (dir p : Str) : Bool := (dir ++ ['/']).isPrefixOf p

/-- `os.path.exists(path)`: a file, an explicit directory, or a directory implied by a file below it -/
def FS.pathExists (fs : FS) (path : Str) : Bool :=
  fs.files.any (fun e => e.1 == path || isUnder path e.1) || fs.dirs.any (fun d => d == path || isUnder path d)

def FS.read (fs : FS) (name : Str) : Option FileC := fs.files.lookup name

/-- `Local.dump`: create/overwrite the file (parent directories come into being with it) -/
def FS.write (fs : FS) (name : Str) (c : FileC) : FS :=
  { fs with files := (fs.files.filter (·.1 != name)) ++ [(name, c)] }

inductive SaveResult where
  | ok
  | alreadyExists      -- FileAlreadyExistsException
  | failed             -- the task's / the write's exception reached the caller
  deriving DecidableEq, Repr

structure St where
  fs : FS
  w : Nat               -- number of file-write attempts so far (global sequence number)

/-- one `dump`: the fault plan says whether write attempt number `st.w` fails (nothing is written then) -/
def tryWrite (wfail : Nat → Bool) (st : St) (name : Str) (text : Str) : St × Bool :=
  if wfail st.w then ({ st with w := st.w + 1 }, false)
  else ({ fs := st.fs.write name ⟨getCodec name, text⟩, w := st.w + 1 }, true)

/-- one partition task under `_run_task`: up to `maxR` attempts of (compute, dump) -/
def savePart (maxR : Nat) (wfail : Nat → Bool) (cfail : Nat → Bool) (name : Str) (text : Str) :
    (fuel : Nat) → (attempt : Nat) → St → St × Bool
  | 0, _, st => (st, false)
  | fuel + 1, attempt, st =>
    let attempt := attempt + 1
    if cfail (attempt - 1) then
      if attempt = maxR then (st, false) else savePart maxR wfail cfail name text fuel attempt st
    else
      let (st', ok) := tryWrite wfail st name text
      if ok then (st', true)
      else if attempt = maxR then (st', false) else savePart maxR wfail cfail name text fuel attempt st'

def joinPath (dir name : Str) : Str := dir ++ ['/'] ++ name
def marker : Str := "_SUCCESS".toList

/-- partitions `i, i+1, …` in order; stops at the first exhausted one (local executor) -/
def saveParts (maxR : Nat) (wfail : Nat → Bool) (cfail : Nat → Nat → Bool) (path suffix : Str) :
    List (List Str) → Nat → St → St × Bool
  | [], _, st => (st, true)
  | p :: ps, i, st =>
    let (st', ok) := savePart maxR wfail (cfail i) (joinPath path (partName i suffix)) (encodePart p) maxR 0 st
    if ok then saveParts maxR wfail cfail path suffix ps (i + 1) st' else (st', false)

/-- does computing partition 0 for the single-file fast path succeed within `maxR` attempts? -/
def computeOk (maxR : Nat) (cfail : Nat → Bool) : Bool := (List.range maxR).any fun a => !cfail a

/-- `saveAsTextFile(path)` on partitions `parts` (`parts.length ≥ 1`) -/
def saveText (fs : FS) (path : Str) (parts : List (List Str)) (maxR : Nat)
    (wfail : Nat → Bool) (cfail : Nat → Nat → Bool) : FS × SaveResult :=
  if fs.pathExists path then (fs, .alreadyExists)
  else match parts with
    | [p] =>
      -- single partition: collect (retried), then ONE plain file, written by the driver; no marker
      if computeOk maxR (cfail 0) then
        let (st, ok) := tryWrite wfail ⟨fs, 0⟩ path (encodePart p)
        (st.fs, if ok then .ok else .failed)
      else (fs, .failed)
    | _ =>
      let (st, ok) := saveParts maxR wfail cfail path (codecSuffix path) parts 0 ⟨fs, 0⟩
      if ok then
        let (st', ok') := tryWrite wfail st (joinPath path marker) []
        (st'.fs, if ok' then .ok else .failed)
      else (st.fs, .failed)


/-! ### torn writes

A write can also fail AFTER the file has been created (disk full in the middle of `dump`): the part file then exists
with part of its content. `torn k` says that failing write attempt number `k` leaves such a file behind (here: the
first half of the text, a decodable file); with `torn = fun _ => false` this is `saveText`. -/

def tryWriteT (wfail torn : Nat → Bool) (st : St) (name : Str) (text : Str) : St × Bool :=
  if wfail st.w then
    ({ fs := if torn st.w then st.fs.write name ⟨getCodec name, text.take (text.length / 2)⟩ else st.fs, w := st.w + 1 }, false)
  else ({ fs := st.fs.write name ⟨getCodec name, text⟩, w := st.w + 1 }, true)

def savePartT (maxR : Nat) (wfail torn : Nat → Bool) (cfail : Nat → Bool) (name : Str) (text : Str) :
    (fuel : Nat) → (attempt : Nat) → St → St × Bool
  | 0, _, st => (st, false)
  | fuel + 1, attempt, st =>
    let attempt := attempt + 1
    if cfail (attempt - 1) then
      if attempt = maxR then (st, false) else savePartT maxR wfail torn cfail name text fuel attempt st
    else
      let (st', ok) := tryWriteT wfail torn st name text
      if ok then (st', true)
      else if attempt = maxR then (st', false) else savePartT maxR wfail torn cfail name text fuel attempt st'

def savePartsT (maxR : Nat) (wfail torn : Nat → Bool) (cfail : Nat → Nat → Bool) (path suffix : Str) :
    List (List Str) → Nat → St → St × Bool
  | [], _, st => (st, true)
  | p :: ps, i, st =>
    let (st', ok) := savePartT maxR wfail torn (cfail i) (joinPath path (partName i suffix)) (encodePart p) maxR 0 st
    if ok then savePartsT maxR wfail torn cfail path suffix ps (i + 1) st' else (st', false)

/-- `saveAsTextFile(path)` under a fault plan with torn writes -/
def saveTextT (fs : FS) (path : Str) (parts : List (List Str)) (maxR : Nat)
    (wfail torn : Nat → Bool) (cfail : Nat → Nat → Bool) : FS × SaveResult :=
  if fs.pathExists path then (fs, .alreadyExists)
  else match parts with
    | [p] =>
      if computeOk maxR (cfail 0) then
        let (st, ok) := tryWriteT wfail torn ⟨fs, 0⟩ path (encodePart p)
        (st.fs, if ok then .ok else .failed)
      else (fs, .failed)
    | _ =>
      let (st, ok) := savePartsT maxR wfail torn cfail path (codecSuffix path) parts 0 ⟨fs, 0⟩
      if ok then
        let (st', ok') := tryWriteT wfail torn st (joinPath path marker) []
        (st'.fs, if ok' then .ok else .failed)
      else (st.fs, .failed)

/-! ### reading a directory back -/

def strLe : Str → Str → Bool
  | [], _ => true
  | _ :: _, [] => false
  | a :: as, b :: bs => if a = b then strLe as bs else a.toNat < b.toNat

/-- the files `textFile(dir)` resolves for a saved directory: `dir/part*`, sorted by path -/
def partFiles (fs : FS) (dir : Str) : List (Str × FileC) :=
  (fs.files.filter fun e => (joinPath dir "part".toList).isPrefixOf e.1).mergeSort fun a b => strLe a.1 b.1

/-- `textFile(dir).collect()`: every resolved file decoded with the codec its NAME selects; `none`
if some file was written with a different codec than its name declares -/
def readDir (fs : FS) (dir : Str) : Option (List Str) :=
  (partFiles fs dir).foldr (fun e acc =>
    match acc with
    | none => none
    | some ls => if getCodec e.1 = e.2.codec then some (splitlines e.2.text ++ ls) else none) (some [])

end PysparklingVerif.Save
