/-
  Values that flow through RDD-level models, and their JSON wire format.
  Core-only (no Mathlib): this file is in the import closure of the native driver.
-/
import Lean.Data.Json
open Lean

namespace PysparklingVerif

/-- Python values of the small domain the correspondence campaigns draw from.
`tup` is a (hashable) tuple, `lst` a (non-hashable) list. -/
inductive Val where
  | none
  | bool (b : Bool)
  | int (i : Int)
  | str (s : String)
  | tup (xs : List Val)
  | lst (xs : List Val)
  deriving Repr, Inhabited

namespace Val

mutual
/-- Decidable equality, written out by hand: `deriving DecidableEq` does not handle the
nesting through `List`. -/
def decEq : (a b : Val) → Decidable (a = b)
  | .none, .none => isTrue rfl
  | .bool a, .bool b => if h : a = b then isTrue (by rw [h]) else isFalse (by intro e; cases e; exact h rfl)
  | .int a, .int b => if h : a = b then isTrue (by rw [h]) else isFalse (by intro e; cases e; exact h rfl)
  | .str a, .str b => if h : a = b then isTrue (by rw [h]) else isFalse (by intro e; cases e; exact h rfl)
  | .tup a, .tup b =>
      match decEqList a b with
      | isTrue h => isTrue (by rw [h])
      | isFalse h => isFalse (by intro e; cases e; exact h rfl)
  | .lst a, .lst b =>
      match decEqList a b with
      | isTrue h => isTrue (by rw [h])
      | isFalse h => isFalse (by intro e; cases e; exact h rfl)
  | .none, .bool _ | .none, .int _ | .none, .str _ | .none, .tup _ | .none, .lst _
  | .bool _, .none | .bool _, .int _ | .bool _, .str _ | .bool _, .tup _ | .bool _, .lst _
  | .int _, .none | .int _, .bool _ | .int _, .str _ | .int _, .tup _ | .int _, .lst _
  | .str _, .none | .str _, .bool _ | .str _, .int _ | .str _, .tup _ | .str _, .lst _
  | .tup _, .none | .tup _, .bool _ | .tup _, .int _ | .tup _, .str _ | .tup _, .lst _
  | .lst _, .none | .lst _, .bool _ | .lst _, .int _ | .lst _, .str _ | .lst _, .tup _ =>
      isFalse (by intro e; cases e)
def decEqList : (a b : List Val) → Decidable (a = b)
  | [], [] => isTrue rfl
  | [], _ :: _ | _ :: _, [] => isFalse (by intro e; cases e)
  | x :: xs, y :: ys =>
      match decEq x y, decEqList xs ys with
      | isTrue h, isTrue h' => isTrue (by rw [h, h'])
      | isFalse h, _ => isFalse (by intro e; cases e; exact h rfl)
      | _, isFalse h => isFalse (by intro e; cases e; exact h rfl)
end

instance : DecidableEq Val := decEq

partial def toJson : Val → Json
  | .none => Json.null
  | .bool b => Json.bool b
  | .int i => Json.num (JsonNumber.fromInt i)
  | .str s => Json.str s
  | .tup xs => Json.mkObj [("t", Json.arr (xs.map toJson).toArray)]
  | .lst xs => Json.arr (xs.map toJson).toArray

partial def ofJson : Json → Except String Val
  | .null => .ok .none
  | .bool b => .ok (.bool b)
  | .num n => if n.exponent == 0 then .ok (.int n.mantissa) else .error "non-integer number"
  | .str s => .ok (.str s)
  | .arr a => do
      let xs ← a.toList.mapM ofJson
      return .lst xs
  | .obj o =>
      match o.get? "t" with
      | some (.arr a) => do
          let xs ← a.toList.mapM ofJson
          return .tup xs
      | _ => .error "bad object"

end Val

instance : ToJson Val := ⟨Val.toJson⟩
instance : FromJson Val := ⟨Val.ofJson⟩

end PysparklingVerif
