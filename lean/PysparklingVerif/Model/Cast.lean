/-
  Model of pysparkling/sql/casts.py (the part property C18 is about).
  Core-only.  Strings are `List Char`; the driver converts at the boundary.

  Python facts mirrored explicitly:
  * `%` on ints is floor-mod (`Int.fmod`), also for a negative divisor;
  * `int(x)` on a float truncates toward zero (`Int.tdiv num den` on the exact rational);
  * `int(s)` on a string accepts surrounding whitespace, one optional sign, ASCII digits
    (underscores and non-ASCII digits are outside the modelled alphabet);
  * `str.strip()` (no argument) strips whitespace on both sides, `split(c)[0]` is the prefix
    before the first `c`.
-/
namespace PysparklingVerif.Cast

/-- Python's `%` on ints. -/
def pymod (a b : Int) : Int := Int.fmod a b

/-- numeric branch of `_cast_to_bounded_type`:
`value % size if value % size <= max_value else value % -size`. -/
def castBounded (minV maxV v : Int) : Int :=
  let size := maxV - minV + 1
  if pymod v size ≤ maxV then pymod v size else pymod v (-size)

inductive Width | byte | short | int | long
  deriving DecidableEq, Repr

def Width.bits : Width → Nat
  | .byte => 8 | .short => 16 | .int => 32 | .long => 64

/-- the `(min_value, max_value)` pairs of `cast_to_byte/short/int/long`. -/
def Width.minV : Width → Int
  | .byte => -128 | .short => -32768 | .int => -2147483648 | .long => -9223372036854775808
def Width.maxV : Width → Int
  | .byte => 127 | .short => 32767 | .int => 2147483647 | .long => 9223372036854775807

def castIntTo (w : Width) (v : Int) : Int := castBounded w.minV w.maxV v

/-- `int(value)` for a finite float whose exact value is `num/den` (`den > 0`). -/
def truncQ (num : Int) (den : Nat) : Int := Int.tdiv num den

def castFloatTo (w : Width) (num : Int) (den : Nat) : Int := castIntTo w (truncQ num den)

def castBoolTo (w : Width) (b : Bool) : Int := castIntTo w (if b then 1 else 0)

/-- SPEC: two's-complement wrap-around into `w` bits. -/
def wrap (bits : Nat) (v : Int) : Int := (BitVec.ofInt bits v).toInt

/-! ### strings -/

def isWs (c : Char) : Bool :=
  c = ' ' || c = '\t' || c = '\n' || c = '\r' || c = '\x0b' || c = '\x0c'

def lstrip (s : List Char) : List Char := s.dropWhile isWs
def rstrip (s : List Char) : List Char := (s.reverse.dropWhile isWs).reverse
def strip (s : List Char) : List Char := rstrip (lstrip s)

def digitVal (c : Char) : Option Nat :=
  if '0' ≤ c ∧ c ≤ '9' then some (c.toNat - 48) else none

def parseDigits : List Char → Nat → Option Nat
  | [], acc => some acc
  | c :: cs, acc => match digitVal c with
    | some d => parseDigits cs (acc * 10 + d)
    | none => none

/-- non-empty run of ASCII digits -/
def parseNat (s : List Char) : Option Nat :=
  match s with
  | [] => none
  | _ => parseDigits s 0

/-- Python `int(s)` on the modelled alphabet; `none` = `ValueError`. -/
def parseInt (s : List Char) : Option Int :=
  match strip s with
  | '-' :: ds => (parseNat ds).map (fun n => -(n : Int))
  | '+' :: ds => (parseNat ds).map (fun n => (n : Int))
  | ds => (parseNat ds).map (fun n => (n : Int))

/-- string branch of `_cast_to_bounded_type`: outer `none` = `ValueError` (malformed, the
property says nothing), `some none` = null. -/
def castStrTo (w : Width) (s : List Char) : Option (Option Int) :=
  match s with
  | [] => some none
  | _ => match parseInt s with
    | none => none
    | some v => some (if w.minV ≤ v ∧ v ≤ w.maxV then some v else none)

def digitChar (d : Nat) : Char := Char.ofNat (48 + d)

/-- decimal digits of a natural number, most significant first (Python `str(n)`). -/
def renderNat (n : Nat) : List Char :=
  if _h : n < 10 then [digitChar n] else renderNat (n / 10) ++ [digitChar (n % 10)]
termination_by n
decreasing_by omega

/-- Python `str(i)` -/
def renderInt : Int → List Char
  | .ofNat n => renderNat n
  | .negSucc n => '-' :: renderNat (n + 1)

def lower (s : List Char) : List Char := s.map Char.toLower

/-- `cast_to_boolean` from a string -/
def castStrBool (s : List Char) : Option Bool :=
  if lower s = "true".toList then some true
  else if lower s = "false".toList then some false
  else none

/-- `cast_to_string` of a boolean: `str(value).lower()` -/
def renderBool (b : Bool) : List Char := if b then "true".toList else "false".toList

/-! ### dates -/

def isLeap (y : Nat) : Bool := (y % 4 = 0 && y % 100 ≠ 0) || y % 400 = 0

def daysInMonth (y m : Nat) : Nat :=
  match m with
  | 1 | 3 | 5 | 7 | 8 | 10 | 12 => 31
  | 4 | 6 | 9 | 11 => 30
  | 2 => if isLeap y then 29 else 28
  | _ => 0

/-- `datetime.date(y, m, d)` succeeds -/
def validDate (y m d : Int) : Bool :=
  1 ≤ y && y ≤ 9999 && 1 ≤ m && m ≤ 12 && 1 ≤ d && d ≤ (daysInMonth y.toNat m.toNat : Int)

/-- `s.split(c)` -/
def splitOn (c : Char) : List Char → List (List Char)
  | [] => [[]]
  | x :: xs =>
    if x = c then [] :: splitOn c xs
    else match splitOn c xs with
      | [] => [[x]]   -- unreachable: splitOn never returns []
      | p :: ps => (x :: p) :: ps

/-- `cast_to_date` on a string; `none` = null. -/
def castStrDate (s : List Char) : Option (Int × Int × Int) :=
  let s1 := if ' ' ∈ s then (strip s).takeWhile (· ≠ ' ') else s
  let s2 := if 'T' ∈ s1 then s1.takeWhile (· ≠ 'T') else s1
  let comps := splitOn '-' s2
  match comps with
  | [y] =>
    if y.length ≠ 4 then none else
    match parseInt y with
    | some yv => if validDate yv 1 1 then some (yv, 1, 1) else none
    | none => none
  | [y, m] =>
    if y.length ≠ 4 then none else
    match parseInt y, parseInt m with
    | some yv, some mv => if validDate yv mv 1 then some (yv, mv, 1) else none
    | _, _ => none
  | [y, m, d] =>
    if y.length ≠ 4 then none else
    match parseInt y, parseInt m, parseInt d with
    | some yv, some mv, some dv => if validDate yv mv dv then some (yv, mv, dv) else none
    | _, _, _ => none
  | _ => none

/-! ### dispatch (`get_caster`) on the null / same-type clauses -/

/-- the atomic types, binary, a decimal, and two arrays / maps / structs each that differ in their element type
(`arrayL` = `array<bigint>`, `arrayS` = `array<string>`, `mapL` = `map<string,bigint>`, … `structS` = `struct<a:string>`) -/
inductive Ty | null | string | boolean | byte | short | int | long | float | double | date | timestamp
  | binary | decimal | arrayL | arrayS | mapL | mapS | structL | structS
  deriving DecidableEq, Repr

def Ty.isArray : Ty → Bool | .arrayL | .arrayS => true | _ => false
def Ty.isMap : Ty → Bool | .mapL | .mapS => true | _ => false
def Ty.isStruct : Ty → Bool | .structL | .structS => true | _ => false

/-- the pairs `get_caster(from, to)` accepts for a null (for the others calling the caster raises AnalysisException or
NotImplementedError whatever the value): the same type; from NullType to every type; to binary only from string; to an array / map / struct only from
an array / map / struct; to every other type from every type -/
def castable (from_ to : Ty) : Bool :=
  from_ == to || from_ == .null ||        -- (a column of NullType casts to every type: REPAIRED for binary / array / map / struct)
  match to with
  | .binary => from_ == .string
  | .arrayL | .arrayS => from_.isArray
  | .mapL | .mapS => from_.isMap
  | .structL | .structS => from_.isStruct
  | _ => true

/-- What `get_caster(from, to)(None)` returns: `none` = the pair is refused, `some none` = Python `None`,
`some (some s)` = the string `s`. Mirrors the code *as it is*: `cast_to_string(None)` is
the literal `"null"` (known finding, pinned by the repository's own test-suite). -/
def castNull (from_ to : Ty) : Option (Option String) :=
  if from_ = to then some none            -- identity
  else if !castable from_ to then none    -- refused
  else match to with
    | .string => some (some "null")
    | _ => some none

end PysparklingVerif.Cast
