/-
  Model of the RDD core (pysparkling/rdd.py, context.py: parallelize / runJob result handlers).
  A dataset is its list of partitions; every function mirrors what the Python does
  (driver-local operations really do collect and re-parallelize). Core-only.
-/
namespace PysparklingVerif.Rdd

abbrev Parts (α : Type) := List (List α)

/-- `collect()` : `unit_collect` concatenates the partitions in order -/
def flat (ps : Parts α) : List α := ps.flatten

/-! ### Context.parallelize -/

/-- `int(i * len_x / numSlices)`. Python divides as floats and truncates; for
`i * len_x < 2^53` this is the floor (stated assumption, see DESIGN.md C07). -/
def bound (i len n : Nat) : Nat := i * len / n

/-- number of elements `islice` is asked for in iteration `i` (`end += 1` on the last slice) -/
def sliceSize (len n i : Nat) : Nat :=
  bound (i + 1) len n - bound i len n + (if i + 1 = n then 1 else 0)

/-- successive `itertools.islice(x, k)` on one shared iterator -/
def consume : List Nat → List α → Parts α
  | [], _ => []
  | k :: ks, rest => rest.take k :: consume ks (rest.drop k)

def parallelize (xs : List α) (n : Nat) : Parts α :=
  if n ≤ 1 then [xs] else consume ((List.range n).map (sliceSize xs.length n)) xs

/-! ### narrow (per-partition) transformations: `MapPartitionsRDD` -/

def map (f : α → β) (ps : Parts α) : Parts β := ps.map (List.map f)
def filter (p : α → Bool) (ps : Parts α) : Parts α := ps.map (List.filter p)
def flatMap (f : α → List β) (ps : Parts α) : Parts β := ps.map (List.flatMap f)
def mapPartitions (g : List α → List β) (ps : Parts α) : Parts β := ps.map g
def mapPartitionsWithIndex (g : Nat → List α → List β) (ps : Parts α) : Parts β :=
  ps.zipIdx.map (fun (p, i) => g i p)
def glom (ps : Parts α) : Parts (List α) := ps.map (fun p => [p])
def mapValues (f : ν → ν') (ps : Parts (κ × ν)) : Parts (κ × ν') := map (fun kv => (kv.1, f kv.2)) ps
def flatMapValues (f : ν → List ν') (ps : Parts (κ × ν)) : Parts (κ × ν') :=
  flatMap (fun kv => (f kv.2).map (fun e => (kv.1, e))) ps
def keyBy (f : α → κ) (ps : Parts α) : Parts (κ × α) := map (fun e => (f e, e)) ps
def keys (ps : Parts (κ × ν)) : Parts κ := map (·.1) ps
def values (ps : Parts (κ × ν)) : Parts ν := map (·.2) ps

/-- `zipWithUniqueId`: the k-th element of partition i gets `k * n + i` -/
def zipWithUniqueId (ps : Parts α) : Parts (α × Nat) :=
  ps.zipIdx.map (fun (p, i) => p.zipIdx.map (fun (x, k) => (x, k * ps.length + i)))

/-! ### driver-local transformations -/

/-- `Context.union((a, b))` : one partition holding both collects -/
def union (a b : Parts α) : Parts α := [flat a ++ flat b]
def zip (a : Parts α) (b : Parts β) : Parts (α × β) := [List.zip (flat a) (flat b)]
def zipWithIndex (ps : Parts α) : Parts (α × Nat) := [(flat ps).zipIdx]

/-- Python `sorted(xs, key=key, reverse=not ascending)` — stable in both directions -/
def pySorted (key : α → κ) (le : κ → κ → Bool) (asc : Bool) (xs : List α) : List α :=
  if asc then xs.mergeSort (fun a b => le (key a) (key b))
  else xs.mergeSort (fun a b => le (key b) (key a))

/-- `sortBy(keyfunc, ascending, numPartitions)` (`numPartitions=None` ↦ current count) -/
def sortBy (key : α → κ) (le : κ → κ → Bool) (asc : Bool) (m : Option Nat) (ps : Parts α) : Parts α :=
  parallelize (pySorted key le asc (flat ps)) (m.getD ps.length)

/-- `partition_mapping` of `RDD.coalesce` -/
def coalesceMapping (cur m : Nat) : List Nat :=
  let new := min m cur
  let small := cur / new
  let big := small + 1
  let nbig := cur % new
  let nsmall := new - nbig
  ((List.range nbig).flatMap fun p => List.replicate big p) ++
  ((List.range' nbig nsmall).flatMap fun p => List.replicate small p)

/-- `coalesce(m)` without shuffle: `new_partitions[mapping[idx]] += partition`, in partition order.
(`m = 0` raises ZeroDivisionError in the code; callers guard `1 ≤ m`.) -/
def coalesce (m : Nat) (ps : Parts α) : Parts α :=
  let mp := coalesceMapping ps.length m
  (List.range (min m ps.length)).map fun j =>
    ((mp.zip ps).filter (fun e => e.1 == j)).flatMap (·.2)

/-- `repartition(m)` = `coalesce(m, shuffle=True)` = `parallelize(toLocalIterator(), m)` -/
def repartition (m : Nat) (ps : Parts α) : Parts α := parallelize (flat ps) m

/-- `partitionBy(n, f)` : pair goes to list `f(key) % n`, appended in iteration order -/
def partitionBy (n : Nat) (f : κ → Nat) (ps : Parts (κ × ν)) : Parts (κ × ν) :=
  (List.range n).map fun j => (flat ps).filter (fun kv => f kv.1 % n == j)

/-! ### actions -/

def collect (ps : Parts α) : List α := flat ps
def count (ps : Parts α) : Nat := (ps.map List.length).sum
def take (n : Nat) (ps : Parts α) : List α := (flat ps).take n
def first (ps : Parts α) : Option α := (flat ps).head?
def toLocalIterator (ps : Parts α) : List α := flat ps
def sumInt (ps : Parts Int) : Int := (ps.map List.sum).sum

/-- `functools.reduce(f_without_empty, values, _empty)` : `none` is the `_empty` sentinel -/
def reducer (f : α → α → α) (xs : List (Option α)) : Option α :=
  xs.foldl (fun a b => match a, b with
    | none, b => b
    | a, none => a
    | some a, some b => some (f a b)) none

/-- `reduce(f)`; `none` = `ValueError('Can not reduce() empty RDD')` -/
def reduce (f : α → α → α) (ps : Parts α) : Option α :=
  reducer f (ps.map fun p => reducer f (p.map some))

/-- `aggregate(zero, seqOp, combOp)` : a fresh copy of `zero` per partition and one for the combine -/
def aggregate (z : β) (seq : β → α → β) (comb : β → β → β) (ps : Parts α) : β :=
  (ps.map fun p => p.foldl seq z).foldl comb z

def fold (z : α) (op : α → α → α) (ps : Parts α) : α := aggregate z op op ps

/-- insertion-ordered counting dict (`defaultdict(int)`), as an association list -/
def countInto [DecidableEq α] (acc : List (α × Nat)) (x : α) (c : Nat) : List (α × Nat) :=
  if acc.any (·.1 == x) then acc.map (fun e => if e.1 == x then (e.1, e.2 + c) else e)
  else acc ++ [(x, c)]

/-- `countByValue` : per-partition dicts merged by `sum_counts_by_keys` -/
def countByValue [DecidableEq α] (ps : Parts α) : List (α × Nat) :=
  let per := ps.map fun p => p.foldl (fun acc x => countInto acc x 1) []
  per.foldl (fun acc d => d.foldl (fun acc e => countInto acc e.1 e.2) acc) []

def top (key : α → κ) (le : κ → κ → Bool) (n : Nat) (ps : Parts α) : List α :=
  take n (sortBy key le false none ps)
def takeOrdered (key : α → κ) (le : κ → κ → Bool) (n : Nat) (ps : Parts α) : List α :=
  take n (sortBy key le true none ps)

/-- `lookup(key)` = `filter(k == key).values().collect()` -/
def lookup [DecidableEq κ] (k : κ) (ps : Parts (κ × ν)) : List ν :=
  collect (values (filter (fun kv => kv.1 == k) ps))

/-- `dict(pairs)` : insertion order of first occurrence, last value wins -/
def pyDict [DecidableEq κ] (kvs : List (κ × ν)) : List (κ × ν) :=
  kvs.foldl (fun acc kv =>
    if acc.any (·.1 == kv.1) then acc.map (fun e => if e.1 == kv.1 then (e.1, kv.2) else e)
    else acc ++ [kv]) []

def collectAsMap [DecidableEq κ] (ps : Parts (κ × ν)) : List (κ × ν) := pyDict (collect ps)

end PysparklingVerif.Rdd
