/-
  Model of saving / re-reading text data (pysparkling/rdd.py saveAsTextFile, context.py
  textFile / binaryRecords chunkers, fileio/codec/__init__.py get_codec). Strings are
  `List Char`. The compression codecs, UTF-8 and pickle are NOT modelled: a file's content is
  recorded as (codec used to write it, text), and reading succeeds iff the codec chosen from
  the file NAME on the read path is the one that wrote it (round-trip of the stdlib codecs is
  a trusted runtime fact exercised by the correspondence run). Core-only.
-/
namespace PysparklingVerif.TextIO

abbrev Str := List Char

/-! ### line encoding -/

/-- the code points `str.splitlines()` splits on -/
def isLineBreak (c : Char) : Bool :=
  c = '\n' || c = '\r' || c = '\x0b' || c = '\x0c' || c = '\x1c' || c = '\x1d' || c = '\x1e' ||
  c = '\x85' || c = ' ' || c = ' '

/-- `to_stringio`: `for line in data: write(f'{line}\n')` -/
def encodePart (ls : List Str) : Str := ls.flatMap fun l => l ++ ['\n']

/-- `str.splitlines()`: split at every line break (`\r\n` counts once), no trailing empty line -/
def splitlinesAux : Str → Str → List Str
  | [], cur => if cur.isEmpty then [] else [cur.reverse]
  | '\r' :: '\n' :: rest, cur => cur.reverse :: splitlinesAux rest []
  | c :: rest, cur =>
    if isLineBreak c then cur.reverse :: splitlinesAux rest [] else splitlinesAux rest (c :: cur)

def splitlines (s : Str) : List Str := splitlinesAux s []

/-! ### codecs by file name -/

inductive Codec where
  | base      -- `Codec` : path without extension
  | noCodec   -- extension present but unknown
  | tar | targz | tarbz2 | gz | zip | bz2 | lzma | sevenz
  deriving DecidableEq, Repr

/-- `FILE_ENDINGS`, in order -/
def fileEndings : List (List Str × Codec) :=
  [([".tar".toList], .tar), ([".tar.gz".toList], .targz), ([".tar.bz2".toList], .tarbz2),
   ([".gz".toList], .gz), ([".zip".toList], .zip), ([".bz2".toList], .bz2),
   ([".lzma".toList, ".xz".toList], .lzma), ([".7z".toList], .sevenz)]

def endsWith (s suf : Str) : Bool := suf.reverse.isPrefixOf s.reverse

/-- index of the last occurrence of `c`, Python `str.rfind` (`none` = -1) -/
def rfind (s : Str) (c : Char) : Option Nat :=
  let r := s.reverse
  match r.findIdx? (· = c) with
  | some i => some (s.length - 1 - i)
  | none => none

/-- `get_codec(path)` -/
def getCodec (path : Str) : Codec :=
  match rfind path '.' with
  | none => .base
  | some d =>
    match rfind path '/' with
    | some sl => if sl > d then .base else pick
    | none => pick
where
  pick : Codec :=
    match fileEndings.find? (fun e => e.1.any (endsWith path ·)) with
    | some e => e.2
    | none => .noCodec

/-- REPAIRED suffix computation of saveAsTextFile / saveAsPickleFile:
`path[path.rfind('.'):]` when the path ends with a known ending, else `''` -/
def codecSuffix (path : Str) : Str :=
  if fileEndings.any (fun e => e.1.any (endsWith path ·)) then
    match rfind path '.' with
    | some d => path.drop d
    | none => []
  else []

/-- `f'part-{i:05d}'` -/
def digitChar (d : Nat) : Char := Char.ofNat (48 + d % 10)
def natDigitsAux : (fuel : Nat) → Nat → List Char
  | 0, n => [digitChar n]
  | fuel + 1, n => if n < 10 then [digitChar n] else natDigitsAux fuel (n / 10) ++ [digitChar (n % 10)]
/-- decimal digits (structural recursion with fuel `n`, enough since `n / 10 < n`) -/
def natDigits (n : Nat) : List Char := natDigitsAux n n
def pad5 (i : Nat) : Str :=
  let ds := natDigits i
  List.replicate (5 - ds.length) '0' ++ ds
def partName (i : Nat) (suffix : Str) : Str := "part-".toList ++ pad5 i ++ suffix

/-! ### binaryRecords chunkers -/

/-- `FixedLengthChunker(L)` : `data[i:i+L] for i in range(0, len(data), L)` -/
def fixedChunks (L : Nat) (data : List UInt8) : (fuel : Nat) → List (List UInt8)
  | 0 => []
  | fuel + 1 => if data.isEmpty then [] else data.take L :: fixedChunks L (data.drop L) fuel

/-- `VariableLengthChunker`: a length prefix of `pl` bytes decoded by `unpack`, then the record -/
def varChunks (pl : Nat) (unpack : List UInt8 → Nat) : List UInt8 → (fuel : Nat) → List (List UInt8)
  | _, 0 => []
  | data, fuel + 1 =>
    if data.isEmpty then [] else
    let len := unpack (data.take pl)
    let rest := data.drop pl
    rest.take len :: varChunks pl unpack (rest.drop len) fuel

def frame (pack : Nat → List UInt8) (rs : List (List UInt8)) : List UInt8 :=
  rs.flatMap fun r => pack r.length ++ r

end PysparklingVerif.TextIO
