/-
  Store-passing model of `RDD.aggregate` / `fold` (pysparkling/rdd.py) for the clause of C01 that the pure list
  model cannot express: "the zero value given to fold/aggregate is never shared between partitions even when the
  combining functions mutate it in place".

  Objects live in a heap and are named by references; a user function that mutates its first argument in place
  (`acc.append(x); return acc`, `a.extend(b); return a`) overwrites the contents of that object and returns the same
  reference. The code folds every partition into `copy.deepcopy(zeroValue)` and folds the partition results into
  another `copy.deepcopy(zeroValue)`; `aggregateShared` is the same without the copies. Core-only.
-/
namespace PysparklingVerif.Zero

abbrev Obj := List Int               -- a mutable list object
abbrev Heap := List Obj
abbrev Ref := Nat

def Heap.read (h : Heap) (r : Ref) : Obj := h.getD r []
def Heap.write (h : Heap) (r : Ref) (v : Obj) : Heap := h.set r v

/-- `copy.deepcopy(obj)`: a fresh object with equal contents -/
def deepcopy (h : Heap) (r : Ref) : Heap × Ref := (h ++ [h.read r], h.length)

/-- `seqOp(acc, x)` mutating `acc` in place and returning it -/
def seqStep (f : Obj → Int → Obj) (h : Heap) (acc : Ref) (x : Int) : Heap := h.write acc (f (h.read acc) x)
/-- `combOp(a, b)` mutating `a` in place and returning it -/
def combStep (g : Obj → Obj → Obj) (h : Heap) (a b : Ref) : Heap := h.write a (g (h.read a) (h.read b))

/-- one task: `functools.reduce(seqOp, partition, copy.deepcopy(zeroValue))` -/
def runTask (f : Obj → Int → Obj) (h : Heap) (z : Ref) (p : List Int) : Heap × Ref :=
  let c := deepcopy h z
  (p.foldl (fun hh x => seqStep f hh c.2 x) c.1, c.2)

/-- all tasks, in partition order, then `functools.reduce(combOp, results, copy.deepcopy(zeroValue))` -/
def aggregateCopy (f : Obj → Int → Obj) (g : Obj → Obj → Obj) (h : Heap) (z : Ref) (parts : List (List Int)) : Heap × Ref :=
  let st := parts.foldl (fun (st : Heap × List Ref) p => let t := runTask f st.1 z p; (t.1, st.2 ++ [t.2])) (h, [])
  let c := deepcopy st.1 z
  (st.2.foldl (fun hh r => combStep g hh c.2 r) c.1, c.2)

/-- the forbidden variant: every task and the driver fold into the caller's object itself -/
def aggregateShared (f : Obj → Int → Obj) (g : Obj → Obj → Obj) (h : Heap) (z : Ref) (parts : List (List Int)) : Heap × Ref :=
  let h1 := parts.foldl (fun hh p => p.foldl (fun hh x => seqStep f hh z x) hh) h
  ((parts.map fun _ => z).foldl (fun hh r => combStep g hh z r) h1, z)

/-- SPEC: the pure aggregate of the list model (Model/Rdd.lean `aggregate`) on object contents -/
def aggregatePure (f : Obj → Int → Obj) (g : Obj → Obj → Obj) (z : Obj) (parts : List (List Int)) : Obj :=
  (parts.map fun p => p.foldl f z).foldl g z

end PysparklingVerif.Zero
