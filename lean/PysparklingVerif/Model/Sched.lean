/-
  Model of how partition tasks run on a pool (pysparkling/context.py `_runJob_distributed` /
  `runJob_map`, rdd.py `PersistedRDD.compute` and `PartitionwiseSampledRDD.compute`,
  samplers.py, cache_manager.py `clone_contains` / `get_not_in` / `join`).

  A task is a program of ATOMIC micro-steps (source-line granularity). What all threads of a
  pool can reach is `Shared`: attributes of the dataset object and module globals. What is
  private to a task is `Local`: the locals of `compute`, the task's cache-manager clone, its
  random generator. Two programs are given for the pipeline  source → sample(seed) → persist():
    * `stepNew` — the code as it is now (cache key in a local variable, generator owned by the
      task): its private part `stepLocal` never READS `Shared`; the only thing it still does to
      shared state is a dead store (`self._cid = cid`, kept for compatibility, read by nobody);
    * `stepOld` — the code as it was (key kept in `self._cid` of the shared dataset object,
      module-global `random`): kept to show that the schedule-independence theorem is not
      vacuous — the same statement is FALSE for it (concrete 2-pre-emption witness).
  A thread pool is any interleaving (`runSched`), a process pool runs every task on its own copy
  (`runIsolated`), a generic `map(func, iterable)` pool is any task order without pre-emption.
  The random generator is abstract (`next`, `keep`): the theorems hold for every generator.
  Core-only.
-/
namespace PysparklingVerif.Sched

abbrev Key := Nat × Nat          -- (dataset id, partition index)
abbrev Cache := List (Key × List Nat)

def Cache.get (c : Cache) (k : Key) : Option (List Nat) := c.lookup k
/-- `cache_obj[ident] = …` (dict assignment: replaces, keeps one entry per key) -/
def Cache.put (c : Cache) (k : Key) (d : List Nat) : Cache := (c.filter (·.1 != k)) ++ [(k, d)]
/-- `CacheManager.join(new_entries)`: `dict.update` -/
def Cache.join (c : Cache) (new : Cache) : Cache := new.foldl (fun c e => c.put e.1 e.2) c

/-- reachable from every thread -/
structure Shared where
  attrCid : Option Key         -- `self._cid` on the shared PersistedRDD object (old code only)
  rng : Nat                    -- state of the module-global generator (old code only)
  deriving DecidableEq, Repr

/-- private to one task -/
structure Local where
  pc : Nat
  cid : Option Key             -- local variable `cid`
  rng : Nat                    -- the task's own generator
  todo : List Nat              -- upstream elements not yet drawn for
  kept : List Nat              -- sampled elements so far
  cache : Cache                -- the task's cache-manager clone
  out : Option (List Nat)      -- the task's result
  deriving DecidableEq, Repr

/-- static description of a job: dataset id, seed, the partitions' upstream data -/
structure Job where
  rddId : Nat
  seed : Nat
  parts : List (List Nat)
  deriving Repr

/-- `f` applied `n` times -/
def iter {α : Type} (f : α → α) : Nat → α → α
  | 0, a => a
  | n + 1, a => iter f n (f a)

section Programs
variable (next : Nat → Nat) (keep : Nat → Bool)

/-- SPEC of the sample of one partition: one draw per element, in order, from a generator seeded for
this partition only -/
def sampleSpec : Nat → List Nat → List Nat
  | _, [] => []
  | g, x :: xs => let g' := next g; if keep g' then x :: sampleSpec g' xs else sampleSpec g' xs

def initLocal (clone : Cache) (src : List Nat) : Local := ⟨0, none, 0, src, [], clone, none⟩

/-- the CURRENT code, the private part of one micro-step of task `i` (a function of the task's own state only):
 0 `cid = (self.id(), split.index)`; 1 `if not cache.has(cid)`; 2 `rng = TaskRandom(seed + index)`;
 3 one lazy draw per upstream element; 4 `cache.add(cid, data)`; 5 `return iter(cache.get(cid))`; 6 done -/
def stepLocal (j : Job) (i : Nat) (l : Local) : Local :=
  match l.pc with
  | 0 => { l with cid := some (j.rddId, i), pc := 1 }
  | 1 => if (l.cache.get (l.cid.getD (0, 0))).isSome then { l with pc := 5 } else { l with pc := 2 }
  | 2 => { l with rng := j.seed + i, pc := 3 }
  | 3 => match l.todo with
      | [] => { l with pc := 4 }
      | x :: rest => let g := next l.rng
                     { l with rng := g, todo := rest, kept := if keep g then l.kept ++ [x] else l.kept }
  | 4 => { l with cache := l.cache.put (l.cid.getD (0, 0)) l.kept, pc := 5 }
  | 5 => { l with out := l.cache.get (l.cid.getD (0, 0)), pc := 6 }
  | _ => l

/-- the CURRENT code, one micro-step of task `i` on the whole state: the private step, plus the dead store
`self._cid = cid` into the shared dataset object at the first step (nothing reads it) -/
def stepNew (j : Job) (i : Nat) (l : Local) (s : Shared) : Local × Shared :=
  (stepLocal next keep j i l, if l.pc = 0 then { s with attrCid := some (j.rddId, i) } else s)

/-- the ORIGINAL code: the key lives in an attribute of the dataset object shared by all threads, the
generator is the module-global one -/
def stepOld (j : Job) (i : Nat) (l : Local) (s : Shared) : Local × Shared :=
  match l.pc with
  | 0 => ({ l with pc := 1 }, { s with attrCid := some (j.rddId, i) })
  | 1 => if (l.cache.get (s.attrCid.getD (0, 0))).isSome then ({ l with pc := 5 }, s) else ({ l with pc := 2 }, s)
  | 2 => ({ l with pc := 3 }, { s with rng := j.seed + i })
  | 3 => match l.todo with
      | [] => ({ l with pc := 4 }, s)
      | x :: rest => let g := next s.rng
                     ({ l with todo := rest, kept := if keep g then l.kept ++ [x] else l.kept }, { s with rng := g })
  | 4 => ({ l with cache := l.cache.put (s.attrCid.getD (0, 0)) l.kept, pc := 5 }, s)
  | 5 => ({ l with out := l.cache.get (s.attrCid.getD (0, 0)), pc := 6 }, s)
  | _ => (l, s)

/-! ### pools -/

/-- the whole system: one private state per task, plus what they share -/
structure Sys where
  tasks : List Local
  shared : Shared
  deriving DecidableEq, Repr

/-- thread `i` runs one micro-step -/
def Sys.stepNew (j : Job) (i : Nat) (s : Sys) : Sys :=
  match s.tasks[i]? with
  | none => s
  | some l => let r := Sched.stepNew next keep j i l s.shared
              { tasks := s.tasks.set i r.1, shared := r.2 }

def Sys.stepOld (j : Job) (i : Nat) (s : Sys) : Sys :=
  match s.tasks[i]? with
  | none => s
  | some l => let r := Sched.stepOld next keep j i l s.shared
              { tasks := s.tasks.set i r.1, shared := r.2 }

/-- a THREAD pool under a schedule: the list of thread choices, one micro-step each -/
def runSched (j : Job) (sched : List Nat) (s : Sys) : Sys := sched.foldl (fun s i => Sys.stepNew next keep j i s) s
def runSchedOld (j : Job) (sched : List Nat) (s : Sys) : Sys := sched.foldl (fun s i => Sys.stepOld next keep j i s) s

/-- `clone_contains(lambda ident: ident[1] == partition.index)` -/
def cloneFor (driver : Cache) (i : Nat) : Cache := driver.filter fun e => e.1.2 == i

def initSys (j : Job) (driver : Cache) (sh : Shared) : Sys :=
  ⟨j.parts.zipIdx.map fun (src, i) => initLocal (cloneFor driver i) src, sh⟩

/-- one task run alone to completion (the micro-program has `src.length + 6` steps) -/
def runTask (j : Job) (i : Nat) (l : Local) : Local := iter (Sched.stepLocal next keep j i) (l.todo.length + 6) l

/-- a PROCESS pool: every task runs on its own copy of everything; only results and new cache entries return -/
def runIsolated (j : Job) (driver : Cache) : List Local :=
  j.parts.zipIdx.map fun (src, i) => runTask next keep j i (initLocal (cloneFor driver i) src)

/-- `get_not_in(stored_idents at task start)` -/
def newEntries (before : Cache) (after : Cache) : Cache := after.filter fun e => !(before.any (·.1 == e.1))

/-- the driver side of `_runJob_distributed`: results in partition order, caches joined in partition order -/
def collectJob (driver : Cache) (finals : List Local) : List (Option (List Nat)) × Cache :=
  (finals.map (·.out),
   finals.zipIdx.foldl (fun c (l, i) => c.join (newEntries (cloneFor driver i) l.cache)) driver)

/-- the in-process executor: tasks run one after the other directly on the driver's cache manager -/
def runLocalJob (j : Job) (driver : Cache) : List (Option (List Nat)) × Cache :=
  j.parts.zipIdx.foldl (fun (acc : List (Option (List Nat)) × Cache) (src, i) =>
    let l := runTask next keep j i (initLocal acc.2 src)
    (acc.1 ++ [l.out], l.cache)) ([], driver)

/-- a schedule is complete when every task got at least the steps its program needs -/
def Complete (j : Job) (sched : List Nat) : Prop :=
  ∀ i src, j.parts[i]? = some src → src.length + 6 ≤ sched.count i

end Programs
/-! ### ANY task programs that touch only their own state

The pipeline above is one instance. Whatever a partition task computes (any chain of element-wise stages, sampling,
persistence, …), as long as each task's micro-steps read and write only that task's own state, a thread pool is
`runAny`: the list of task states, the thread chosen by the schedule stepping its own component. -/
section Generic
variable {σ : Type}

def stepAt (step : Nat → σ → σ) (i : Nat) (s : List σ) : List σ := s.modify i (step i)

def runAny (step : Nat → σ → σ) (sched : List Nat) (s : List σ) : List σ := sched.foldl (fun s i => stepAt step i s) s

/-- task `i`'s program has finished after `n i` steps: further steps change nothing -/
def Quiescent (step : Nat → σ → σ) (n : Nat → Nat) (s0 : List σ) : Prop :=
  ∀ i t, s0[i]? = some t → step i (iter (step i) (n i) t) = iter (step i) (n i) t

/-- every task run alone to completion, one after the other (the in-process executor / a process pool) -/
def runEachAlone (step : Nat → σ → σ) (n : Nat → Nat) (s0 : List σ) : List σ :=
  s0.zipIdx.map fun (t, i) => iter (step i) (n i) t

end Generic

end PysparklingVerif.Sched
