/-
  Model of pysparkling/stat_counter.py: `StatCounter` (Welford update, Chan merge with the
  three-way mean update) and `CovarianceCounter`, in exact rational arithmetic (core `Rat`).
  The real code computes in IEEE doubles; the property's 1e-9 tolerance is what the
  correspondence run measures, the theorems are exact. Core-only.
-/
namespace PysparklingVerif.Stats

structure SC where
  n : Nat
  mu : Rat
  m2 : Rat
  maxV : Option Rat      -- `none` = float('-inf')
  minV : Option Rat      -- `none` = float('inf')
  deriving Repr, DecidableEq

/-- `StatCounter()` -/
def SC.init : SC := ⟨0, 0, 0, none, none⟩

def optMax (a : Option Rat) (x : Rat) : Option Rat :=
  match a with | none => some x | some m => some (if m < x then x else m)
def optMin (a : Option Rat) (x : Rat) : Option Rat :=
  match a with | none => some x | some m => some (if x < m then x else m)
def optMax2 (a b : Option Rat) : Option Rat :=
  match b with | none => a | some y => optMax a y
def optMin2 (a b : Option Rat) : Option Rat :=
  match b with | none => a | some y => optMin a y

/-- `StatCounter.merge(value)` -/
def SC.add (s : SC) (x : Rat) : SC :=
  let delta := x - s.mu
  let n := s.n + 1
  let mu := s.mu + delta / n
  let m2 := s.m2 + delta * (x - mu)
  ⟨n, mu, m2, optMax s.maxV x, optMin s.minV x⟩

/-- `StatCounter.mergeStats(other)` for `other is not self` -/
def SC.merge (s o : SC) : SC :=
  if s.n = 0 then o
  else if o.n ≠ 0 then
    let delta := o.mu - s.mu
    let mu :=
      if o.n * 10 < s.n then s.mu + delta * o.n / (s.n + o.n : Nat)
      else if s.n * 10 < o.n then o.mu - delta * s.n / (s.n + o.n : Nat)
      else (s.mu * s.n + o.mu * o.n) / (s.n + o.n : Nat)
    let m2 := s.m2 + (o.m2 + delta * delta * s.n * o.n / (s.n + o.n : Nat))
    ⟨s.n + o.n, mu, m2, optMax2 s.maxV o.maxV, optMin2 s.minV o.minV⟩
  else s

/-- `mergeStats(self)`: the aliasing guard merges with a deep copy -/
def SC.selfMerge (s : SC) : SC := s.merge s

/-- `rdd.stats()` = `aggregate(StatCounter(), merge, mergeStats)` -/
def stats (ps : List (List Rat)) : SC :=
  (ps.map fun p => p.foldl SC.add SC.init).foldl SC.merge SC.init

def SC.count (s : SC) : Nat := s.n
def SC.mean (s : SC) : Rat := s.mu
def SC.sum (s : SC) : Rat := s.n * s.mu
/-- `none` = NaN -/
def SC.variance (s : SC) : Option Rat := if s.n = 0 then none else some (s.m2 / s.n)
def SC.sampleVariance (s : SC) : Option Rat := if s.n ≤ 1 then none else some (s.m2 / ((s.n : Rat) - 1))

/-! ### `CovarianceCounter` -/

structure Cov where
  count : Nat
  xAvg : Rat
  yAvg : Rat
  ck : Rat
  mkX : Rat
  mkY : Rat
  deriving Repr, DecidableEq

def Cov.init : Cov := ⟨0, 0, 0, 0, 0, 0⟩

def Cov.add (c : Cov) (x y : Rat) : Cov :=
  let dx := x - c.xAvg
  let dy := y - c.yAvg
  let n := c.count + 1
  let xa := c.xAvg + dx / n
  let ya := c.yAvg + dy / n
  ⟨n, xa, ya, c.ck + dx * (y - ya), c.mkX + dx * (x - xa), c.mkY + dy * (y - ya)⟩

def Cov.merge (c o : Cov) : Cov :=
  if o.count > 0 then
    let total : Nat := c.count + o.count
    let dx := c.xAvg - o.xAvg
    let dy := c.yAvg - o.yAvg
    ⟨total,
     c.xAvg - dx * (o.count / total),
     c.yAvg - dy * (o.count / total),
     c.ck + (o.ck + dx * dy * c.count / total * o.count),
     c.mkX + (o.mkX + dx * dx * c.count / total * o.count),
     c.mkY + (o.mkY + dy * dy * c.count / total * o.count)⟩
  else c

def cov (ps : List (List (Rat × Rat))) : Cov :=
  (ps.map fun p => p.foldl (fun c xy => c.add xy.1 xy.2) Cov.init).foldl Cov.merge Cov.init

def Cov.covarSamp (c : Cov) : Option Rat := if c.count ≤ 1 then none else some (c.ck / ((c.count : Rat) - 1))
def Cov.covarPop (c : Cov) : Option Rat := if c.count = 0 then none else some (c.ck / c.count)
/-- the square of `pearson_correlation = Ck / sqrt(MkX * MkY)` (the square root is not rational): `none` = NaN, the value
for an empty dataset, a single row, or a constant column, where `MkX * MkY = 0` -/
def Cov.corrSq (c : Cov) : Option Rat := if c.mkX * c.mkY = 0 then none else some (c.ck * c.ck / (c.mkX * c.mkY))

/-! ### SPEC: two-pass textbook formulas -/

def lsum (xs : List Rat) : Rat := xs.foldl (· + ·) 0
def mean (xs : List Rat) : Rat := lsum xs / xs.length
/-- `Σ (x - mean)²` -/
def ssd (xs : List Rat) : Rat := lsum (xs.map fun x => (x - mean xs) * (x - mean xs))
/-- `Σ (x - mean x)(y - mean y)` -/
def scp (ps : List (Rat × Rat)) : Rat :=
  lsum (ps.map fun p => (p.1 - mean (ps.map (·.1))) * (p.2 - mean (ps.map (·.2))))
def lmax : List Rat → Option Rat
  | [] => none
  | x :: xs => some (xs.foldl (fun m y => if m < y then y else m) x)
def lmin : List Rat → Option Rat
  | [] => none
  | x :: xs => some (xs.foldl (fun m y => if y < m then y else m) x)

end PysparklingVerif.Stats
