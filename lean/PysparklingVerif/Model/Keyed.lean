/-
  Model of the keyed / join / set operations of pysparkling/rdd.py (C02).
  Mirrors the code: almost all of them collect to the driver, work on Python dicts / sets /
  lists and re-parallelize. Python `dict` = insertion-ordered association list; Python `set`
  iteration order is unspecified, the model uses first-occurrence order and the property
  compares such results as multisets. Core-only.
-/
import PysparklingVerif.Model.Rdd
namespace PysparklingVerif.Keyed
open PysparklingVerif.Rdd

variable {κ ν ω : Type} [DecidableEq κ]

/-- `r = defaultdict(list); for k, v in it: r[k].append(v)`; `r.items()` -/
def groupList (kvs : List (κ × ν)) : List (κ × List ν) :=
  kvs.foldl (fun acc kv =>
    if acc.any (·.1 == kv.1) then acc.map (fun e => if e.1 == kv.1 then (e.1, e.2 ++ [kv.2]) else e)
    else acc ++ [(kv.1, [kv.2])]) []

/-- `groupByKey(numPartitions)` -/
def groupByKey (m : Option Nat) (ps : Parts (κ × ν)) : Parts (κ × List ν) :=
  parallelize (groupList (flat ps)) (m.getD ps.length)

/-- `d[k] if k in d else default` on the dict built by `collectAsMap` of a `groupByKey` -/
def valuesOf (d : List (κ × List ν)) (k : κ) : Option (List ν) := d.lookup k

/-- `reduceByKey(f)` = `groupByKey(n).mapValues(lambda x: functools.reduce(f, x))`
(groups are never empty; `reduce1` of `[]` does not occur) -/
def reduce1 (f : ν → ν → ν) : List ν → Option ν
  | [] => none
  | x :: xs => some (xs.foldl f x)

def reduceByKey (f : ν → ν → ν) (m : Option Nat) (ps : Parts (κ × ν)) : Parts (κ × Option ν) :=
  Rdd.mapValues (reduce1 f) (groupByKey m ps)

/-- dict update used by `aggregateByKey`: `r[k] = g(r[k], v)` with `defaultdict(zero)` -/
def dictUpd (z : β) (g : β → γ → β) (acc : List (κ × β)) (k : κ) (v : γ) : List (κ × β) :=
  if acc.any (·.1 == k) then acc.map (fun e => if e.1 == k then (e.1, g e.2 v) else e)
  else acc ++ [(k, g z v)]

/-- `aggregateByKey(zero, seqFunc, combFunc)`: a dict per partition, then combined in partition
order (each first combine starts from a fresh copy of `zero`); the result is re-parallelized
into one partition -/
def aggregateByKey (z : β) (seq : β → ν → β) (comb : β → β → β) (ps : Parts (κ × ν)) : Parts (κ × β) :=
  let per := ps.map fun p => p.foldl (fun acc kv => dictUpd z seq acc kv.1 kv.2) []
  [per.foldl (fun acc d => d.foldl (fun acc kv => dictUpd z comb acc kv.1 kv.2) acc) []]

def foldByKey (z : ν) (op : ν → ν → ν) (ps : Parts (κ × ν)) : Parts (κ × ν) := aggregateByKey z op op ps

/-- `countByKey` = `map(key).countByValue()` -/
def countByKey (ps : Parts (κ × ν)) : List (κ × Nat) := countByValue (Rdd.map (·.1) ps)

/-- first-occurrence de-duplication (a Python `set` built from an iterable, in some order) -/
def dedup {α : Type} [DecidableEq α] (xs : List α) : List α :=
  xs.foldl (fun acc x => if x ∈ acc then acc else acc ++ [x]) []

/-- `cogroup`: keys of either side, each with both value lists (`defaultdict(list)` lookups) -/
def cogroup (a : Parts (κ × ν)) (b : Parts (κ × ω)) : Parts (κ × (List ν × List ω)) :=
  let da := groupList (flat a)
  let db := groupList (flat b)
  let ks := dedup (da.map (·.1) ++ db.map (·.1))
  [ks.map fun k => (k, ((valuesOf da k).getD [], (valuesOf db k).getD []))]

/-- `join` (as repaired): grouped left side, for each left value every right value of the key -/
def join (m : Option Nat) (a : Parts (κ × ν)) (b : Parts (κ × ω)) : Parts (κ × (ν × ω)) :=
  let db := groupList (flat b)
  Rdd.flatMap (fun kv => kv.2.flatMap fun v => ((valuesOf db kv.1).getD []).map fun w => (kv.1, (v, w)))
    (groupByKey m a)

def leftOuterJoin (a : Parts (κ × ν)) (b : Parts (κ × ω)) : Parts (κ × (ν × Option ω)) :=
  let db := groupList (flat b)
  Rdd.flatMap (fun kv => kv.2.flatMap fun v =>
      (match valuesOf db kv.1 with
        | some ws => ws.map some
        | none => [none]).map fun w => (kv.1, (v, w)))
    (groupByKey none a)

def rightOuterJoin (a : Parts (κ × ν)) (b : Parts (κ × ω)) : Parts (κ × (Option ν × ω)) :=
  let da := groupList (flat a)
  Rdd.flatMap (fun kv => kv.2.flatMap fun w =>
      (match valuesOf da kv.1 with
        | some vs => vs.map some
        | none => [none]).map fun v => (kv.1, (v, w)))
    (groupByKey none b)

def fullOuterJoin (a : Parts (κ × ν)) (b : Parts (κ × ω)) : Parts (κ × (Option ν × Option ω)) :=
  Rdd.flatMap (fun kv =>
      let vs := if kv.2.1.isEmpty then [none] else kv.2.1.map some
      let ws := if kv.2.2.isEmpty then [none] else kv.2.2.map some
      vs.flatMap fun v => ws.map fun w => (kv.1, (v, w)))
    (cogroup a b)

/-- `_leftSemiJoin` / `_leftAntiJoin` (used by the DataFrame joins) -/
def leftSemiJoin (a : Parts (κ × ν)) (b : Parts (κ × ω)) : Parts (κ × ν) :=
  let db := groupList (flat b)
  Rdd.flatMap (fun kv => if (valuesOf db kv.1).isSome then kv.2.map fun v => (kv.1, v) else [])
    (groupByKey none a)

def leftAntiJoin (a : Parts (κ × ν)) (b : Parts (κ × ω)) : Parts (κ × ν) :=
  let db := groupList (flat b)
  Rdd.flatMap (fun kv => if (valuesOf db kv.1).isSome then [] else kv.2.map fun v => (kv.1, v))
    (groupByKey none a)

/-- `subtractByKey` = `cogroup.filter(val1 and not val2).flatMapValues(x[0])` -/
def subtractByKey (a : Parts (κ × ν)) (b : Parts (κ × ω)) : Parts (κ × ν) :=
  Rdd.flatMapValues (fun x => x.1)
    (Rdd.filter (fun kv => !kv.2.1.isEmpty && kv.2.2.isEmpty) (cogroup a b))

/-- `subtract`: per partition, keep `e` with `e not in list_other` -/
def subtract {α : Type} [DecidableEq α] (a b : Parts α) : Parts α :=
  Rdd.filter (fun e => !((flat b).contains e)) a

def distinct {α : Type} [DecidableEq α] (m : Option Nat) (a : Parts α) : Parts α :=
  parallelize (dedup (flat a)) (m.getD a.length)

def intersection {α : Type} [DecidableEq α] (a b : Parts α) : Parts α :=
  [(dedup (flat a)).filter fun x => (flat b).contains x]

def cartesian {α β : Type} (a : Parts α) (b : Parts β) : Parts (α × β) :=
  [(flat a).flatMap fun x => (flat b).map fun y => (x, y)]

/-- `sortByKey` = `sortBy(itemgetter(0))` -/
def sortByKey (le : κ → κ → Bool) (asc : Bool) (m : Option Nat) (ps : Parts (κ × ν)) : Parts (κ × ν) :=
  sortBy (·.1) le asc m ps

/-! ### SPEC: relational definitions on plain lists -/

def specJoin (l : List (κ × ν)) (r : List (κ × ω)) : List (κ × (ν × ω)) :=
  l.flatMap fun kv => (r.filter (·.1 == kv.1)).map fun kw => (kv.1, (kv.2, kw.2))

def specLeftOuter (l : List (κ × ν)) (r : List (κ × ω)) : List (κ × (ν × Option ω)) :=
  l.flatMap fun kv =>
    let ms := r.filter (·.1 == kv.1)
    if ms.isEmpty then [(kv.1, (kv.2, none))] else ms.map fun kw => (kv.1, (kv.2, some kw.2))

def specRightOuter (l : List (κ × ν)) (r : List (κ × ω)) : List (κ × (Option ν × ω)) :=
  r.flatMap fun kw =>
    let ms := l.filter (·.1 == kw.1)
    if ms.isEmpty then [(kw.1, (none, kw.2))] else ms.map fun kv => (kw.1, (some kv.2, kw.2))

def specFullOuter (l : List (κ × ν)) (r : List (κ × ω)) : List (κ × (Option ν × Option ω)) :=
  (specLeftOuter l r).map (fun e => (e.1, (some e.2.1, e.2.2))) ++
  (r.filter fun kw => !(l.any (·.1 == kw.1))).map fun kw => (kw.1, (none, some kw.2))

def specSubtractByKey (l : List (κ × ν)) (r : List (κ × ω)) : List (κ × ν) :=
  l.filter fun kv => !(r.any (·.1 == kv.1))

def specSemi (l : List (κ × ν)) (r : List (κ × ω)) : List (κ × ν) :=
  l.filter fun kv => r.any (·.1 == kv.1)

end PysparklingVerif.Keyed
