/-
  Model of persistence (pysparkling/rdd.py PersistedRDD, cache_manager.py CacheManager and
  TimedCacheManager, context.newRddId). A lineage is a source plus a chain of stages; a
  `persist` stage carries the dataset id handed out by the process-wide counter. Computing
  partition `i` walks the chain from the action back to the source, stopping at the first
  persisted stage whose entry `(id, i)` is in the cache. The log records which user-function
  stages actually ran (per partition). Mirrors the REPAIRED unpersist. Core-only.
-/
namespace PysparklingVerif.Cache

/-- cache manager contents: `(dataset id, partition index) ↦ data` -/
abbrev Store (α : Type) := List ((Nat × Nat) × List α)

def Store.get (c : Store α) (k : Nat × Nat) : Option (List α) := c.lookup k
/-- `cache_obj[ident] = …` -/
def Store.put (c : Store α) (k : Nat × Nat) (d : List α) : Store α := (c.filter (·.1 != k)) ++ [(k, d)]
/-- `delete(ident)` -/
def Store.del (c : Store α) (k : Nat × Nat) : Store α := c.filter (·.1 != k)

inductive Stage (α : Type) where
  | op (tag : Nat) (f : List α → List α)     -- a (partition-wise) user transformation, `tag` identifies it in the log
  | persist (id : Nat)

/-- a logged execution: stage `tag` ran on partition `part` -/
structure Run where
  tag : Nat
  part : Nat
  deriving DecidableEq, Repr

/-- `compute(partition i)`; `stages` are listed from the ACTION side back to the source
(head = last transformation). Returns data, new cache, executions in upstream-first order. -/
def compute (src : List α) (i : Nat) : List (Stage α) → Store α → List α × Store α × List Run
  | [], c => (src, c, [])
  | .op tag f :: up, c =>
    let (d, c', l) := compute src i up c
    (f d, c', l ++ [⟨tag, i⟩])
  | .persist id :: up, c =>
    match c.get (id, i) with
    | some d => (d, c, [])
    | none =>
      let (d, c', l) := compute src i up c
      (d, c'.put (id, i) d, l)

/-- the same lineage without any persistence -/
def plain (src : List α) : List (Stage α) → List α
  | [] => src
  | .op _ f :: up => f (plain src up)
  | .persist _ :: up => plain src up

/-- an action that evaluates the partitions `is` (all of them for collect/count/…; a prefix for
first/take), in order, threading the cache -/
def runAction (srcs : List (List α)) (stages : List (Stage α)) :
    List Nat → Store α → List (List α) × Store α × List Run
  | [], c => ([], c, [])
  | i :: is, c =>
    let (d, c', l) := compute (srcs.getD i []) i stages c
    let (ds, c'', l') := runAction srcs stages is c'
    (d :: ds, c'', l ++ l')

/-- REPAIRED `unpersist()` of the dataset persisted under `id` with `n` partitions:
every `(id, i)` is deleted -/
def unpersist (id n : Nat) (c : Store α) : Store α := (List.range n).foldl (fun c i => c.del (id, i)) c

/-- the lineage handed back by `unpersist()` for the persist stage at the head: the chain below it -/
def dropHeadPersist : List (Stage α) → List (Stage α)
  | .persist _ :: up => up
  | s => s

/-! ### TimedCacheManager -/

structure Timed (α : Type) where
  store : Store α
  added : List ((Nat × Nat) × Nat)     -- `_time_added`: (ident, timestamp), oldest first
  timeout : Nat

/-- `gc()` at time `now`: pop expired heads (`timestamp ≤ now - timeout`, i.e. not `timestamp > threshold`) -/
def Timed.gc (t : Timed α) (now : Int) : Timed α :=
  let expired := t.added.takeWhile fun e => decide ((e.2 : Int) ≤ now - t.timeout)
  { t with store := expired.foldl (fun c e => c.del e.1) t.store, added := t.added.drop expired.length }

/-- `add(ident, obj)` at time `now` (appends the time stamp, then collects garbage) -/
def Timed.add (t : Timed α) (k : Nat × Nat) (d : List α) (now : Nat) : Timed α :=
  ({ t with store := t.store.put k d, added := t.added ++ [(k, now)] } : Timed α).gc now

end PysparklingVerif.Cache
