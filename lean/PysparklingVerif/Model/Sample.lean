/-
  Model of sampling (pysparkling/samplers.py, rdd.py sample / sampleByKey / takeSample /
  randomSplit, PartitionwiseSampledRDD). The pseudo-random draws are PARAMETERS of the model:
  for partition `i` the real code seeds the generator with `seed + i` and consumes one
  `random.random()` per element (Bernoulli) — the harness regenerates exactly those streams
  and feeds them in, so outputs are compared exactly; theorems hold for every draw stream.
  Core-only.
-/
import PysparklingVerif.Model.Rdd
namespace PysparklingVerif.Sample
open PysparklingVerif.Rdd

/-- `BernoulliSampler(f)`: keep `x` iff its draw `r < f` -/
def bernoulli (f : Rat) (draws : List Rat) (xs : List α) : List α :=
  (xs.zip draws).filterMap fun (x, r) => if r < f then some x else none

/-- `sample(False, f, seed)`: partition `i` uses its own stream (seeded with `seed + i`) -/
def sampleParts (f : Rat) (draws : List (List Rat)) (ps : Parts α) : Parts α :=
  (ps.zip draws).map fun (p, d) => bernoulli f d p

/-- `BernoulliSamplerPerKey(fractions)`: `fractions.get(key, 0.0)` -/
def bernoulliByKey [DecidableEq κ] (fr : κ → Option Rat) (draws : List Rat) (xs : List (κ × ν)) : List (κ × ν) :=
  (xs.zip draws).filterMap fun (x, r) => if r < (fr x.1).getD 0 then some x else none

def sampleByKeyParts [DecidableEq κ] (fr : κ → Option Rat) (draws : List (List Rat)) (ps : Parts (κ × ν)) :
    Parts (κ × ν) :=
  (ps.zip draws).map fun (p, d) => bernoulliByKey fr d p

/-- `PoissonSampler`: every element is repeated `count` times (the counts are the parameter) -/
def poissonExpand (counts : List Nat) (xs : List α) : List α :=
  (xs.zip counts).flatMap fun (x, c) => List.replicate c x

/-- `randomSplit`: element with draw `r` goes to every split `i` with `b[i] ≤ r < b[i+1]` -/
def randomSplit (bounds : List Rat) (draws : List Rat) (xs : List α) : List (List α) :=
  (bounds.zip bounds.tail).map fun (lb, ub) =>
    (xs.zip draws).filterMap fun (x, r) => if lb ≤ r ∧ r < ub then some x else none

/-- `boundaries = [0]; for w in weights: boundaries.append(boundaries[-1] + w / sum)` (exact arithmetic) -/
def cumBoundaries (ws : List Rat) : List Rat :=
  let s := ws.foldl (· + ·) 0
  ws.foldl (fun acc w => acc ++ [acc.getLast?.getD 0 + w / s]) [0]

/-- `rand.shuffle`: the resulting order is a parameter (a list of indices) -/
def applyPerm (perm : List Nat) (xs : List α) : List α := perm.filterMap fun i => xs[i]?

/-- `takeSample(withReplacement, num, seed)`. `perm0` = the shuffle of the initial sample;
`rounds` = the successive `sample(...).collect()` results of the oversampling loop;
`permF r` = the final shuffle applied to round `r`. `none` = the loop never reaches `num`. -/
def takeSample (withRepl : Bool) (num : Nat) (ps : Parts α) (perm0 : List Nat)
    (rounds : List (List α)) (permF : List α → List Nat) : Option (List α) :=
  if num = 0 then some []
  else
    let init := take num ps
    if init.isEmpty then some []
    else if !withRepl && num ≥ init.length then some (applyPerm perm0 init)
    else match rounds.find? (fun s => s.length ≥ num) with
      | some s => some ((applyPerm (permF s) s).take num)
      | none => none

end PysparklingVerif.Sample
