/-
  Model of a job WITH SIDE EFFECTS on a thread pool: the tasks of `saveAsTextFile` (pysparkling/rdd.py) each call
  `Local.dump` (pysparkling/fileio/fs/local.py), which makes sure the target directory exists and then writes the
  task's own part file. What the tasks share is the file system. A task is a program of atomic micro-steps
  (source-line granularity):   test `os.path.exists(dirname)`  →  `os.makedirs(dirname …)`  →  write the file.
    * `stepNew` — the code as it is now: `os.makedirs(dirname, exist_ok=True)`;
    * `stepOld` — the code as it was: `os.makedirs(dirname)`, which raises FileExistsError when another task created the
      directory between this task's test and its `makedirs` (kept to show that the theorem is not vacuous: the same
      statement is FALSE for it).
  Each task is attempted once (`max_retries = 1`); a failed task stays failed. Core-only.
-/
namespace PysparklingVerif.SaveSched

/-- the shared file system, as far as the job is concerned: the target directory and the part files in it -/
structure FS where
  dirExists : Bool
  files : List (Nat × List Nat)        -- partition index ↦ the lines written
  deriving DecidableEq, Repr

inductive Pc where
  | start                      -- before `os.path.exists(dirname)`
  | tested (saw : Bool)        -- the test's answer is in hand
  | ready                      -- the directory is there (as far as this task knows): about to write
  | done
  | failed                     -- FileExistsError reached the caller
  deriving DecidableEq, Repr

structure Task where
  pc : Pc
  idx : Nat
  data : List Nat
  deriving DecidableEq, Repr

/-- `open(path, 'wb')`: create or overwrite the file of partition `i` -/
def writeFile (fs : FS) (i : Nat) (d : List Nat) : FS :=
  { fs with files := fs.files.filter (·.1 != i) ++ [(i, d)] }

/-- one micro-step of the code as it is now -/
def stepNew (fs : FS) (t : Task) : FS × Task :=
  match t.pc with
  | .start => (fs, { t with pc := .tested fs.dirExists })
  | .tested true => (fs, { t with pc := .ready })
  | .tested false => ({ fs with dirExists := true }, { t with pc := .ready })        -- makedirs(…, exist_ok=True)
  | .ready => (writeFile fs t.idx t.data, { t with pc := .done })
  | .done => (fs, t)
  | .failed => (fs, t)

/-- one micro-step of the code as it was -/
def stepOld (fs : FS) (t : Task) : FS × Task :=
  match t.pc with
  | .start => (fs, { t with pc := .tested fs.dirExists })
  | .tested true => (fs, { t with pc := .ready })
  | .tested false =>
      if fs.dirExists then (fs, { t with pc := .failed })                               -- makedirs: FileExistsError
      else ({ fs with dirExists := true }, { t with pc := .ready })
  | .ready => (writeFile fs t.idx t.data, { t with pc := .done })
  | .done => (fs, t)
  | .failed => (fs, t)

structure Sys where
  fs : FS
  tasks : List Task
  deriving DecidableEq, Repr

/-- thread `i` runs one micro-step -/
def Sys.step (stp : FS → Task → FS × Task) (s : Sys) (i : Nat) : Sys :=
  match s.tasks[i]? with
  | none => s
  | some t => let r := stp s.fs t; { fs := r.1, tasks := s.tasks.set i r.2 }

/-- a thread pool under a schedule: the list of thread choices, one micro-step each -/
def run (stp : FS → Task → FS × Task) (sched : List Nat) (s : Sys) : Sys := sched.foldl (Sys.step stp) s

/-- the job: one task per partition, nothing written yet -/
def initSys (parts : List (List Nat)) : Sys :=
  { fs := { dirExists := false, files := [] }, tasks := parts.zipIdx.map fun (d, i) => { pc := .start, idx := i, data := d } }

/-- the in-process executor: the tasks one after the other, each to completion (3 micro-steps) -/
def sequential (stp : FS → Task → FS × Task) (parts : List (List Nat)) : Sys :=
  run stp ((List.range parts.length).flatMap fun i => [i, i, i]) (initSys parts)

/-- every task gets at least the three steps its program needs -/
def Complete (n : Nat) (sched : List Nat) : Prop := ∀ i, i < n → 3 ≤ sched.count i

/-- what the caller observes: did every task succeed, and which file holds what -/
def outcome (s : Sys) : Bool × (Nat → Option (List Nat)) :=
  (s.tasks.all (·.pc == .done), fun i => s.fs.files.lookup i)

end PysparklingVerif.SaveSched
