/-
  Model of path-expression resolution (pysparkling/fileio/file.py File.resolve_filenames,
  fileio/fs/local.py Local.resolve_filenames, fileio/fs/__init__.py get_fs scheme test,
  utils.Tokenizer.get_next). Paths are strings (`List Char`); the file system is the list `W`
  of existing file paths, rendered in the style the expression addresses them in
  (`x/y`, `./x/y` or `/base/x/y`, chosen by the driver exactly as os.walk would render them).
  `fnmatch` on the alphabet without `[`/`]`: `*` = any run of characters (including `/`),
  `?` = any single character. Core-only.   Mirrors the REPAIRED code (`./` is prepended when
  the literal prefix names no directory).
-/
namespace PysparklingVerif.Glob

abbrev Str := List Char

/-- does `f` accept some suffix of the string (the run a `*` skips is the dropped prefix) -/
def anySuffix (f : Str → Bool) : Str → Bool
  | [] => f []
  | c :: s => f (c :: s) || anySuffix f s

/-- `fnmatch(s, p)` (structural recursion on the pattern) -/
def globMatch : (p : Str) → (s : Str) → Bool
  | [] => fun s => s.isEmpty
  | c :: p => fun s =>
    if c == '*' then anySuffix (globMatch p) s
    else match s with
      | [] => false
      | d :: t => (c == '?' || c == d) && globMatch p t

def isWild (c : Char) : Bool := c == '*' || c == '?'

/-- `Tokenizer(expr).get_next(['*', '?'])`: the text before the first wildcard -/
def literalPrefix (p : Str) : Str := p.takeWhile (fun c => !isWild c)

def rstripSlash (s : Str) : Str := (s.reverse.dropWhile (· == '/')).reverse

/-- `os.path.dirname` (posixpath) -/
def dirname (s : Str) : Str :=
  let head := (s.reverse.dropWhile (· != '/')).reverse      -- s[:rfind('/')+1]
  if head.all (· == '/') then head else rstripSlash head

def endsWithSlash (s : Str) : Bool := s.getLast? == some '/'

/-- the files `os.walk(root)` reaches, as it renders them: those below directory `root`
(`os.walk('')` and a non-existing root yield nothing) -/
def walk (W : List Str) (root : Str) : List Str :=
  if root.isEmpty then [] else W.filter fun f => (rstripSlash root ++ ['/']).isPrefixOf f

def stripScheme (e : Str) : Str :=
  if "file://".toList.isPrefixOf e then e.drop 7 else e

/-- the `(expr, prefix)` adjustment: walk from `./` when the literal prefix names no directory -/
def anchored (expr : Str) : Str × Str :=
  let pre := literalPrefix expr
  if pre.contains '/' then (expr, pre) else ("./".toList ++ expr, "./".toList ++ pre)

def walkRoot (pre : Str) : Str :=
  if !endsWithSlash pre && pre.contains '/' then dirname pre else pre

def partsPattern (expr : Str) : Str := expr ++ "/part*".toList

/-- the resolved name of a walked path: without the `./` the walk of an anchored expression added (`path[2:]`), so that a
file is named as the expression names it -/
def unanchor (expr : Str) (f : Str) : Str :=
  if (literalPrefix expr).contains '/' then f else f.drop 2

/-- `Local.resolve_filenames(expr)`; `isFile` is `os.path.isfile` -/
def localResolve (W : List Str) (isFile : Str → Bool) (expr0 : Str) : List Str :=
  let expr := stripScheme expr0
  if isFile expr then [expr]
  else
    let (e, pre) := anchored expr
    ((walk W (walkRoot pre)).filter fun f => globMatch e f || globMatch (partsPattern e) f).map (unanchor expr)

def isSpace (c : Char) : Bool := c == ' ' || c == '\t' || c == '\n' || c == '\r' || c == '\x0b' || c == '\x0c'
def strip (s : Str) : Str := ((s.dropWhile isSpace).reverse.dropWhile isSpace).reverse

/-- `s.split(',')` -/
def splitComma : Str → List Str
  | [] => [[]]
  | c :: cs =>
    if c == ',' then [] :: splitComma cs
    else match splitComma cs with
      | [] => [[c]]
      | p :: ps => (c :: p) :: ps

/-- `File.resolve_filenames(all_expr)`; `W e` is the rendering of the world item `e` addresses -/
def resolve (W : Str → List Str) (isFile : Str → Bool) (all : Str) : List Str :=
  (splitComma all).flatMap fun e => localResolve (W (strip e)) isFile (strip e)

def strLe : Str → Str → Bool
  | [], _ => true
  | _ :: _, [] => false
  | a :: as, b :: bs => if a = b then strLe as bs else a.toNat < b.toNat

/-- readers process `sorted(resolved_names)` -/
def readerOrder (names : List Str) : List Str := names.mergeSort strLe

end PysparklingVerif.Glob
