/-
  Model of DataFrame expressions and relational operations (pysparkling/sql: column.py,
  expressions/expressions.py TypeSafeBinaryOperation / NullSafeBinaryOperation,
  expressions/operators.py, expressions/mappers.py CaseWhen / Coalesce, internals.py select /
  filter / sort / limit / union / …, utils.get_keyfunc). Values are null, ints, doubles (exact
  rationals: the campaign uses dyadic values so float arithmetic is exact), strings, booleans.
  `evalM` mirrors the STRUCTURE of the (repaired) code — operator classes, the type-order
  coercion through casters, `between` as `(x >= lo) & (x <= hi)`, `!=` as `NOT (=)`,
  multi-pass stable sort — `evalS` is the SQL reference denotation. Core-only.
-/
namespace PysparklingVerif.Sql

inductive SV where
  | null
  | int (i : Int)
  | dbl (q : Rat)
  | str (s : String)
  | bool (b : Bool)
  deriving DecidableEq, Repr, Inhabited

inductive Expr where
  | col (i : Nat)
  | lit (v : SV)
  | neg (e : Expr)
  | add (a b : Expr) | sub (a b : Expr) | mul (a b : Expr) | div (a b : Expr) | mod (a b : Expr)
  | eq (a b : Expr) | ne (a b : Expr) | lt (a b : Expr) | le (a b : Expr) | gt (a b : Expr) | ge (a b : Expr)
  | and (a b : Expr) | or (a b : Expr) | not (e : Expr)
  | isNull (e : Expr) | isNotNull (e : Expr)
  | between (e lo hi : Expr)
  | coalesce (a b : Expr)                 -- coalesce(a, b, …) nests to the right
  | caseWhen (c t e : Expr)               -- when(c, t).otherwise(e); without otherwise: e = lit null
  deriving Repr, Inhabited

abbrev Row := List SV

/-- evaluation errors (`AnalysisException` / `TypeError` for ill-typed operands) -/
inductive Err | typeMismatch
  deriving DecidableEq, Repr

/-! ### the implementation's evaluation, operator class by operator class -/

inductive Arith | add | sub | mul | div | mod
  deriving DecidableEq, Repr
inductive Cmp | eq | lt | le | gt | ge
  deriving DecidableEq, Repr

/-- truncation toward zero -/
def truncR (q : Rat) : Int := if 0 ≤ q then q.floor else -((-q).floor)

/-- the remainder of a truncated division: `x - y * trunc(x / y)` (`math.fmod`; the sign is the dividend's) -/
def ratRem (x y : Rat) : Rat := x - y * (truncR (x / y) : Rat)

def ratArith (op : Arith) (x y : Rat) : SV :=
  match op with
  | .add => .dbl (x + y) | .sub => .dbl (x - y) | .mul => .dbl (x * y)
  | .div => if y = 0 then .null else .dbl (x / y)
  | .mod => if y = 0 then .null else .dbl (ratRem x y)

/-- `NullSafeBinaryOperation.eval` for + - * / % : null if an operand is null, both operands of the same
class or both numeric, Python arithmetic (`/` is true division, `x / 0` and `x % 0` are null; `%` (REPAIRED) is the
remainder of the truncated division, as in SQL: its sign is the dividend's) -/
def arithM (op : Arith) (a b : SV) : Except Err SV :=
  match a, b with
  | .null, _ => .ok .null
  | _, .null => .ok .null
  | .int x, .int y =>
      (match op with
       | .add => .ok (.int (x + y)) | .sub => .ok (.int (x - y)) | .mul => .ok (.int (x * y))
       | .div => .ok (if y = 0 then .null else .dbl ((x : Rat) / (y : Rat)))
       | .mod => .ok (if y = 0 then .null else .int (Int.tmod x y)))
  | .int x, .dbl y => .ok (ratArith op x y)
  | .dbl x, .int y => .ok (ratArith op x y)
  | .dbl x, .dbl y => .ok (ratArith op x y)
  | .str x, .str y => (match op with | .add => .ok (.str (x ++ y)) | _ => .error .typeMismatch)
  | _, _ => .error .typeMismatch

/-- position of a value's Python class in (repaired) `INTERNAL_TYPE_ORDER = [int, float, str, bool, …]` -/
def typeOrder : SV → Nat
  | .int _ => 0 | .dbl _ => 1 | .str _ => 2 | .bool _ => 3 | .null => 4

/-- `get_caster(from, to)(v)` for the coercions the comparison operators can request
(int → float; anything else between different classes is outside the typed fragment) -/
def castTo (target : SV) (v : SV) : Except Err SV :=
  match target, v with
  | .dbl _, .int i => .ok (.dbl i)
  | _, _ => .error .typeMismatch

def cmpSame (op : Cmp) (a b : SV) : Except Err Bool :=
  match a, b with
  | .int x, .int y => .ok (match op with | .eq => x = y | .lt => x < y | .le => x ≤ y | .gt => x > y | .ge => x ≥ y)
  | .dbl x, .dbl y => .ok (match op with | .eq => x = y | .lt => x < y | .le => x ≤ y | .gt => x > y | .ge => x ≥ y)
  | .str x, .str y => .ok (match op with | .eq => x = y | .lt => x < y | .le => x ≤ y | .gt => x > y | .ge => x ≥ y)
  | .bool x, .bool y =>
      .ok (match op with | .eq => x = y | .lt => x < y | .le => x ≤ y | .gt => x > y | .ge => x ≥ y)
  | _, _ => .error .typeMismatch

/-- `TypeSafeBinaryOperation.eval`: null if an operand is null; same class: compare; otherwise the operand
whose class comes FIRST in the type order is cast to the other's class -/
def cmpM (op : Cmp) (a b : SV) : Except Err SV :=
  match a, b with
  | .null, _ => .ok .null
  | _, .null => .ok .null
  | a, b =>
    if typeOrder a = typeOrder b then (cmpSame op a b).map .bool
    else if typeOrder a > typeOrder b then do let b' ← castTo a b; (cmpSame op a b').map .bool
    else do let a' ← castTo b a; (cmpSame op a' b).map .bool

/-- truthiness of a value in `if value:` / `not value` -/
def truthy : SV → Bool
  | .bool b => b
  | .int i => i ≠ 0
  | .dbl q => q ≠ 0
  | .str s => s ≠ ""
  | .null => false

/-- repaired `And.eval` -/
def andM (a b : SV) : SV :=
  if (a ≠ .null ∧ !truthy a) ∨ (b ≠ .null ∧ !truthy b) then .bool false
  else if a = .null ∨ b = .null then .null
  else if truthy a then b else a                      -- Python `a and b`
/-- repaired `Or.eval` -/
def orM (a b : SV) : SV :=
  if truthy a ∨ truthy b then .bool true
  else if a = .null ∨ b = .null then .null
  else if truthy a then a else b                      -- Python `a or b`
/-- `Invert.eval` -/
def notM (a : SV) : SV := if a = .null then .null else .bool (!truthy a)
/-- repaired `Negate.eval` -/
def negM (a : SV) : Except Err SV :=
  match a with
  | .null => .ok .null
  | .int i => .ok (.int (-i))
  | .dbl q => .ok (.dbl (-q))
  | _ => .error .typeMismatch

def evalM (r : Row) : Expr → Except Err SV
  | .col i => .ok (r.getD i .null)
  | .lit v => .ok v
  | .neg e => do negM (← evalM r e)
  | .add a b => do arithM .add (← evalM r a) (← evalM r b)
  | .sub a b => do arithM .sub (← evalM r a) (← evalM r b)
  | .mul a b => do arithM .mul (← evalM r a) (← evalM r b)
  | .div a b => do arithM .div (← evalM r a) (← evalM r b)
  | .mod a b => do arithM .mod (← evalM r a) (← evalM r b)
  | .eq a b => do cmpM .eq (← evalM r a) (← evalM r b)
  | .ne a b => do return notM (← cmpM .eq (← evalM r a) (← evalM r b))         -- Invert(Equal(a, b))
  | .lt a b => do cmpM .lt (← evalM r a) (← evalM r b)
  | .le a b => do cmpM .le (← evalM r a) (← evalM r b)
  | .gt a b => do cmpM .gt (← evalM r a) (← evalM r b)
  | .ge a b => do cmpM .ge (← evalM r a) (← evalM r b)
  | .and a b => do return andM (← evalM r a) (← evalM r b)
  | .or a b => do return orM (← evalM r a) (← evalM r b)
  | .not e => do return notM (← evalM r e)
  | .isNull e => do return .bool ((← evalM r e) = .null)
  | .isNotNull e => do return .bool ((← evalM r e) ≠ .null)
  | .between e lo hi => do                                                   -- (e >= lo) & (e <= hi)
      let v ← evalM r e
      return andM (← cmpM .ge v (← evalM r lo)) (← cmpM .le v (← evalM r hi))
  | .coalesce a b => do
      let v ← evalM r a
      if v ≠ .null then return v else evalM r b
  | .caseWhen c t e => do
      let cv ← evalM r c
      if truthy cv then evalM r t else evalM r e

/-! ### SQL reference semantics -/

/-- numeric promotion to a rational -/
def num? : SV → Option Rat
  | .int i => some i
  | .dbl q => some q
  | _ => none

inductive Ty | int | dbl | str | bool
  deriving DecidableEq, Repr

def tyOf : SV → Option Ty
  | .int _ => some .int | .dbl _ => some .dbl | .str _ => some .str | .bool _ => some .bool | .null => none

/-- three-valued truth value of a boolean-typed SQL value -/
def tv : SV → Option Bool
  | .bool b => some b
  | _ => none

def arithS (op : Arith) (a b : SV) : SV :=
  match a, b with
  | .null, _ => .null
  | _, .null => .null
  | .int x, .int y =>
      (match op with
       | .add => .int (x + y) | .sub => .int (x - y) | .mul => .int (x * y)
       | .div => if y = 0 then .null else .dbl ((x : Rat) / y)
       | .mod => if y = 0 then .null else .int (Int.tmod x y))
  | a, b =>
    match num? a, num? b with
    | some x, some y => ratArith op x y
    | _, _ => .null

def cmpS (op : Cmp) (a b : SV) : SV :=
  match a, b with
  | .null, _ => .null
  | _, .null => .null
  | .str x, .str y => .bool (match op with | .eq => x = y | .lt => x < y | .le => x ≤ y | .gt => x > y | .ge => x ≥ y)
  | .bool x, .bool y => .bool (match op with | .eq => x = y | .lt => x < y | .le => x ≤ y | .gt => x > y | .ge => x ≥ y)
  | a, b =>
    match num? a, num? b with
    | some x, some y => .bool (match op with | .eq => x = y | .lt => x < y | .le => x ≤ y | .gt => x > y | .ge => x ≥ y)
    | _, _ => .null

/-- Kleene AND / OR / NOT on `null | bool` -/
def andS (a b : SV) : SV :=
  match tv a, tv b with
  | some false, _ => .bool false
  | _, some false => .bool false
  | some true, some true => .bool true
  | _, _ => .null
def orS (a b : SV) : SV :=
  match tv a, tv b with
  | some true, _ => .bool true
  | _, some true => .bool true
  | some false, some false => .bool false
  | _, _ => .null
def notS (a : SV) : SV := match tv a with | some b => .bool (!b) | none => .null

def evalS (r : Row) : Expr → SV
  | .col i => r.getD i .null
  | .lit v => v
  | .neg e => (match evalS r e with | .int i => .int (-i) | .dbl q => .dbl (-q) | _ => .null)
  | .add a b => arithS .add (evalS r a) (evalS r b)
  | .sub a b => arithS .sub (evalS r a) (evalS r b)
  | .mul a b => arithS .mul (evalS r a) (evalS r b)
  | .div a b => arithS .div (evalS r a) (evalS r b)
  | .mod a b => arithS .mod (evalS r a) (evalS r b)
  | .eq a b => cmpS .eq (evalS r a) (evalS r b)
  | .ne a b => notS (cmpS .eq (evalS r a) (evalS r b))
  | .lt a b => cmpS .lt (evalS r a) (evalS r b)
  | .le a b => cmpS .le (evalS r a) (evalS r b)
  | .gt a b => cmpS .gt (evalS r a) (evalS r b)
  | .ge a b => cmpS .ge (evalS r a) (evalS r b)
  | .and a b => andS (evalS r a) (evalS r b)
  | .or a b => orS (evalS r a) (evalS r b)
  | .not e => notS (evalS r e)
  | .isNull e => .bool (evalS r e = .null)
  | .isNotNull e => .bool (evalS r e ≠ .null)
  | .between e lo hi => andS (cmpS .ge (evalS r e) (evalS r lo)) (cmpS .le (evalS r e) (evalS r hi))
  | .coalesce a b => if evalS r a ≠ .null then evalS r a else evalS r b
  | .caseWhen c t e => if tv (evalS r c) = some true then evalS r t else evalS r e

/-- static typing of expressions over typed nullable columns (numeric = int or dbl) -/
inductive HasTy (cols : List Ty) : Expr → Ty → Prop where
  | col (i : Nat) (t : Ty) : cols[i]? = some t → HasTy cols (.col i) t
  | litInt (i : Int) : HasTy cols (.lit (.int i)) .int
  | litDbl (q : Rat) : HasTy cols (.lit (.dbl q)) .dbl
  | litStr (s : String) : HasTy cols (.lit (.str s)) .str
  | litBool (b : Bool) : HasTy cols (.lit (.bool b)) .bool
  | litNull (t : Ty) : HasTy cols (.lit .null) t
  | neg (e : Expr) (t : Ty) : t = .int ∨ t = .dbl → HasTy cols e t → HasTy cols (.neg e) t
  | arith (mk : Expr → Expr → Expr) (a b : Expr) (ta tb : Ty) :
      mk = Expr.add ∨ mk = Expr.sub ∨ mk = Expr.mul ∨ mk = Expr.mod → (ta = .int ∨ ta = .dbl) → (tb = .int ∨ tb = .dbl) →
      HasTy cols a ta → HasTy cols b tb → HasTy cols (mk a b) (if ta = .int ∧ tb = .int then .int else .dbl)
  | div (a b : Expr) (ta tb : Ty) : (ta = .int ∨ ta = .dbl) → (tb = .int ∨ tb = .dbl) →
      HasTy cols a ta → HasTy cols b tb → HasTy cols (.div a b) .dbl
  | cmpNum (mk : Expr → Expr → Expr) (a b : Expr) (ta tb : Ty) :
      mk = Expr.eq ∨ mk = Expr.ne ∨ mk = Expr.lt ∨ mk = Expr.le ∨ mk = Expr.gt ∨ mk = Expr.ge →
      (ta = .int ∨ ta = .dbl) → (tb = .int ∨ tb = .dbl) →
      HasTy cols a ta → HasTy cols b tb → HasTy cols (mk a b) .bool
  | cmpSame (mk : Expr → Expr → Expr) (a b : Expr) (t : Ty) :
      mk = Expr.eq ∨ mk = Expr.ne ∨ mk = Expr.lt ∨ mk = Expr.le ∨ mk = Expr.gt ∨ mk = Expr.ge →
      (t = .str ∨ t = .bool) → HasTy cols a t → HasTy cols b t → HasTy cols (mk a b) .bool
  | and (a b : Expr) : HasTy cols a .bool → HasTy cols b .bool → HasTy cols (.and a b) .bool
  | or (a b : Expr) : HasTy cols a .bool → HasTy cols b .bool → HasTy cols (.or a b) .bool
  | not (e : Expr) : HasTy cols e .bool → HasTy cols (.not e) .bool
  | isNull (e : Expr) (t : Ty) : HasTy cols e t → HasTy cols (.isNull e) .bool
  | isNotNull (e : Expr) (t : Ty) : HasTy cols e t → HasTy cols (.isNotNull e) .bool
  | betweenNum (e lo hi : Expr) (t t1 t2 : Ty) : (t = .int ∨ t = .dbl) → (t1 = .int ∨ t1 = .dbl) →
      (t2 = .int ∨ t2 = .dbl) → HasTy cols e t → HasTy cols lo t1 → HasTy cols hi t2 →
      HasTy cols (.between e lo hi) .bool
  | betweenStr (e lo hi : Expr) : HasTy cols e .str → HasTy cols lo .str → HasTy cols hi .str →
      HasTy cols (.between e lo hi) .bool
  | coalesce (a b : Expr) (t : Ty) : HasTy cols a t → HasTy cols b t → HasTy cols (.coalesce a b) t
  | caseWhen (c t e : Expr) (ty : Ty) : HasTy cols c .bool → HasTy cols t ty → HasTy cols e ty →
      HasTy cols (.caseWhen c t e) ty

/-- a row matches the column types (null allowed everywhere) -/
def RowOk (cols : List Ty) (r : Row) : Prop :=
  r.length = cols.length ∧ ∀ (i : Nat) (v : SV) (t : Ty), r[i]? = some v → cols[i]? = some t → v = .null ∨ tyOf v = some t

/-! ### relational operations on tables (row lists) -/

structure Table where
  names : List String
  rows : List Row
  deriving Repr

/-- `filter(cond)`: keep the rows whose predicate value is truthy (`if cond.eval(row)`) -/
def filterM (cond : Expr) (rows : List Row) : Except Err (List Row) :=
  rows.filterMapM fun r => do
    let v ← evalM r cond
    return if truthy v then some r else none

def filterS (cond : Expr) (rows : List Row) : List Row := rows.filter fun r => tv (evalS r cond) = some true

/-- `select(e1.alias(n1), …)` -/
def selectM (es : List Expr) (rows : List Row) : Except Err (List Row) := rows.mapM fun r => es.mapM (evalM r)

/-- total order used by `sorted` on the sort keys of one column: Python tuple `(flag, value)` where
`flag = (value is None) != nulls_are_smaller` -/
def keyLe (nullsSmaller : Bool) (a b : SV) : Bool :=
  let fa := (a == .null) != nullsSmaller
  let fb := (b == .null) != nullsSmaller
  if fa != fb then !fa          -- False < True
  else match cmpM .le a b with
    | .ok (.bool x) => x
    | _ => true                 -- both null (tuple elements equal), or incomparable (outside the typed fragment)

structure SortKey where
  e : Expr
  asc : Bool
  nullsFirst : Bool
  deriving Repr

/-- `nulls_are_smaller = sort_order in ['DESC NULLS LAST', 'ASC NULLS FIRST']` -/
def SortKey.nullsSmaller (k : SortKey) : Bool := (k.asc && k.nullsFirst) || (!k.asc && !k.nullsFirst)

def keyOf (k : SortKey) (r : Row) : SV := match evalM r k.e with | .ok v => v | .error _ => .null

/-- one `sortBy(key, ascending)` pass: Python's stable sort (stable also with `reverse=True`) -/
def sortPass (k : SortKey) (rows : List Row) : List Row :=
  if k.asc then rows.mergeSort fun a b => keyLe k.nullsSmaller (keyOf k a) (keyOf k b)
  else rows.mergeSort fun a b => keyLe k.nullsSmaller (keyOf k b) (keyOf k a)

/-- `sort(cols)`: one stable pass per key, from the LAST key to the first -/
def sortM (keys : List SortKey) (rows : List Row) : List Row := keys.foldr (fun k acc => sortPass k acc) rows

/-- SPEC: lexicographic comparison by the key list, each with its direction and null placement -/
def lexLe : List SortKey → Row → Row → Bool
  | [], _, _ => true
  | k :: ks, a, b =>
    let ka := keyOf k a
    let kb := keyOf k b
    let le := if k.asc then keyLe k.nullsSmaller ka kb else keyLe k.nullsSmaller kb ka
    let ge := if k.asc then keyLe k.nullsSmaller kb ka else keyLe k.nullsSmaller ka kb
    if le && ge then lexLe ks a b else le

def sortS (keys : List SortKey) (rows : List Row) : List Row := rows.mergeSort (lexLe keys)

def limitM (n : Nat) (rows : List Row) : List Row := rows.take n

/-- `distinct()` / `dropDuplicates(cols)`: the first row of every key survives -/
def dedupBy (key : Row → Row) (rows : List Row) : List Row :=
  rows.foldl (fun acc r => if acc.any (fun x => key x == key r) then acc else acc ++ [r]) []

/-- `union`: positional; `unionByName`: the right rows are re-ordered to the left column order -/
def unionM (a b : List Row) : List Row := a ++ b
def unionByNameM (an bn : List String) (a b : List Row) : List Row :=
  a ++ b.map fun r => an.map fun n => r.getD (bn.idxOf n) .null

/-- `drop(names)`, `withColumnRenamed`, `toDF` act on the column list; rows follow positionally -/
def dropCols (names : List String) (drop : List String) (rows : List Row) : List String × List Row :=
  let keep := names.zipIdx.filter fun (n, _) => !drop.contains n
  (keep.map (·.1), rows.map fun r => keep.map fun (_, i) => r.getD i .null)

/-- repaired `withColumn(name, e)`: replaces the column of that name in place, or appends -/
def withColumnM (names : List String) (name : String) (e : Expr) (rows : List Row) :
    Except Err (List String × List Row) := do
  let vals ← rows.mapM fun r => evalM r e
  if names.contains name then
    return (names, (rows.zip vals).map fun (r, v) => (r.zip names).map fun (x, n) => if n == name then v else x)
  else return (names ++ [name], (rows.zip vals).map fun (r, v) => r ++ [v])

end PysparklingVerif.Sql
