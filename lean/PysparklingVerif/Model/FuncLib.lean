/-
  The function library of the correspondence campaigns: named user functions with the same
  definitions in harness/funcs.py. Used only by the driver (theorems quantify over arbitrary
  functions). Ill-typed applications produce the marker `errV`; the driver refuses to answer
  when a result contains it (nothing is ever defaulted silently). Core-only.
-/
import PysparklingVerif.Model.Val
namespace PysparklingVerif.FuncLib
open PysparklingVerif

def errV : Val := .str "#ERR"

partial def hasErr : Val → Bool
  | .str s => s == "#ERR"
  | .tup xs => xs.any hasErr
  | .lst xs => xs.any hasErr
  | _ => false

def pair (a b : Val) : Val := .tup [a, b]

/-- Python `<=` on the comparable part of the domain (ints, strings by code point,
tuples/lists lexicographically); anything else is not comparable → `false`. -/
partial def le : Val → Val → Bool
  | .int a, .int b => a ≤ b
  | .str a, .str b => a ≤ b
  | .tup a, .tup b => leList a b
  | .lst a, .lst b => leList a b
  | _, _ => false
where
  leList : List Val → List Val → Bool
    | [], _ => true
    | _ :: _, [] => false
    | x :: xs, y :: ys => if x == y then leList xs ys else le x y

def mapFn (name : String) : Option (Val → Val) :=
  match name with
  | "id" => some id
  | "add1" => some fun | .int i => .int (i + 1) | _ => errV
  | "dbl" => some fun
      | .int i => .int (i * 2) | .str s => .str (s ++ s) | .tup t => .tup (t ++ t) | .lst l => .lst (l ++ l)
      | _ => errV
  | "neg" => some fun | .int i => .int (-i) | _ => errV
  | "mod3" => some fun | .int i => .int (i % 3) | _ => errV
  | "pairMod" => some fun | .int i => pair (.int (i % 3)) (.int i) | _ => errV
  | "pairSelf" => some fun v => pair v v
  | "swap" => some fun | .tup [a, b] => pair b a | _ => errV
  | "fst" => some fun | .tup [a, _] => a | _ => errV
  | "snd" => some fun | .tup [_, b] => b | _ => errV
  | "wrap" => some fun v => .tup [v]
  | "toList" => some fun v => .lst [v]
  | "const0" => some fun _ => .int 0
  | "len" => some fun
      | .str s => .int s.length | .tup t => .int t.length | .lst l => .int l.length | _ => errV
  | _ => none

def predFn (name : String) : Option (Val → Bool) :=
  match name with
  | "even" => some fun | .int i => i % 2 == 0 | _ => false
  | "pos" => some fun | .int i => i > 0 | _ => false
  | "notNone" => some fun | .none => false | _ => true
  | "true" => some fun _ => true
  | "false" => some fun _ => false
  | "keyEven" => some fun | .tup [.int k, _] => k % 2 == 0 | _ => false
  | "nonEmpty" => some fun
      | .str s => s.length > 0 | .tup t => t.length > 0 | .lst l => l.length > 0 | _ => false
  | _ => none

def flatFn (name : String) : Option (Val → List Val) :=
  match name with
  | "dup" => some fun v => [v, v]
  | "nil" => some fun _ => []
  | "one" => some fun v => [v]
  | "rng" => some fun | .int i => (List.range (i % 3).toNat).map (fun k => .int (Int.ofNat k)) | _ => [errV]
  | "withNone" => some fun v => [v, .none]
  | "explode" => some fun | .tup t => t | .lst l => l | _ => [errV]
  | _ => none

/-- functions from a whole partition to a list (`mapPartitions`); the Bool says whether the
function is a list homomorphism (then list semantics are partition-independent) -/
def partFn (name : String) : Option ((List Val → List Val) × Bool) :=
  match name with
  | "idp" => some (id, true)
  | "incp" => some (fun xs => xs.map fun | .int i => .int (i + 1) | _ => errV, true)
  | "evensp" => some (fun xs => xs.filter fun | .int i => i % 2 == 0 | _ => false, true)
  | "dupp" => some (fun xs => xs.flatMap fun v => [v, v], true)
  | "rev" => some (List.reverse, false)
  | "countp" => some (fun xs => [.int xs.length], false)
  -- the argument of a partition function is an ITERATOR: a second pass over it sees nothing; `next` works on it
  | "twicep" => some (fun xs => [.int xs.length, .int 0], false)
  | "nextlen" => some (fun xs => [.int xs.length], false)
  | "firstp" => some (fun xs => xs.take 1, false)
  | "sump" => some (fun xs => [.int (xs.foldl (fun a v => match v with | .int i => a + i | _ => a) 0)], false)
  | _ => none

/-- binary functions for reduce / fold / aggregate -/
def binFn (name : String) : Option (Val → Val → Val) :=
  match name with
  | "add" => some fun
      | .int a, .int b => .int (a + b) | .str a, .str b => .str (a ++ b)
      | .tup a, .tup b => .tup (a ++ b) | .lst a, .lst b => .lst (a ++ b)
      | _, _ => errV
  | "mul" => some fun | .int a, .int b => .int (a * b) | _, _ => errV
  | "sub" => some fun | .int a, .int b => .int (a - b) | _, _ => errV
  | "max" => some fun a b => if le b a then a else b          -- Python max(a, b): first maximal
  | "min" => some fun a b => if le a b then a else b          -- hmm: min(a,b) returns a unless b < a
  | "first" => some fun a _ => a
  | "last" => some fun _ b => b
  | "pairUp" => some fun a b => pair a b
  | "append" => some fun | .lst a, b => .lst (a ++ [b]) | _, _ => errV       -- acc.append(x); return acc
  | "extend" => some fun | .lst a, .lst b => .lst (a ++ b) | _, _ => errV    -- a.extend(b); return a
  | "sumCountSeq" => some fun
      | .tup [.int s, .int c], .int x => .tup [.int (s + x), .int (c + 1)] | _, _ => errV
  | "sumCountComb" => some fun
      | .tup [.int s, .int c], .tup [.int s', .int c'] => .tup [.int (s + s'), .int (c + c')] | _, _ => errV
  | "maxOpt" => some fun
      | .none, b => b | a, .none => a | a, b => if le b a then a else b
  -- zero values that are only shallowly immutable: a tuple / list holding a mutable list
  | "tupAppend" => some fun | .tup [.lst a], x => .tup [.lst (a ++ [x])] | _, _ => errV
  | "tupExtend" => some fun | .tup [.lst a], .tup [.lst b] => .tup [.lst (a ++ b)] | _, _ => errV
  | "nestAppend" => some fun | .lst [.lst a, .int c], x => .lst [.lst (a ++ [x]), .int (c + 1)] | _, _ => errV
  | "nestExtend" => some fun
      | .lst [.lst a, .int c], .lst [.lst b, .int d] => .lst [.lst (a ++ b), .int (c + d)] | _, _ => errV
  | _ => none

/-- is the named binary function associative on the domain it is used on? -/
def binAssoc (name : String) : Bool :=
  name ∈ ["add", "mul", "max", "min", "first", "last", "extend", "maxOpt", "sumCountComb"]

end PysparklingVerif.FuncLib
