/-
  Model of grouped aggregation (pysparkling/sql/internals.py GroupedStats / InternalGroupedDataFrame,
  stat_counter.ColumnStatHelper update_moments / merge_moments / mergeStats (repaired),
  expressions/aggregate/collectors.py (repaired)). One universal per-column accumulator `St` carries
  everything any of the listed aggregates reads; each aggregate is a projection of it. Exact
  rational arithmetic (the square roots of stddev / skewness are taken by the harness from the
  model's exact moments). Core-only.
-/
import PysparklingVerif.Model.Sql
namespace PysparklingVerif.Agg
open PysparklingVerif.Sql

/-- accumulator of one column within one group -/
structure St where
  rows : Nat                 -- rows seen (count(*))
  n : Nat                    -- non-null values seen (ColumnStatHelper.count)
  sum : Rat
  m2 : Rat
  m3 : Rat
  m4 : Rat
  minV : Option SV
  maxV : Option SV
  items : List SV            -- non-null values in arrival order (collect_list; sets are its dedup)
  first : Option SV          -- first value, nulls included (`has_value` = isSome)
  firstNN : Option SV        -- first non-null value (ignorenulls=True)
  last : Option SV
  lastNN : Option SV
  deriving Repr, DecidableEq

def St.init : St := ⟨0, 0, 0, 0, 0, 0, none, none, [], none, none, none, none⟩

def svLe (a b : SV) : Bool := match cmpM .le a b with | .ok (.bool x) => x | _ => true

/-- `update_moments(value)` then `sum += value; count += 1` -/
def momentsAdd (s : St) (x : Rat) : St :=
  let delta := if s.n > 0 then x - s.sum / s.n else 0
  let deltaN := delta / ((s.n : Rat) + 1)
  let m2 := s.m2 + delta * (delta - deltaN)
  let delta2 := delta * delta
  let deltaN2 := deltaN * deltaN
  let m3 := s.m3 - 3 * deltaN * m2 + delta * (delta2 - deltaN2)
  let m4 := s.m4 - 4 * deltaN * m3 - 6 * deltaN2 * m2 + delta * (delta * delta2 - deltaN * deltaN2)
  { s with n := s.n + 1, sum := s.sum + x, m2 := m2, m3 := m3, m4 := m4 }

/-- one row's value of the aggregated column -/
def St.step (s : St) (v : SV) : St :=
  let s := { s with rows := s.rows + 1, first := s.first.orElse (fun _ => some v), last := some v }
  if v = .null then s
  else
    let s := { s with
      minV := (match s.minV with | none => some v | some m => some (if svLe m v then m else v)),
      maxV := (match s.maxV with | none => some v | some m => some (if svLe v m then m else v)),
      items := s.items ++ [v],
      firstNN := s.firstNN.orElse (fun _ => some v), lastNN := some v }
    match num? v with
    | some x => momentsAdd s x
    | none => { s with n := s.n + 1 }

/-- `merge_moments(other)` (repaired empty-side handling) with `sum += other.sum; count += other.count` -/
def momentsMerge (a b : St) : St :=
  if b.n = 0 then a
  else if a.n = 0 then { a with n := b.n, sum := b.sum, m2 := b.m2, m3 := b.m3, m4 := b.m4 }
  else
    let n1 : Rat := a.n
    let n2 : Rat := b.n
    let delta := b.sum / n2 - a.sum / n1
    let deltaN := delta / (n1 + n2)
    let m2 := a.m2 + b.m2 + delta * deltaN * n1 * n2
    let m3 := a.m3 + b.m3 + deltaN * deltaN * delta * n1 * n2 * (n1 - n2) + 3 * deltaN * (n1 * b.m2 - n2 * a.m2)
    let m4 := a.m4 + b.m4 + deltaN * deltaN * deltaN * delta * n1 * n2 * (n1 * n1 - n1 * n2 + n2 * n2)
      + 6 * deltaN * deltaN * (n1 * n1 * b.m2 + n2 * n2 * a.m2) + 4 * deltaN * (n1 * b.m3 - n2 * a.m3)
    { a with n := a.n + b.n, sum := a.sum + b.sum, m2 := m2, m3 := m3, m4 := m4 }

/-- `mergeStats`: `a` summarises earlier rows, `b` later ones -/
def St.merge (a b : St) : St :=
  let m := momentsMerge a b
  { m with
    rows := a.rows + b.rows,
    minV := (match a.minV, b.minV with
      | none, y => y | x, none => x | some x, some y => some (if svLe x y then x else y)),
    maxV := (match a.maxV, b.maxV with
      | none, y => y | x, none => x | some x, some y => some (if svLe y x then x else y)),
    items := a.items ++ b.items,
    first := a.first.orElse (fun _ => b.first),
    firstNN := a.firstNN.orElse (fun _ => b.firstNN),
    last := b.last.orElse (fun _ => a.last),
    lastNN := b.lastNN.orElse (fun _ => a.lastNN) }

/-- the accumulator of a list of values -/
def summarize (vs : List SV) : St := vs.foldl St.step St.init

/-- SPEC: two-pass central moments of the numeric values -/
def nums (vs : List SV) : List Rat := vs.filterMap num?
def rsum (xs : List Rat) : Rat := xs.foldl (· + ·) 0
def central (k : Nat) (xs : List Rat) : Rat :=
  let mean := rsum xs / xs.length
  rsum (xs.map fun x => (x - mean) ^ k)

/-! ### grouping -/

/-- `GroupedStats`: insertion-ordered groups keyed by `κ`, each with one accumulator per aggregated column -/
abbrev GroupsK (κ : Type) := List (κ × List St)

/-- plain `groupBy`: the key is the tuple of the grouping columns' values (null is a value) -/
abbrev Groups := GroupsK (List SV)
/-- rollup / cube: `none` is the GROUPED marker of a rolled-up column (distinct from a null key value) -/
abbrev SubGroups := GroupsK (List (Option SV))

section Keyed
variable {κ : Type} [BEq κ]

def updGroup (g : GroupsK κ) (key : κ) (f : List St → List St) (fresh : List St) : GroupsK κ :=
  if g.any (·.1 == key) then g.map fun e => if e.1 == key then (e.1, f e.2) else e
  else g ++ [(key, f fresh)]

/-- one row counted in the group `key`: every aggregated column stepped with its value -/
def addRow (ncols : Nat) (g : GroupsK κ) (key : κ) (vals : List SV) : GroupsK κ :=
  updGroup g key (fun sts => (sts.zip vals).map fun (s, v) => s.step v) (List.replicate ncols St.init)

/-- `GroupedStats.mergeStats(other)` -/
def mergeGroups (a b : GroupsK κ) : GroupsK κ :=
  b.foldl (fun acc e =>
    if acc.any (·.1 == e.1) then acc.map fun x => if x.1 == e.1 then (x.1, (x.2.zip e.2).map fun (s, t) => s.merge t) else x
    else acc ++ [e]) a

/-- a table as partitions of (group key, aggregated values) rows -/
def aggregate (ncols : Nat) (parts : List (List (κ × List SV))) : GroupsK κ :=
  (parts.map fun p => p.foldl (fun g r => addRow ncols g r.1 r.2) []).foldl mergeGroups []

/-- SPEC: group the flattened rows directly -/
def aggregateSpec (ncols : Nat) (rows : List (κ × List SV)) : GroupsK κ :=
  rows.foldl (fun g r => addRow ncols g r.1 r.2) []

end Keyed

/-! ### rollup / cube -/

/-- the groups a row with grouping key `key` is counted in (`get_subtotal_keys`) -/
def groupByKeys (key : List SV) : List (List (Option SV)) := [key.map some]

def rollupKeys (key : List SV) : List (List (Option SV)) :=
  (List.range (key.length + 1)).map fun i => (key.take i).map some ++ List.replicate (key.length - i) none

def cubeKeys : List SV → List (List (Option SV))
  | [] => [[]]
  | k :: ks => (cubeKeys ks).flatMap fun r => [none :: r, some k :: r]

/-- (repaired) `GroupedStats.merge(row)`: the row is counted, in row order, in its own group and in each of its
subtotals — i.e. the table is aggregated after every row has been copied under each of its keys -/
def expand (keysOf : List SV → List (List (Option SV))) (rows : List (List SV × List SV)) :
    List (List (Option SV) × List SV) :=
  rows.flatMap fun r => (keysOf r.1).map fun sk => (sk, r.2)

def aggregateSub (keysOf : List SV → List (List (Option SV))) (ncols : Nat) (parts : List (List (List SV × List SV))) : SubGroups :=
  aggregate ncols (parts.map (expand keysOf))

/-- SPEC of a subtotal key: the rows it stands for are those whose key agrees with it on every column that is not
rolled up ("grouping by the corresponding key subset") -/
def matchesKey (sk : List (Option SV)) (key : List SV) : Bool :=
  sk.length == key.length && (sk.zip key).all fun (o, v) => match o with | none => true | some w => w == v

/-! ### pivot -/

/-- a pivoted group holds `pvs.length * ncols` accumulators, one block of `ncols` per pivot value; a row
steps only the block of its own pivot value (`if pivot_value in self.pivot_values`), none if it has no block -/
def stepCells (pvs : List SV) (pv : SV) (sts : List St) (vals : List SV) : List St :=
  (sts.zip (pvs.flatMap fun p => vals.map fun v => (p, v))).map fun (s, (p, v)) => if p == pv then s.step v else s

section KeyedPivot
variable {κ : Type} [BEq κ]

def addRowPivot (ncols : Nat) (pvs : List SV) (g : GroupsK κ) (key : κ) (pv : SV) (vals : List SV) : GroupsK κ :=
  updGroup g key (fun sts => stepCells pvs pv sts vals) (List.replicate (pvs.length * ncols) St.init)

/-- rows are (group key, pivot value, aggregated values) -/
def aggregatePivot (ncols : Nat) (pvs : List SV) (parts : List (List (κ × SV × List SV))) : GroupsK κ :=
  (parts.map fun p => p.foldl (fun g r => addRowPivot ncols pvs g r.1 r.2.1 r.2.2) []).foldl mergeGroups []

def aggregatePivotSpec (ncols : Nat) (pvs : List SV) (rows : List (κ × SV × List SV)) : GroupsK κ :=
  rows.foldl (fun g r => addRowPivot ncols pvs g r.1 r.2.1 r.2.2) []

end KeyedPivot

def expandPivot (keysOf : List SV → List (List (Option SV))) (rows : List (List SV × SV × List SV)) :
    List (List (Option SV) × SV × List SV) :=
  rows.flatMap fun r => (keysOf r.1).map fun sk => (sk, r.2.1, r.2.2)

/-- `sorted(collect_set(pivot_col))` over string values: the distinct non-null values in ascending order -/
def insertSorted (v : SV) : List SV → List SV
  | [] => [v]
  | x :: xs => if v == x then x :: xs else if svLe v x then v :: x :: xs else x :: insertSorted v xs

def pivotValues (pvs : List SV) : List SV := (pvs.filter (· != .null)).foldl (fun acc v => insertSorted v acc) []

/-! ### what each aggregate reads (exact part; square roots are taken by the caller) -/

def St.avg (s : St) : Option Rat := if s.n = 0 then none else some (s.sum / s.n)
def St.varPop (s : St) : Option Rat := if s.n = 0 then none else some (s.m2 / s.n)
def St.varSamp (s : St) : Option Rat := if s.n ≤ 1 then none else some (s.m2 / ((s.n : Rat) - 1))
/-- collect_set / countDistinct / sumDistinct read the distinct collected values -/
def St.distinct (s : St) : List SV := s.items.eraseDups

end PysparklingVerif.Agg
