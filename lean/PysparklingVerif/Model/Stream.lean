/-
  Model of the discretised-stream engine (pysparkling/streaming: context.start's callback,
  DStream._step and its subclasses, QueueStream.get, FileStream.get). A network is the list of
  DStream objects in creation order (= registration order in `ssc._dstreams`); parents are
  created before their children. One tick = the periodic callback: `_step(time)` on every
  registered node in order; each `_step` first steps its parents (recursively) and is guarded by
  `time <= self._current_time`. Mirrors the REPAIRED WindowedDStream. Core-only.
-/
namespace PysparklingVerif.Stream

abbrev Batch (α : Type) := List α

/-! ### sources -/

structure QueueSrc (α : Type) where
  queue : List (Batch α)
  oneAtATime : Bool
  default : Option (Batch α)

/-- `QueueStream.get()` then the deserializer (`None ↦ EmptyRDD`) -/
def QueueSrc.get (q : QueueSrc α) : Batch α × QueueSrc α :=
  match q.queue with
  | [] => (q.default.getD [], q)
  | b :: rest =>
    if q.oneAtATime then (b, { q with queue := rest })
    else ((b :: rest).flatten, { q with queue := [] })

structure FileSrc where
  filesDone : List String
  listings : List (List String)     -- what `resolve_filenames` returns at successive polls

/-- `FileStream.get()`: the files not seen before (`none` = no new file) -/
def FileSrc.get (f : FileSrc) : Option (List String) × FileSrc :=
  match f.listings with
  | [] => (none, f)
  | l :: rest =>
    let fresh := l.filter fun fn => !f.filesDone.contains fn
    if fresh.isEmpty then (none, { f with listings := rest })
    else (some fresh, { filesDone := f.filesDone ++ fresh, listings := rest })

/-! ### the network -/

inductive Node (α : Type) where
  | src (q : Nat)                                             -- DStream over source number `q`
  | tr (prev : Nat) (f : Batch α → Batch α)                   -- TransformedDStream (map, filter, foreachRDD, …)
  | tr2 (a b : Nat) (f : Batch α → Batch α → Batch α)         -- TransformedWith / Cogrouped (union, join, cogroup, …)
  | win (prev : Nat) (w s : Nat)                              -- WindowedDStream
  | fold (prev : Nat) (g : Batch α → Batch α → Batch α)       -- StatefulDStream: new state = g batch oldState

structure NState (α : Type) where
  time : Nat                      -- `_current_time` (ticks are numbered 1, 2, …; 0 = never stepped)
  rdd : Batch α                   -- `_current_rdd`
  evals : Nat                     -- how often this node's body ran (its function was evaluated)
  buf : List (Batch α)            -- window buffer
  counter : Nat                   -- slide counter
  mem : Batch α                   -- state RDD of a stateful stream

structure Net (α : Type) where
  nodes : List (Node α)
  st : List (NState α)
  sources : List (QueueSrc α)
  polls : List Nat                -- number of `get()` calls per source

def NState.init : NState α := ⟨0, [], 0, [], 0, []⟩

def Net.getSt (n : Net α) (i : Nat) : NState α := n.st.getD i NState.init
def Net.setSt (n : Net α) (i : Nat) (s : NState α) : Net α := { n with st := n.st.set i s }

/-- the window a WindowedDStream holds after appending batch `b` -/
def pushWindow (w : Nat) (buf : List (Batch α)) (b : Batch α) : List (Batch α) :=
  let buf' := buf ++ [b]
  buf'.drop (buf'.length - w)

/-- `_step(t)` of node `i`. `fuel` bounds the recursion through parents (parents have smaller
indices, so `fuel = i + 1` suffices). -/
def step (t : Nat) : (fuel : Nat) → Net α → Nat → Net α
  | 0, n, _ => n
  | fuel + 1, n, i =>
    let s := n.getSt i
    if t ≤ s.time then n
    else match n.nodes[i]? with
      | none => n
      | some (.src q) =>
        match n.sources[q]? with
        | none => n
        | some src =>
          let (b, src') := src.get
          let n := { n with sources := n.sources.set q src', polls := n.polls.set q (n.polls.getD q 0 + 1) }
          n.setSt i { s with time := t, rdd := b, evals := s.evals + 1 }
      | some (.tr p f) =>
        let n := step t fuel n p
        n.setSt i { (n.getSt i) with time := t, rdd := f (n.getSt p).rdd, evals := s.evals + 1 }
      | some (.tr2 a b f) =>
        let n := step t fuel n a
        let n := step t fuel n b
        n.setSt i { (n.getSt i) with time := t, rdd := f (n.getSt a).rdd (n.getSt b).rdd, evals := s.evals + 1 }
      | some (.win p w sl) =>
        let n := step t fuel n p
        let s := n.getSt i
        let buf := pushWindow w s.buf (n.getSt p).rdd
        let c := (s.counter + 1) % sl
        n.setSt i { s with time := t, buf := buf, counter := c, evals := s.evals + 1,
                           rdd := if c = 0 then buf.flatten else [] }
      | some (.fold p g) =>
        let n := step t fuel n p
        let s := n.getSt i
        let m := g (n.getSt p).rdd s.mem
        n.setSt i { s with time := t, mem := m, rdd := m, evals := s.evals + 1 }

/-- the periodic callback: `for d in self._dstreams: d._step(time_)` -/
def tick (t : Nat) (n : Net α) : Net α :=
  (List.range n.nodes.length).foldl (fun n i => step t (i + 1) n i) n

/-- well-formed: one state per node, parents are created before their children, source numbers exist,
every source belongs to exactly one `src` node -/
def Node.parentsBelow (i : Nat) : Node α → Prop
  | .src _ => True
  | .tr p _ => p < i
  | .tr2 a b _ => a < i ∧ b < i
  | .win p _ s => p < i ∧ 0 < s
  | .fold p _ => p < i

/-! ### per-node semantics over a batch history (used by C11) -/

/-- output of `window(w, s)` at tick `t` (1-based) for the batch history `bs` (bs[0] = tick 1) -/
def windowRun (w s : Nat) : List (Batch α) → List (Batch α) × Nat → List (Batch α)
  | [], _ => []
  | b :: rest, (buf, c) =>
    let buf' := pushWindow w buf b
    let c' := (c + 1) % s
    (if c' = 0 then buf'.flatten else []) :: windowRun w s rest (buf', c')

/-- state of a stateful stream after each tick -/
def foldRun (g : Batch α → Batch α → Batch α) : List (Batch α) → Batch α → List (Batch α)
  | [], _ => []
  | b :: rest, m => let m' := g b m; m' :: foldRun g rest m'

/-- `updateStateByKey(upd)`'s state transition on keyed batches: cogroup of the batch with the old
state, then `convert_fn`: every key of either side gets `upd (its values in the batch) (its old state)` -/
def stateStep [DecidableEq κ] (upd : List ν → Option σ → σ) (batch : List (κ × ν)) (state : List (κ × σ)) :
    List (κ × σ) :=
  let keys := (batch.map (·.1) ++ state.map (·.1)).foldl (fun acc k => if k ∈ acc then acc else acc ++ [k]) []
  keys.map fun k =>
    (k, upd (batch.filterMap fun kv => if kv.1 = k then some kv.2 else none) (state.lookup k))

end PysparklingVerif.Stream
