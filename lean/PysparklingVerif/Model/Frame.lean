/-
  Model of a DataFrame as (column names, rows) and of every operation of property C15 as a
  function computing BOTH the new schema and the new rows (pysparkling/sql/internals.py: each
  operation ends in `_with_rdd(rdd, schema)` with an explicitly computed schema;
  schema_utils.get_schema_from_cols; types.row_from_keyed_values). The schema side (`opNames`)
  never looks at the rows — except the automatic pivot, whose columns are the data's pivot
  values — and the row side is built from the expression / join / aggregation models, so that
  "names, schema and every row agree" becomes an invariant to prove for all operation chains.
  Core-only.
-/
import PysparklingVerif.Model.Join
import PysparklingVerif.Model.Agg
namespace PysparklingVerif.Frame
open PysparklingVerif.Sql PysparklingVerif.Join PysparklingVerif.Agg

structure DF where
  names : List String
  rows : List Row
  deriving Repr

/-- C15's invariant on the model: every row has exactly one value per column -/
def DF.Consistent (d : DF) : Prop := ∀ r ∈ d.rows, r.length = d.names.length

instance (d : DF) : Decidable d.Consistent := by unfold DF.Consistent; exact List.decidableBAll _ _

/-! ### column references -/

inductive RefErr | missing | ambiguous | typeError | widthMismatch
  deriving DecidableEq, Repr

/-- `find_position_in_schema`: exactly one field of that name -/
def findCol (names : List String) (c : String) : Except RefErr Nat :=
  match names.zipIdx.filter (fun p => p.1 == c) with
  | [p] => .ok p.2
  | [] => .error .missing
  | _ => .error .ambiguous

/-! ### generated column names (`str(expression)`) -/

def digitsRev : Nat → Nat → List Char
  | 0, _ => []
  | fuel + 1, n => Char.ofNat (48 + n % 10) :: (if n / 10 = 0 then [] else digitsRev fuel (n / 10))

/-- Python `repr(float)` for the dyadic values with a short expansion (|q| < 10^16, denominator 2^k, k ≤ 10) -/
def dblName (q : Rat) : String :=
  let k := q.den.log2
  if 2 ^ k ≠ q.den ∨ k > 10 then "?" else
  let scaled := q.num.natAbs * 5 ^ k            -- |q| * 10^k
  let ip := scaled / 10 ^ k
  let fp := scaled % 10 ^ k
  let fdigits := (List.replicate k '0' ++ (digitsRev 20 fp).reverse).reverse.take k |>.reverse   -- zero-padded to k digits
  let ftrim := (fdigits.reverse.dropWhile (· == '0')).reverse
  (if q < 0 then "-" else "") ++ toString ip ++ "." ++ (if ftrim.isEmpty then "0" else String.ofList ftrim)

def litName : SV → String
  | .null => "NULL"
  | .int i => toString i
  | .dbl q => dblName q
  | .str s => s
  | .bool b => if b then "true" else "false"

def exprName (names : List String) : Expr → String
  | .col i => names.getD i "?"
  | .lit v => litName v
  | .neg e => "(- " ++ exprName names e ++ ")"
  | .add a b => "(" ++ exprName names a ++ " + " ++ exprName names b ++ ")"
  | .sub a b => "(" ++ exprName names a ++ " - " ++ exprName names b ++ ")"
  | .mul a b => "(" ++ exprName names a ++ " * " ++ exprName names b ++ ")"
  | .div a b => "(" ++ exprName names a ++ " / " ++ exprName names b ++ ")"
  | .mod a b => "(" ++ exprName names a ++ " % " ++ exprName names b ++ ")"
  | .eq a b => "(" ++ exprName names a ++ " = " ++ exprName names b ++ ")"
  | .ne a b => "(NOT (" ++ exprName names a ++ " = " ++ exprName names b ++ "))"
  | .lt a b => "(" ++ exprName names a ++ " < " ++ exprName names b ++ ")"
  | .le a b => "(" ++ exprName names a ++ " <= " ++ exprName names b ++ ")"
  | .gt a b => "(" ++ exprName names a ++ " > " ++ exprName names b ++ ")"
  | .ge a b => "(" ++ exprName names a ++ " >= " ++ exprName names b ++ ")"
  | .and a b => "(" ++ exprName names a ++ " AND " ++ exprName names b ++ ")"
  | .or a b => "(" ++ exprName names a ++ " OR " ++ exprName names b ++ ")"
  | .not e => "(NOT " ++ exprName names e ++ ")"
  | .isNull e => "(" ++ exprName names e ++ " IS NULL)"
  | .isNotNull e => "(" ++ exprName names e ++ " IS NOT NULL)"
  | .between e lo hi => "((" ++ exprName names e ++ " >= " ++ exprName names lo ++ ") AND (" ++ exprName names e ++ " <= " ++ exprName names hi ++ "))"
  | .coalesce a b => "coalesce(" ++ exprName names a ++ ", " ++ exprName names b ++ ")"
  | .caseWhen c t (.lit .null) => "CASE WHEN " ++ exprName names c ++ " THEN " ++ exprName names t ++ " END"
  | .caseWhen c t e => "CASE WHEN " ++ exprName names c ++ " THEN " ++ exprName names t ++ " ELSE " ++ exprName names e ++ " END"

/-! ### aggregates usable in `agg` (the exactly representable ones) -/

inductive AggFn | count | countStar | sum | min | max | avg | first | last | countDistinct
  deriving DecidableEq, Repr

structure AggSpec where
  fn : AggFn
  col : String               -- ignored by countStar
  alias : Option String
  deriving Repr

def AggFn.genName (f : AggFn) (c : String) : String :=
  match f with
  | .count => "count(" ++ c ++ ")" | .countStar => "count(1)" | .sum => "sum(" ++ c ++ ")"
  | .min => "min(" ++ c ++ ")" | .max => "max(" ++ c ++ ")" | .avg => "avg(" ++ c ++ ")"
  | .first => "first(" ++ c ++ ", false)" | .last => "last(" ++ c ++ ", false)"
  | .countDistinct => "count(DISTINCT " ++ c ++ ")"

def AggSpec.name (a : AggSpec) : String := a.alias.getD (a.fn.genName a.col)

/-- the aggregate's value, read from the accumulator of its column -/
def AggFn.project (f : AggFn) (s : St) : SV :=
  match f with
  | .count => .int s.n
  | .countStar => .int s.rows
  | .sum => if s.n = 0 then .null else
      (match s.items.head? with
       | some (.int _) => .int (s.sum.num / s.sum.den)
       | _ => .dbl s.sum)
  | .min => s.minV.getD .null
  | .max => s.maxV.getD .null
  | .avg => match s.avg with | some q => .dbl q | none => .null
  | .first => s.first.getD .null
  | .last => s.last.getD .null
  | .countDistinct => .int s.distinct.length

/-! ### operations -/

inductive SelItem where
  | star
  | col (c : String)
  | expr (alias : Option String) (e : Expr)      -- column references inside `e` are positions
  deriving Repr

inductive GroupMode | groupBy | rollup | cube
  deriving DecidableEq, Repr

inductive Op where
  | select (items : List SelItem)
  | withColumn (name : String) (e : Expr)
  | filter (e : Expr)
  | drop (cols : List String)
  | rename (old new : String)
  | join (how : How) (on : List String) (other : DF)
  | crossJoin (other : DF)
  | joinOn (how : How) (cond : Expr) (other : DF)  -- `join(other, on=<Column>, how)`: column references in `cond` are positions in left ++ right
  | union (other : DF)
  | agg (mode : GroupMode) (keys : List String) (aggs : List AggSpec)
  | pivot (keys : List String) (pcol : String) (values : Option (List String)) (aggs : List AggSpec)
  | sort (keys : List (String × Bool))            -- (column, ascending)
  | limit (n : Nat)
  | distinct
  | sample (keep : List Bool)                     -- the sampler's decision per row, in row order
  | repartition (n : Nat)
  deriving Repr

/-- the output fields of one select item (`get_schema_from_cols`): a column reference is resolved against the
schema right away, whatever the rows are -/
def itemNames (names : List String) : SelItem → Except RefErr (List String)
  | .star => .ok names
  | .col c => do let _ ← findCol names c; return [c]
  | .expr (some a) _ => .ok [a]
  | .expr none e => .ok [exprName names e]

def itemVals (names : List String) (r : Row) : SelItem → Except RefErr (List SV)
  | .star => .ok r
  | .col c => do let i ← findCol names c; return [r.getD i .null]
  | .expr _ e => match evalM r e with | .ok v => .ok [v] | .error _ => .error .typeError

def aggNames (aggs : List AggSpec) : List String := aggs.map (·.name)

def pivotNames (pvs : List String) (aggs : List AggSpec) : List String :=
  match aggs with
  | [_] => pvs
  | _ => pvs.flatMap fun p => aggs.map fun a => p ++ "_" ++ a.name

/-- the pivot values of an operation: given, or the sorted distinct non-null values of the pivot column -/
def pivotVals (d : DF) (pcol : String) (values : Option (List String)) : Except RefErr (List SV) :=
  match values with
  | some vs => .ok (vs.map .str)
  | none => do
      let i ← findCol d.names pcol
      return pivotValues (d.rows.map fun r => r.getD i .null)

def svStr : SV → String
  | .str s => s
  | v => litName v

/-! ### join on a condition -/

/-- `merge_schemas(left, right, how)` without join columns: all columns of both sides, the left ones only for semi / anti -/
def joinOnNames (how : How) (ln rn : List String) : List String :=
  match how with
  | .semi | .anti => ln
  | _ => ln ++ rn

/-- the condition on one pair of rows, evaluated on the columns of both sides; a null condition does not hold -/
def condHolds (e : Expr) (l r : Row) : Except RefErr Bool :=
  match evalM (l ++ r) e with
  | .ok (.bool b) => .ok b
  | .ok .null => .ok false
  | _ => .error .typeError

def nullRow (n : Nat) : Row := List.replicate n .null

/-- what one left row contributes, given which right rows it matches -/
def joinOnLeft (how : How) (rn : Nat) (l : Row) (partners : List Row) : List Row :=
  match how with
  | .semi => if partners.isEmpty then [] else [l]
  | .anti => if partners.isEmpty then [l] else []
  | .inner | .right => partners.map (l ++ ·)
  | .left | .full => if partners.isEmpty then [l ++ nullRow rn] else partners.map (l ++ ·)

/-- `join(other, on=<Column>, how)` (REPAIRED): a nested loop; one row per matching pair, null-padded rows for the
unmatched side of outer joins, left rows by existence / absence of a match for semi / anti -/
def joinOnRows (how : How) (e : Expr) (ln rn : Nat) (ls rs : List Row) : Except RefErr (List Row) := do
  let m ← ls.mapM fun l => rs.mapM fun r => condHolds e l r
  let perLeft := (ls.zip m).flatMap fun (l, ms) =>
    joinOnLeft how rn l ((rs.zip ms).filterMap fun (r, b) => if b then some r else none)
  let unmatched := rs.zipIdx.filterMap fun (r, j) =>
    if m.any (fun ms => ms.getD j false) then none else some (nullRow ln ++ r)
  return match how with
    | .right | .full => perLeft ++ unmatched
    | _ => perLeft

/-- the code as it was: `how` ignored, the matching pairs merged for every join type (kept for the defect witness) -/
def joinOnRowsOld (e : Expr) (ls rs : List Row) : Except RefErr (List Row) := do
  let m ← ls.mapM fun l => rs.mapM fun r => condHolds e l r
  return (ls.zip m).flatMap fun (l, ms) => (rs.zip ms).filterMap fun (r, b) => if b then some (l ++ r) else none

/-- SCHEMA side: the column names after an operation, from the names before it (and, for the automatic
pivot only, the pivot values found in the data) -/
def opNames (d : DF) : Op → Except RefErr (List String)
  | .select items => do return (← items.mapM (itemNames d.names)).flatten
  | .withColumn name _ => .ok (if d.names.contains name then d.names else d.names ++ [name])
  | .filter _ => .ok d.names
  | .drop cols => .ok (dropCols d.names cols []).1      -- REPAIRED: a name that several columns carry drops all of them
  | .rename old new => .ok (d.names.map fun n => if n == old then new else n)
  | .join how on other => .ok (joinNames how d.names other.names on)
  | .crossJoin other => .ok (d.names ++ other.names)
  | .joinOn how _ other => .ok (joinOnNames how d.names other.names)
  | .union _ => .ok d.names
  | .agg _ keys aggs => .ok (keys ++ aggNames aggs)
  | .pivot keys pcol values aggs => do
      let pvs ← pivotVals d pcol values
      return keys ++ pivotNames (pvs.map svStr) aggs
  | .sort _ => .ok d.names
  | .limit _ => .ok d.names
  | .distinct => .ok d.names
  | .sample _ => .ok d.names
  | .repartition _ => .ok d.names

def colOf (r : Row) (i : Nat) : SV := r.getD i .null

/-- the (key tuple, aggregated values) view of a table for `agg` -/
def aggInput (d : DF) (keys : List String) (aggs : List AggSpec) : Except RefErr (List (List SV × List SV)) := do
  let ki ← keys.mapM (findCol d.names)
  let ai ← aggs.mapM fun a => if a.fn = .countStar then pure 0 else findCol d.names a.col
  return d.rows.map fun r => (ki.map (colOf r), ai.map (colOf r))

def projectAll (aggs : List AggSpec) (sts : List St) : List SV := (aggs.zip sts).map fun (a, s) => a.fn.project s

def showKey (k : List (Option SV)) : List SV := k.map fun o => o.getD .null

def keysOfMode : GroupMode → List SV → List (List (Option SV))
  | .groupBy => groupByKeys
  | .rollup => rollupKeys
  | .cube => cubeKeys

/-- chunks of `n` accumulators, one per pivot value -/
def chunks (n : Nat) : Nat → List St → List (List St)
  | 0, _ => []
  | k + 1, sts => sts.take n :: chunks n k (sts.drop n)

/-- ROW side: the rows after an operation -/
def opRows (d : DF) : Op → Except RefErr (List Row)
  | .select items => d.rows.mapM fun r => do
      let vs ← items.mapM (itemVals d.names r)
      return vs.flatten
  | .withColumn name e =>
      match withColumnM d.names name e d.rows with
      | .ok p => .ok p.2
      | .error _ => .error .typeError
  | .filter e => match filterM e d.rows with | .ok rs => .ok rs | .error _ => .error .typeError
  | .drop cols => .ok (dropCols d.names cols d.rows).2
  | .rename _ _ => .ok d.rows
  | .join how on other => do
      for c in on do
        let _ ← findCol d.names c
        let _ ← findCol other.names c
      return dfJoin how d.names other.names on [d.rows] [other.rows]
  | .crossJoin other => .ok (crossJoin [d.rows] [other.rows])
  | .joinOn how cond other => joinOnRows how cond d.names.length other.names.length d.rows other.rows
  | .union other => if other.names.length = d.names.length then .ok (unionM d.rows other.rows) else .error .widthMismatch
  | .agg mode keys aggs => do
      let rows ← aggInput d keys aggs
      let g := aggregateSpec aggs.length (expand (keysOfMode mode) rows)
      return g.map fun e => showKey e.1 ++ projectAll aggs e.2
  | .pivot keys pcol values aggs => do
      let pvs ← pivotVals d pcol values
      let pi ← findCol d.names pcol
      let rows ← aggInput d keys aggs
      let prow := (d.rows.zip rows).map fun (r, kv) => (kv.1, colOf r pi, kv.2)
      let g := aggregatePivotSpec aggs.length pvs prow
      return g.map fun e => e.1 ++ ((chunks aggs.length pvs.length e.2).flatMap (projectAll aggs))
  | .sort keys => do
      let ks ← keys.mapM fun (c, asc) => do
        let i ← findCol d.names c
        return ({ e := .col i, asc := asc, nullsFirst := asc } : SortKey)
      return sortM ks d.rows
  | .limit n => .ok (limitM n d.rows)
  | .distinct => .ok (dedupBy id d.rows)
  | .sample keep => .ok ((d.rows.zip keep).filterMap fun (r, k) => if k then some r else none)
  | .repartition _ => .ok d.rows

def apply (d : DF) (op : Op) : Except RefErr DF := do
  let names ← opNames d op
  let rows ← opRows d op
  return { names := names, rows := rows }

def run (d : DF) (ops : List Op) : Except RefErr DF := ops.foldlM apply d

/-- `createDataFrame(rows, names)` and `range(start, end, step)` -/
def create (names : List String) (rows : List Row) : Except RefErr DF :=
  if rows.all (fun r => r.length == names.length) then .ok ⟨names, rows⟩ else .error .widthMismatch

/-- the field names of a list of `Row` objects in order of first appearance (`_infer_schema` per row, `_merge_type` across
rows: the fields of the rows so far, then the new ones of the next row) -/
def unionNames (rows : List (List (String × SV))) : List String :=
  rows.foldl (fun acc r => r.foldl (fun acc kv => if acc.contains kv.1 then acc else acc ++ [kv.1]) acc) []

/-- `createDataFrame(list of Row objects)` with an inferred schema (REPAIRED): every row is re-keyed against the merged schema
by field name; a field the row does not have is null -/
def createFromRows (rows : List (List (String × SV))) : DF :=
  ⟨unionNames rows, rows.map fun r => (unionNames rows).map fun n => (r.lookup n).getD .null⟩

/-- the code as it was: every `Row` passed on as it is (kept for the defect witness) -/
def createFromRowsOld (rows : List (List (String × SV))) : DF :=
  ⟨unionNames rows, rows.map fun r => r.map (·.2)⟩

def range (start stop : Int) (step : Nat) : DF :=
  ⟨["id"], (List.range (if step = 0 then 0 else ((stop - start).toNat + step - 1) / step)).map fun (i : Nat) => [.int (start + (i : Int) * (step : Int))]⟩

end PysparklingVerif.Frame
