/-
  Model of lazy, pull-based evaluation of element-wise pipelines (MapPartitionsRDD.compute
  builds nested generator expressions; `take`/`first` pull through
  `itertools.islice(chain.from_iterable(partitions), n)`). A lazy stream is the list of its
  outputs, each carrying the user-function call events that had to happen to produce it, plus
  the events that happen only when the stream is pulled to exhaustion. Core-only.
-/
namespace PysparklingVerif.Lazy

/-- element-wise transformations (mapValues / flatMapValues / keyBy / keys / values are maps/flatMaps) -/
inductive LOp (α : Type) where
  | map (f : α → α)
  | filter (p : α → Bool)
  | flatMap (f : α → List α)

/-- a call event: user function of pipeline stage `stage` was invoked on `arg` -/
structure Ev (α : Type) where
  stage : Nat
  arg : α
  deriving DecidableEq, Repr

structure Cell (α : Type) where
  events : List (Ev α)      -- calls needed to produce this output (in order)
  value : α

structure LStream (α : Type) where
  cells : List (Cell α)
  trailing : List (Ev α)    -- calls that happen only when the consumer pulls past the last output

/-- a partition's data: producing an element calls nothing -/
def source (xs : List α) : LStream α := ⟨xs.map fun x => ⟨[], x⟩, []⟩

/-- `(f(x) for x in upstream)` -/
def lmap (k : Nat) (f : α → α) (s : LStream α) : LStream α :=
  ⟨s.cells.map fun c => ⟨c.events ++ [⟨k, c.value⟩], f c.value⟩, s.trailing⟩

/-- `(x for x in upstream if p(x))`: the calls spent on dropped elements are charged to the next
survivor (or to exhaustion) -/
def lfilterAux (k : Nat) (p : α → Bool) : List (Cell α) → List (Ev α) → List (Ev α) → LStream α
  | [], pending, trailing => ⟨[], pending ++ trailing⟩
  | c :: cs, pending, trailing =>
    let evs := pending ++ c.events ++ [⟨k, c.value⟩]
    if p c.value then
      let rest := lfilterAux k p cs [] trailing
      ⟨⟨evs, c.value⟩ :: rest.cells, rest.trailing⟩
    else lfilterAux k p cs evs trailing

def lfilter (k : Nat) (p : α → Bool) (s : LStream α) : LStream α := lfilterAux k p s.cells [] s.trailing

/-- `(e for x in upstream for e in f(x))`: `f(x)` is called when its first output is needed -/
def lflatMapAux (k : Nat) (f : α → List α) : List (Cell α) → List (Ev α) → List (Ev α) → LStream α
  | [], pending, trailing => ⟨[], pending ++ trailing⟩
  | c :: cs, pending, trailing =>
    let evs := pending ++ c.events ++ [⟨k, c.value⟩]
    match f c.value with
    | [] => lflatMapAux k f cs evs trailing
    | y :: ys =>
      let rest := lflatMapAux k f cs [] trailing
      ⟨⟨evs, y⟩ :: (ys.map fun y => ⟨[], y⟩) ++ rest.cells, rest.trailing⟩

def lflatMap (k : Nat) (f : α → List α) (s : LStream α) : LStream α := lflatMapAux k f s.cells [] s.trailing

def applyOp (k : Nat) : LOp α → LStream α → LStream α
  | .map f, s => lmap k f s
  | .filter p, s => lfilter k p s
  | .flatMap f, s => lflatMap k f s

/-- stage numbers are positions in the pipeline, starting at `k0` -/
def build (ops : List (LOp α)) (k0 : Nat) (s : LStream α) : LStream α :=
  match ops with
  | [] => s
  | op :: rest => build rest (k0 + 1) (applyOp k0 op s)

/-- a single-pass action consumes the whole partition: every event happens, in this order -/
def pullAll (s : LStream α) : List (Ev α) × List α :=
  (s.cells.flatMap (·.events) ++ s.trailing, s.cells.map (·.value))

/-- pulling `n` outputs (`islice`): only the events of the first `n` cells; the trailing events happen
only if the stream runs dry before `n` outputs were obtained -/
def pullN (n : Nat) (s : LStream α) : List (Ev α) × List α :=
  if n ≤ s.cells.length then ((s.cells.take n).flatMap (·.events), (s.cells.take n).map (·.value))
  else pullAll s

/-- `islice(chain.from_iterable(streams), n)`: partitions are pulled in order; the next one is touched
only when the previous ones ran dry with fewer than `n` outputs -/
def takeChain : Nat → List (LStream α) → List (Ev α) × List α
  | 0, _ => ([], [])
  | _, [] => ([], [])
  | n + 1, s :: rest =>
    let (e, v) := pullN (n + 1) s
    if v.length < n + 1 then
      let (e', v') := takeChain (n + 1 - v.length) rest
      (e ++ e', v ++ v')
    else (e, v)

/-- `(x for x in upstream for _ in range(k(x)))` - the stage of `sample` / `sampleByKey`: every upstream element is pulled
(its calls happen) and is emitted as often as the sampler drew for it, possibly never; the sampler is library code and logs
nothing. `draws` are the numbers the seeded generator yields, in element order (none left: 0). -/
def lsampleAux : List Nat → List (Cell α) → List (Ev α) → List (Ev α) → LStream α
  | _, [], pending, trailing => ⟨[], pending ++ trailing⟩
  | ds, c :: cs, pending, trailing =>
    let evs := pending ++ c.events
    match ds.headD 0 with
    | 0 => lsampleAux ds.tail cs evs trailing
    | n + 1 =>
      let rest := lsampleAux ds.tail cs [] trailing
      ⟨⟨evs, c.value⟩ :: (List.replicate n ⟨[], c.value⟩) ++ rest.cells, rest.trailing⟩

def lsample (draws : List Nat) (s : LStream α) : LStream α := lsampleAux draws s.cells [] s.trailing

/-! ### the two `itertools` primitives `take` / `first` are written with, as stream transformers (used by the regenerated
fragment `Extracted/GenC06.lean`; `Extracted/EquivC06.lean` proves that their composition is `takeChain`) -/

/-- what the consumer had to do before it reached this stream is charged to the stream's first output, or - when it has
none - to its exhaustion -/
def prefixEvents (pending : List (Ev α)) (s : LStream α) : LStream α :=
  match s.cells with
  | [] => ⟨[], pending ++ s.trailing⟩
  | c :: cs => ⟨⟨pending ++ c.events, c.value⟩ :: cs, s.trailing⟩

/-- `itertools.chain.from_iterable(streams)`: ONE lazy stream; the next stream is touched only when the previous one has run
dry, and running it dry (its trailing events) comes before the first call of the next -/
def chainStreams : List (LStream α) → LStream α
  | [] => ⟨[], []⟩
  | s :: rest =>
    let r := prefixEvents s.trailing (chainStreams rest)
    ⟨s.cells ++ r.cells, r.trailing⟩

/-- `list(itertools.islice(stream, n))`: pull `n` outputs (or all there are) -/
def isliceList (n : Nat) (s : LStream α) : List (Ev α) × List α := pullN n s

/-- list semantics of the same ops (the values a stream must produce) and of each stage's inputs -/
def LOp.runList : LOp α → List α → List α
  | .map f, xs => xs.map f
  | .filter p, xs => xs.filter p
  | .flatMap f, xs => xs.flatMap f

def runListAll (ops : List (LOp α)) (xs : List α) : List α := ops.foldl (fun xs op => op.runList xs) xs

end PysparklingVerif.Lazy
