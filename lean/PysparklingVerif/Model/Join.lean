/-
  Model of DataFrame joins on column names (pysparkling/sql/internals.py join_on_values /
  cross_join, utils.merge_rows_joined_on_values, schema_utils.merge_schemas — with the
  repaired semi/anti schema) on top of the keyed RDD joins of Model/Keyed.lean. Core-only.
-/
import PysparklingVerif.Model.Keyed
import PysparklingVerif.Model.Sql
namespace PysparklingVerif.Join
open PysparklingVerif.Rdd PysparklingVerif.Keyed PysparklingVerif.Sql

inductive How | inner | left | right | full | semi | anti
  deriving DecidableEq, Repr

/-- `tuple(row[c] for c in on)` -/
def keyOf (names on : List String) (r : Row) : List SV := on.map fun c => r.getD (names.idxOf c) .null

/-- the values of the columns that are not join keys, in column order -/
def rest (names on : List String) (r : Row) : List SV :=
  (names.zip r).filterMap fun (n, v) => if on.contains n then none else some v

def restNames (names on : List String) : List String := names.filter fun n => !on.contains n

def nulls (n : Nat) : List SV := List.replicate n .null

/-- `merge_rows_joined_on_values`: key values (from the left row if there is one), the remaining left
values (nulls if the left side is missing), the remaining right values (nulls if missing) -/
def mergeRow (ln rn on : List String) (l : Option Row) (r : Option Row) (withRight : Bool) : Row :=
  let key := match l, r with
    | some l, _ => keyOf ln on l
    | none, some r => keyOf rn on r
    | none, none => nulls on.length
  let lp := match l with | some l => rest ln on l | none => nulls (restNames ln on).length
  let rp := if withRight then (match r with | some r => rest rn on r | none => nulls (restNames rn on).length) else []
  key ++ lp ++ rp

/-- `merge_schemas` (repaired): key columns once, left rest, right rest (none for semi/anti) -/
def joinNames (how : How) (ln rn on : List String) : List String :=
  on ++ restNames ln on ++ (if how = .semi ∨ how = .anti then [] else restNames rn on)

/-- `join_on_values`: key both sides, run the keyed RDD join, format every pair -/
def dfJoin (how : How) (ln rn on : List String) (l r : Parts Row) : List Row :=
  let kl : Parts (List SV × Row) := Rdd.map (fun row => (keyOf ln on row, row)) l
  let kr : Parts (List SV × Row) := Rdd.map (fun row => (keyOf rn on row, row)) r
  match how with
  | .inner => (flat (Keyed.join none kl kr)).map fun e => mergeRow ln rn on (some e.2.1) (some e.2.2) true
  | .left => (flat (Keyed.leftOuterJoin kl kr)).map fun e => mergeRow ln rn on (some e.2.1) e.2.2 true
  | .right => (flat (Keyed.rightOuterJoin kl kr)).map fun e => mergeRow ln rn on e.2.1 (some e.2.2) true
  | .full => (flat (Keyed.fullOuterJoin kl kr)).map fun e => mergeRow ln rn on e.2.1 e.2.2 true
  | .semi => (flat (Keyed.leftSemiJoin kl kr)).map fun e => mergeRow ln rn on (some e.2) none false
  | .anti => (flat (Keyed.leftAntiJoin kl kr)).map fun e => mergeRow ln rn on (some e.2) none false

/-- `crossJoin`: cartesian product, left row then right row -/
def crossJoin (l r : Parts Row) : List Row := (flat (Keyed.cartesian l r)).map fun e => e.1 ++ e.2

/-! ### SPEC: nested-loop joins on plain row lists -/

def keyMatch (ln rn on : List String) (a b : Row) : Bool := keyOf ln on a == keyOf rn on b

def specJoin (how : How) (ln rn on : List String) (L R : List Row) : List Row :=
  match how with
  | .inner => L.flatMap fun a => (R.filter (keyMatch ln rn on a)).map fun b => mergeRow ln rn on (some a) (some b) true
  | .left => L.flatMap fun a =>
      let ms := R.filter (keyMatch ln rn on a)
      if ms.isEmpty then [mergeRow ln rn on (some a) none true] else ms.map fun b => mergeRow ln rn on (some a) (some b) true
  | .right => R.flatMap fun b =>
      let ms := L.filter fun a => keyMatch ln rn on a b
      if ms.isEmpty then [mergeRow ln rn on none (some b) true] else ms.map fun a => mergeRow ln rn on (some a) (some b) true
  | .full =>
      (L.flatMap fun a =>
        let ms := R.filter (keyMatch ln rn on a)
        if ms.isEmpty then [mergeRow ln rn on (some a) none true] else ms.map fun b => mergeRow ln rn on (some a) (some b) true) ++
      ((R.filter fun b => !(L.any fun a => keyMatch ln rn on a b)).map fun b => mergeRow ln rn on none (some b) true)
  | .semi => (L.filter fun a => R.any (keyMatch ln rn on a)).map fun a => mergeRow ln rn on (some a) none false
  | .anti => (L.filter fun a => !(R.any (keyMatch ln rn on a))).map fun a => mergeRow ln rn on (some a) none false

end PysparklingVerif.Join
