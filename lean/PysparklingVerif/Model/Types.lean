/-
  Model of pysparkling/sql/types.py: data type trees and their JSON description
  (jsonValue / _parse_datatype_json_value), schema inference (_infer_type, _infer_schema,
  _merge_type, _has_nulltype), the verifier (_make_type_verifier) and Row. Core-only.
  Mirrors the REPAIRED code (list inference looks at the first non-None element; LongType is
  range checked).
-/
import PysparklingVerif.Model.Cast
namespace PysparklingVerif.Types

/-- JSON values (what `json.loads` yields); objects are order-insensitive: all lookups are by key -/
inductive J where
  | null
  | bool (b : Bool)
  | num (n : Int)
  | str (s : String)
  | arr (xs : List J)
  | obj (kvs : List (String × J))
  deriving Repr, Inhabited

def J.get (j : J) (k : String) : Option J :=
  match j with
  | .obj kvs => kvs.lookup k
  | _ => none

inductive Atom | null | string | binary | boolean | date | timestamp | double | float | byte | integer | long | short
  deriving DecidableEq, Repr

/-- `typeName()` = class name without `Type`, lower-cased -/
def Atom.name : Atom → String
  | .null => "null" | .string => "string" | .binary => "binary" | .boolean => "boolean" | .date => "date"
  | .timestamp => "timestamp" | .double => "double" | .float => "float" | .byte => "byte"
  | .integer => "integer" | .long => "long" | .short => "short"

/-- `_all_atomic_types` (NullType and the atomic classes) -/
def Atom.all : List Atom :=
  [.null, .string, .binary, .boolean, .date, .timestamp, .double, .float, .byte, .integer, .long, .short]
def Atom.ofName (s : String) : Option Atom := Atom.all.find? (fun a => a.name == s)

inductive DType where
  | atom (a : Atom)
  | decimal (precision : Nat) (scale : Int)
  | array (elem : DType) (containsNull : Bool)
  | map (key value : DType) (valueContainsNull : Bool)
  | struct (fields : List (String × DType × Bool × J))     -- name, type, nullable, metadata
  deriving Repr, Inhabited

/-! ### JSON description -/

/-- `f'decimal({precision:d},{scale:d})'` -/
def decimalString (p : Nat) (s : Int) : String :=
  "decimal(" ++ String.ofList (Cast.renderNat p) ++ "," ++ String.ofList (Cast.renderInt s) ++ ")"

mutual
def toJ : DType → J
  | .atom a => .str a.name
  | .decimal p s => .str (decimalString p s)
  | .array e cn => .obj [("type", .str "array"), ("elementType", toJ e), ("containsNull", .bool cn)]
  | .map k v vcn =>
      .obj [("type", .str "map"), ("keyType", toJ k), ("valueType", toJ v), ("valueContainsNull", .bool vcn)]
  | .struct fs => .obj [("type", .str "struct"), ("fields", .arr (toJFields fs))]
def toJFields : List (String × DType × Bool × J) → List J
  | [] => []
  | (n, t, nu, md) :: r =>
      .obj [("name", .str n), ("type", toJ t), ("nullable", .bool nu), ("metadata", md)] :: toJFields r
end

/-- `_FIXED_DECIMAL = decimal\(\s*(\d+)\s*,\s*(-?\d+)\s*\)` matched at the start of the string -/
def parseDecimal (s : String) : Option (Nat × Int) :=
  let cs := s.toList
  if !("decimal(".toList.isPrefixOf cs) then none else
  let rest := cs.drop 8
  let a := (rest.takeWhile (· != ',')).filter (· != ' ')
  let afterComma := (rest.dropWhile (· != ',')).drop 1
  let b := (afterComma.takeWhile (· != ')')).filter (· != ' ')
  if !(afterComma.contains ')') then none else
  match Cast.parseNat a, (match b with | '-' :: ds => (Cast.parseNat ds).map fun n => -(n : Int) | ds => (Cast.parseNat ds).map fun n => (n : Int)) with
  | some p, some sc => some (p, sc)
  | _, _ => none

mutual
/-- `_parse_datatype_json_value`; `fuel` bounds the nesting depth (the JSON value is finite) -/
def ofJ : Nat → J → Option DType
  | 0, _ => none
  | _ + 1, .str s =>
      match Atom.ofName s with
      | some a => some (.atom a)
      | none => if s == "decimal" then some (.decimal 10 0) else (parseDecimal s).map fun (p, sc) => .decimal p sc
  | fuel + 1, .obj kvs =>
      match kvs.lookup "type" with
      | some (.str "array") =>
          match kvs.lookup "elementType", kvs.lookup "containsNull" with
          | some e, some (.bool cn) => (ofJ fuel e).map fun e => .array e cn
          | _, _ => none
      | some (.str "map") =>
          match kvs.lookup "keyType", kvs.lookup "valueType", kvs.lookup "valueContainsNull" with
          | some k, some v, some (.bool vcn) =>
              match ofJ fuel k, ofJ fuel v with
              | some k, some v => some (.map k v vcn)
              | _, _ => none
          | _, _, _ => none
      | some (.str "struct") =>
          match kvs.lookup "fields" with
          | some (.arr fs) => (ofJFields fuel fs).map .struct
          | _ => none
      | _ => none
  | _ + 1, _ => none
def ofJFields : Nat → List J → Option (List (String × DType × Bool × J))
  | 0, _ => none
  | _ + 1, [] => some []
  | fuel + 1, .obj kvs :: r =>
      match kvs.lookup "name", kvs.lookup "type", kvs.lookup "nullable", kvs.lookup "metadata" with
      | some (.str n), some t, some (.bool nu), some md =>
          match ofJ fuel t, ofJFields fuel r with
          | some t, some r => some ((n, t, nu, md) :: r)
          | _, _ => none
      | _, _, _, _ => none
  | _ + 1, _ :: _ => none
end

mutual
/-- enough fuel to parse `toJ t` -/
def DType.size : DType → Nat
  | .atom _ => 1
  | .decimal _ _ => 1
  | .array e _ => e.size + 1
  | .map k v _ => k.size + v.size + 1
  | .struct fs => sizeFields fs + 1
def sizeFields : List (String × DType × Bool × J) → Nat
  | [] => 1
  | (_, t, _, _) :: r => t.size + sizeFields r + 1
end

/-! ### Python values, inference, merging -/

/-- the supported Python values (payloads that do not matter for typing are dropped) -/
inductive PV where
  | none
  | bool (b : Bool)
  | int (i : Int)
  | float
  | str
  | bytes
  | decimal
  | date
  | datetime
  | list (xs : List PV)
  | dict (kvs : List (PV × PV))
  | row (fields : List (String × PV))       -- Row / namedtuple with field names
  deriving Repr, Inhabited

def PV.isNone : PV → Bool
  | .none => true
  | _ => false

mutual
/-- `_infer_type` (REPAIRED: a list is typed by its first non-None element) -/
def infer : PV → DType
  | .none => .atom .null
  | .bool _ => .atom .boolean
  | .int _ => .atom .long
  | .float => .atom .double
  | .str => .atom .string
  | .bytes => .atom .binary
  | .decimal => .decimal 38 18
  | .date => .atom .date
  | .datetime => .atom .timestamp
  | .list xs => .array (inferFirst xs) true
  | .dict kvs => inferDict kvs
  | .row fs => .struct (inferFields fs)
/-- type of the first non-None element, `NullType` if there is none -/
def inferFirst : List PV → DType
  | [] => .atom .null
  | x :: xs => if x.isNone then inferFirst xs else infer x
/-- first pair with non-None key and value, `MapType(NullType, NullType)` if there is none -/
def inferDict : List (PV × PV) → DType
  | [] => .map (.atom .null) (.atom .null) true
  | (k, v) :: r => if k.isNone || v.isNone then inferDict r else .map (infer k) (infer v) true
def inferFields : List (String × PV) → List (String × DType × Bool × J)
  | [] => []
  | (n, v) :: r => (n, infer v, true, .obj []) :: inferFields r
end

def DType.isNull : DType → Bool
  | .atom .null => true
  | _ => false

mutual
def hasNull : DType → Bool
  | .atom a => a == .null
  | .decimal _ _ => false
  | .array e _ => hasNull e
  | .map k v _ => hasNull k || hasNull v
  | .struct fs => hasNullFields fs
def hasNullFields : List (String × DType × Bool × J) → Bool
  | [] => false
  | (_, t, _, _) :: r => hasNull t || hasNullFields r
end

/-- same Python class (`type(a) is type(b)`) -/
def sameClass : DType → DType → Bool
  | .atom a, .atom b => a == b
  | .decimal _ _, .decimal _ _ => true
  | .array _ _, .array _ _ => true
  | .map _ _ _, .map _ _ _ => true
  | .struct _, .struct _ => true
  | _, _ => false

def lookupField (fs : List (String × DType × Bool × J)) (n : String) : Option DType :=
  (fs.find? (·.1 == n)).map (·.2.1)

mutual
/-- `_merge_type(a, b)`; `none` = TypeError -/
def merge : DType → DType → Option DType
  | a, b =>
    if a.isNull then some b
    else if b.isNull then some a
    else if !sameClass a b then none
    else match a, b with
      | .struct fa, .struct fb =>
          match mergeFields fa fb with
          | some fs => some (.struct (fs ++ fb.filter fun f => !(fa.any (·.1 == f.1))))
          | none => none
      | .array ea _, .array eb _ => (merge ea eb).map fun e => .array e true
      | .map ka va _, .map kb vb _ =>
          match merge ka kb, merge va vb with
          | some k, some v => some (.map k v true)
          | _, _ => none
      | a, _ => some a
/-- the fields of `a`, each merged with the same-named field of `b` (or NullType) -/
def mergeFields : List (String × DType × Bool × J) → List (String × DType × Bool × J) →
    Option (List (String × DType × Bool × J))
  | [], _ => some []
  | (n, t, _, _) :: r, fb =>
      match merge t ((lookupField fb n).getD (.atom .null)), mergeFields r fb with
      | some t', some r' => some ((n, t', true, .obj []) :: r')
      | _, _ => none
end

/-- `infer_schema_from_list`: merge the inferred row types; fails on a merge conflict or if a null type is left -/
def inferSchema (rows : List PV) : Option DType :=
  match rows with
  | [] => none
  | r :: rest =>
    match rest.foldl (fun acc x => acc.bind fun a => merge a (infer x)) (some (infer r)) with
    | some t => if hasNull t then none else some t
    | none => none

/-! ### verification -/

inductive VErr | nullability | wrongType | outOfRange | length
  deriving DecidableEq, Repr

/-- `type(obj) in _acceptable_types[type]` for scalar types (the exact class: a `bool`, although a subclass of `int`, is a
value of BooleanType only) -/
def acceptsScalar (a : Atom) (v : PV) : Bool :=
  match a, v with
  | .boolean, .bool _ => true
  | .byte, .int _ | .short, .int _ | .integer, .int _ | .long, .int _ => true
  | .float, .float | .double, .float => true
  | .binary, .bytes => true
  | .date, .date | .date, .datetime => true
  | .timestamp, .datetime => true
  | _, _ => false

def intOf : PV → Int
  | .int i => i
  | .bool b => if b then 1 else 0
  | _ => 0

def rangeOk (a : Atom) (i : Int) : Bool :=
  match a with
  | .byte => -128 ≤ i && i ≤ 127
  | .short => -32768 ≤ i && i ≤ 32767
  | .integer => -2147483648 ≤ i && i ≤ 2147483647
  | .long => -9223372036854775808 ≤ i && i ≤ 9223372036854775807
  | _ => true

/-- `_make_type_verifier(dataType, nullable)(obj)`; `none` = accepted. `fuel` bounds the nesting depth of
the value (every recursive call descends into the value); running out of fuel is reported as `wrongType`. -/
def verify : Nat → DType → Bool → PV → Option VErr
  | 0, _, _, _ => some .wrongType
  | fuel + 1, t, nullable, v =>
    if v.isNone then (if nullable then none else some .nullability)
    else match t with
      | .atom .string => none                     -- StringType: no check at all (as in PySpark)
      | .atom .null => some .wrongType            -- assert: NullType is not in _acceptable_types
      | .atom a =>
          if !acceptsScalar a v then some .wrongType
          else if !rangeOk a (intOf v) then some .outOfRange else none
      | .decimal _ _ => (match v with | .decimal => none | _ => some .wrongType)
      | .array e cn =>
          (match v with
           | .list xs => xs.findSome? fun x => verify fuel e cn x
           | _ => some .wrongType)
      | .map k vt vcn =>
          (match v with
           | .dict kvs => kvs.findSome? fun (a, b) => (verify fuel k false a).or (verify fuel vt vcn b)
           | _ => some .wrongType)
      | .struct fs =>
          match v with
          | .row vs =>                                           -- Row: fields are looked up by NAME
              fs.findSome? fun (n, ft, nu, _) =>
                match vs.lookup n with
                | none => some .wrongType                        -- obj[f] raises for an unknown field
                | some x => verify fuel ft nu x
          | .list xs =>                                          -- tuple / list: by position
              if xs.length != fs.length then some .length
              else (fs.zip xs).findSome? fun ((_, ft, nu, _), x) => verify fuel ft nu x
          | _ => some .wrongType

mutual
/-- nesting depth of a value (enough fuel for `verify`) -/
def PV.depth : PV → Nat
  | .list xs => depthList xs + 1
  | .dict kvs => depthPairs kvs + 1
  | .row fs => depthFields fs + 1
  | _ => 1
def depthList : List PV → Nat
  | [] => 0
  | x :: xs => max x.depth (depthList xs)
def depthPairs : List (PV × PV) → Nat
  | [] => 0
  | (a, b) :: r => max (max a.depth b.depth) (depthPairs r)
def depthFields : List (String × PV) → Nat
  | [] => 0
  | (_, v) :: r => max v.depth (depthFields r)
end

/-! ### Row -/

/-- `Row.asDict()` = `dict(zip(fields, values))` (last duplicate name wins) -/
def asDict (names : List String) (values : List α) : List (String × α) :=
  (names.zip values).foldl (fun acc kv =>
    if acc.any (·.1 == kv.1) then acc.map (fun e => if e.1 == kv.1 then kv else e) else acc ++ [kv]) []

end PysparklingVerif.Types
