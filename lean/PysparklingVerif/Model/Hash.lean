/-
  Model of `pysparkling.utils.portable_hash` / `strhash` and `rdd._hash` on the portable key
  domain (None, bools, ints, strings, nested tuples/lists of them). No seed appears anywhere:
  CPython's hash of an int is `sign(i) * (|i| mod (2^61 - 1))` with `-1 ↦ -2` (documented
  numeric hash), everything else is the arithmetic written in utils.py. Core-only.
-/
import PysparklingVerif.Model.Val
namespace PysparklingVerif.Hash
open PysparklingVerif

def P61 : Nat := 2 ^ 61 - 1

/-- CPython `hash(i)` for an int (64-bit build) -/
def hashInt (i : Int) : Int :=
  let m : Int := (i.natAbs % P61 : Nat)
  let h := if i < 0 then -m else m
  if h = -1 then -2 else h

/-- `strhash`: note the precedence in the source, `(1000003 * x ^ ord(c)) & 1 << 32`
is `((1000003 * x) ^ ord(c)) & (1 << 32)`. -/
def strhash (s : List Char) : Nat :=
  match s with
  | [] => 0
  | c :: cs =>
    let x0 := c.toNat <<< 7
    let x := cs.foldl (fun x c => ((1000003 * x) ^^^ c.toNat) &&& (1 <<< 32)) x0
    x ^^^ s.length

/-- one round of the tuple hash: `h ^= ph; h *= 1000003; h &= sys.maxsize`
(`h` is a non-negative 63-bit number, `ph` any Python int; low 63 bits of two's complement). -/
def tupleRound (h : Nat) (ph : Int) : Nat :=
  ((h ^^^ (ph % (2 ^ 63 : Int)).toNat) * 1000003) % 2 ^ 63

mutual
def portableHash : Val → Int
  | .none => 0
  | .bool b => if b then 1 else 0
  | .int i => hashInt i
  | .str s => strhash s.toList
  | .tup xs => ((hashList xs 3430008) ^^^ xs.length : Nat)
  | .lst xs => ((hashList xs 3430008) ^^^ xs.length : Nat)
def hashList : List Val → Nat → Nat
  | [], h => h
  | x :: xs, h => hashList xs (tupleRound h (portableHash x))
end

/-- `rdd._hash(v) = portable_hash(v) & 0xffffffff` -/
def hash32 (v : Val) : Nat := (portableHash v % (2 ^ 32 : Int)).toNat

end PysparklingVerif.Hash
