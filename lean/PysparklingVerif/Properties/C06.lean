/-
  C06 — Transformations are lazy and actions evaluate each element exactly once.
  Property theorems about the pull-based evaluation model (Model/Lazy.lean).
-/
import PysparklingVerif.Model.Lazy
import PysparklingVerif.Lemmas.LazyLemmas
namespace PysparklingVerif.C06
open PysparklingVerif.Lazy

variable {α : Type}

/-- the stream of one partition under a pipeline (stages numbered from 0) -/
def partStream (ops : List (LOp α)) (p : List α) : LStream α := build ops 0 (source p)

/-- the call arguments logged for stage `j`, in order -/
def argsOf (j : Nat) (evs : List (Ev α)) : List α := (evs.filter (·.stage == j)).map (·.arg)

-- OBLIGATION: PysparklingVerif.C06.lazy_values
/-- pulling a pipeline to the end yields exactly the plain-list result -/
theorem lazy_values (ops : List (LOp α)) (p : List α) : (pullAll (partStream ops p)).2 = runListAll ops p := by
  show values (build ops 0 (source p)) = runListAll ops p
  rw [values_build, values_source]

-- OBLIGATION: PysparklingVerif.C06.single_pass_exactly_once
/-- a single-pass action invokes the user function of every stage exactly once per element that stage
applies to, in order: stage `j` is called on precisely the output of the first `j` stages -/
theorem single_pass_exactly_once (ops : List (LOp α)) (p : List α) (j : Nat) (hj : j < ops.length) :
    argsOf j (pullAll (partStream ops p)).1 = runListAll (ops.take j) p := by
  show proj j (allEvents (build ops 0 (source p))) = runListAll (ops.take j) p
  rw [proj_build_ge ops 0 (source p) j (by rw [allEvents_source]; intro e he; cases he) (Nat.zero_le _)
    (by omega), values_source, Nat.sub_zero]

-- OBLIGATION: PysparklingVerif.C06.no_foreign_events
/-- no call is logged for a stage that does not exist; a source alone logs nothing -/
theorem no_foreign_events (ops : List (LOp α)) (p : List α) :
    (∀ e ∈ (pullAll (partStream ops p)).1, e.stage < ops.length) ∧ (pullAll (source p)).1 = [] := by
  refine ⟨?_, allEvents_source p⟩
  intro e he
  have := stage_build ops 0 (source p) (by rw [allEvents_source]; intro e he; cases he) e he
  omega

-- OBLIGATION: PysparklingVerif.C06.pullN_prefix
/-- pulling `n` outputs performs a PREFIX of the calls of a full pass and returns the first `n` outputs -/
theorem pullN_prefix (n : Nat) (s : LStream α) :
    (pullN n s).1 <+: (pullAll s).1 ∧ (pullN n s).2 = (pullAll s).2.take n := by
  exact ⟨pullN_fst_prefix n s, pullN_snd n s⟩

-- OBLIGATION: PysparklingVerif.C06.take_values_prefix
/-- `take(n)` over the chained partitions: the first `n` outputs, and its calls are a prefix of the calls
of a full pass over all partitions (so no element is evaluated twice) -/
theorem take_values_prefix (n : Nat) (ss : List (LStream α)) :
    (takeChain n ss).2 = (ss.flatMap fun s => (pullAll s).2).take n ∧
    (takeChain n ss).1 <+: (ss.flatMap fun s => (pullAll s).1) := by
  show (takeChain n ss).2 = (ss.flatMap fun s => values s).take n ∧
    (takeChain n ss).1 <+: (ss.flatMap fun s => allEvents s)
  induction ss generalizing n with
  | nil => rw [takeChain_nil]; simp
  | cons s rest ih =>
    cases n with
    | zero => rw [takeChain_zero]; simp
    | succ n =>
      simp only [List.flatMap_cons]
      by_cases h : n + 1 ≤ s.cells.length
      · rw [takeChain_of_le rest h]
        refine ⟨?_, (take_flatMap_prefix (n + 1) s).trans (List.prefix_append _ _)⟩
        rw [List.take_append_of_le_length (by simpa [values] using h)]
        simp [values, List.map_take]
      · have h' : s.cells.length < n + 1 := Nat.not_le.mp h
        rw [takeChain_of_gt rest h']
        obtain ⟨ih1, ih2⟩ := ih (n + 1 - s.cells.length)
        refine ⟨?_, (List.prefix_append_right_inj _).mpr ih2⟩
        have hl : (values s).length = s.cells.length := by simp [values]
        rw [List.take_append, hl, List.take_of_length_le (by omega), ih1]

-- OBLIGATION: PysparklingVerif.C06.take_no_later_partition
/-- `take(n)` never evaluates a partition after the one that contains the last element it returns: if the
first `i + 1` partitions already hold `n` outputs, every call belongs to those partitions -/
theorem take_no_later_partition (n i : Nat) (ss : List (LStream α))
    (h : n ≤ ((ss.take (i + 1)).flatMap fun s => (pullAll s).2).length) :
    (takeChain n ss).1 <+: ((ss.take (i + 1)).flatMap fun s => (pullAll s).1) := by
  change n ≤ ((ss.take (i + 1)).flatMap fun s => values s).length at h
  show (takeChain n ss).1 <+: ((ss.take (i + 1)).flatMap fun s => allEvents s)
  induction ss generalizing n i with
  | nil => rw [takeChain_nil]; exact List.nil_prefix
  | cons s rest ih =>
    cases n with
    | zero => rw [takeChain_zero]; exact List.nil_prefix
    | succ n =>
      simp only [List.take_succ_cons, List.flatMap_cons, List.length_append] at h ⊢
      have hl : (values s).length = s.cells.length := by simp [values]
      by_cases h' : n + 1 ≤ s.cells.length
      · rw [takeChain_of_le rest h']
        exact (take_flatMap_prefix (n + 1) s).trans (List.prefix_append _ _)
      · have h'' : s.cells.length < n + 1 := Nat.not_le.mp h'
        rw [takeChain_of_gt rest h'']
        refine (List.prefix_append_right_inj _).mpr ?_
        cases i with
        | zero => simp at h; omega
        | succ i => exact ih _ i (by omega)

-- OBLIGATION: PysparklingVerif.C06.take_zero_nothing
theorem take_zero_nothing (ss : List (LStream α)) : takeChain 0 ss = ([], []) := by
  exact takeChain_zero ss

-- OBLIGATION: PysparklingVerif.C06.take_never_twice
/-- corollary for real pipelines: the calls `take(n)` makes to stage `j` are a prefix of the elements that
stage applies to over the whole dataset — each at most once -/
theorem take_never_twice (ops : List (LOp α)) (parts : List (List α)) (n j : Nat) (hj : j < ops.length) :
    argsOf j (takeChain n (parts.map (partStream ops))).1 <+:
      parts.flatMap fun p => runListAll (ops.take j) p := by
  have h := (take_values_prefix n (parts.map (partStream ops))).2
  have h2 := proj_prefix j h
  rw [List.flatMap_map, proj_flatMap] at h2
  have h3 : (parts.flatMap fun p => proj j (pullAll (partStream ops p)).1) =
      parts.flatMap fun p => runListAll (ops.take j) p := by
    congr 1; funext p; exact single_pass_exactly_once ops p j hj
  rw [h3] at h2
  exact h2

-- non-vacuity: filter charges the dropped elements to the next survivor; take(1) stops early
example :
    (takeChain 1 [partStream [.filter (· % 2 == 0), .map (· + 1)] [1, 2, 3, 4], partStream [.filter (· % 2 == 0), .map (· + 1)] [6]]).1
      = [⟨0, 1⟩, ⟨0, 2⟩, ⟨1, 2⟩] := by decide +kernel

end PysparklingVerif.C06
