/-
  C20 — File patterns resolve to exactly the matching files.   Property theorems only.
-/
import PysparklingVerif.Model.Glob
import PysparklingVerif.Lemmas.GlobLemmas
namespace PysparklingVerif.C20
open PysparklingVerif.Glob

/-- declarative meaning of a pattern: literals match themselves, `?` one arbitrary character,
`*` any run of characters (possibly empty) -/
inductive Matches : Str → Str → Prop where
  | nil : Matches [] []
  | char (c : Char) (p s : Str) : isWild c = false → Matches p s → Matches (c :: p) (c :: s)
  | qmark (c : Char) (p s : Str) : Matches p s → Matches ('?' :: p) (c :: s)
  | starEmpty (p s : Str) : Matches p s → Matches ('*' :: p) s
  | starTake (c : Char) (p s : Str) : Matches ('*' :: p) s → Matches ('*' :: p) (c :: s)

-- OBLIGATION: PysparklingVerif.C20.glob_iff_decl
/-- the matcher decides exactly the declarative relation -/
theorem glob_iff_decl (p s : Str) : globMatch p s = true ↔ Matches p s := by
  constructor
  · intro h
    induction p generalizing s with
    | nil =>
      cases s with
      | nil => exact Matches.nil
      | cons d t => simp [globMatch_nil] at h
    | cons c p ih =>
      by_cases hc : c = '*'
      · subst hc
        rw [globMatch_star] at h
        induction s with
        | nil => exact Matches.starEmpty _ _ (ih _ (by simpa [anySuffix] using h))
        | cons d t iht =>
          have h' : globMatch p (d :: t) = true ∨ anySuffix (globMatch p) t = true := by
            simpa [anySuffix] using h
          rcases h' with h' | h'
          · exact Matches.starEmpty _ _ (ih _ h')
          · exact Matches.starTake _ _ _ (iht h')
      · cases s with
        | nil => simp [globMatch_cons_nil _ _ hc] at h
        | cons d t =>
          rw [globMatch_cons_cons _ _ _ _ hc] at h
          have h' : (c = '?' ∨ c = d) ∧ globMatch p t = true := by simpa using h
          obtain ⟨hcd, ht⟩ := h'
          by_cases hq : c = '?'
          · subst hq
            exact Matches.qmark _ _ _ (ih _ ht)
          · have hcd' : c = d := by
              rcases hcd with h1 | h1
              · exact absurd h1 hq
              · exact h1
            subst hcd'
            exact Matches.char _ _ _ ((isWild_false_iff c).2 ⟨hc, hq⟩) (ih _ ht)
  · intro h
    induction h with
    | nil => rfl
    | char c p s hw _ ih =>
      have hc := (isWild_false_iff c).1 hw
      rw [globMatch_cons_cons _ _ _ _ hc.1]
      simp [ih]
    | qmark c p s _ ih =>
      rw [globMatch_cons_cons _ _ _ _ (by decide)]
      simp [ih]
    | starEmpty p s _ ih =>
      rw [globMatch_star]
      exact anySuffix_self _ _ ih
    | starTake c p s _ ih =>
      rw [globMatch_star] at ih ⊢
      exact anySuffix_cons _ _ _ ih

-- OBLIGATION: PysparklingVerif.C20.prefix_is_prefix
/-- every matching path starts with the pattern's literal prefix -/
theorem prefix_is_prefix (p s : Str) (h : globMatch p s = true) : (literalPrefix p).isPrefixOf s = true := by
  rw [List.isPrefixOf_iff_prefix]
  exact literalPrefix_prefix_of_match p s h

/-- the pattern actually matched against (after the scheme strip and the `./` anchoring) -/
def effective (expr : Str) : Str := (anchored (stripScheme expr)).1

-- OBLIGATION: PysparklingVerif.C20.resolve_eq_filter
/-- MAIN: for an item that is not itself a file, walking only from the literal prefix's directory loses
nothing and adds nothing: the result is exactly the existing files that match the item or `item/part*` -/
theorem resolve_eq_filter (W : List Str) (isFile : Str → Bool) (expr : Str)
    (h : isFile (stripScheme expr) = false) :
    localResolve W isFile expr =
      (W.filter fun f => globMatch (effective expr) f || globMatch (partsPattern (effective expr)) f).map
        (unanchor (stripScheme expr)) := by
  exact localResolve_not_file W isFile expr h

-- OBLIGATION: PysparklingVerif.C20.resolved_names_as_spelled
/-- the resolved names are spelled as the item spells them: for an item that had to be anchored at `./` for the walk
(its literal prefix names no directory) every resolved name `f` is the walked path `./f` without that `./`; otherwise it is
the walked path itself. (With the `./` left in, `sorted()` over the names of several items put `./x.dat` before `a.txt`.) -/
theorem resolved_names_as_spelled (W : List Str) (isFile : Str → Bool) (expr : Str)
    (h : isFile (stripScheme expr) = false) (f : Str) (hf : f ∈ localResolve W isFile expr) :
    (if (literalPrefix (stripScheme expr)).contains '/' then f ∈ W else "./".toList ++ f ∈ W) := by
  rw [resolve_eq_filter W isFile expr h, List.mem_map] at hf
  obtain ⟨g, hg, rfl⟩ := hf
  rw [List.mem_filter] at hg
  obtain ⟨hgW, hm⟩ := hg
  have hspec := unanchor_spec (stripScheme expr) g hm
  cases hs : (literalPrefix (stripScheme expr)).contains '/' with
  | true =>
    rw [hs] at hspec
    simp only [if_true] at hspec ⊢
    rw [hspec]; exact hgW
  | false =>
    rw [hs] at hspec
    simp only [Bool.false_eq_true, if_false] at hspec ⊢
    rw [hspec]; exact hgW

-- OBLIGATION: PysparklingVerif.C20.resolve_file_item
/-- an item naming an existing file resolves to that file -/
theorem resolve_file_item (W : List Str) (isFile : Str → Bool) (expr : Str)
    (h : isFile (stripScheme expr) = true) : localResolve W isFile expr = [stripScheme expr] := by
  simp [localResolve, h]

-- OBLIGATION: PysparklingVerif.C20.no_match_empty
theorem no_match_empty (W : List Str) (isFile : Str → Bool) (expr : Str)
    (h : isFile (stripScheme expr) = false)
    (hn : ∀ f ∈ W, globMatch (effective expr) f = false ∧ globMatch (partsPattern (effective expr)) f = false) :
    localResolve W isFile expr = [] := by
  rw [resolve_eq_filter W isFile expr h]
  have hnil : (W.filter fun f => globMatch (effective expr) f || globMatch (partsPattern (effective expr)) f) = [] := by
    rw [List.filter_eq_nil_iff]
    intro f hf
    obtain ⟨h1, h2⟩ := hn f hf
    simp [h1, h2]
  rw [hnil, List.map_nil]

-- OBLIGATION: PysparklingVerif.C20.dataset_dir_parts_only
/-- an item naming a saved dataset directory `d` (no wildcard in `d`) selects its `part*` files and never
its `_SUCCESS` marker -/
theorem dataset_dir_parts_only (d rest : Str) (hd : ∀ c ∈ d, isWild c = false) :
    globMatch (partsPattern d) (d ++ "/part".toList ++ rest) = true ∧
    globMatch (partsPattern d) (d ++ "/_SUCCESS".toList) = false ∧
    globMatch d (d ++ "/_SUCCESS".toList) = false := by
  have hnil : d = d ++ [] := (List.append_nil d).symm
  refine ⟨?_, ?_, ?_⟩
  · rw [partsPattern, List.append_assoc, globMatch_append_literal _ _ _ hd]
    have : "/part*".toList = ['/', 'p', 'a', 'r', 't', '*'] := by decide +kernel
    rw [this]
    have : "/part".toList = ['/', 'p', 'a', 'r', 't'] := by decide +kernel
    rw [this]
    simp only [List.cons_append, List.nil_append]
    rw [globMatch_cons_cons _ _ _ _ (by decide), globMatch_cons_cons _ _ _ _ (by decide),
      globMatch_cons_cons _ _ _ _ (by decide), globMatch_cons_cons _ _ _ _ (by decide),
      globMatch_cons_cons _ _ _ _ (by decide), globMatch_star,
      anySuffix_nil_accept _ rfl rest]
    decide
  · rw [partsPattern, globMatch_append_literal _ _ _ hd]
    decide +kernel
  · conv => lhs; arg 1; rw [hnil]
    rw [globMatch_append_literal _ _ _ hd]
    decide +kernel

-- OBLIGATION: PysparklingVerif.C20.comma_union
/-- comma-separated items contribute independently, in order -/
theorem comma_union (W : Str → List Str) (isFile : Str → Bool) (a b : Str) (ha : ',' ∉ a) :
    resolve W isFile (a ++ ',' :: b) =
      localResolve (W (strip a)) isFile (strip a) ++ resolve W isFile b := by
  simp [resolve, splitComma_append_comma a b ha, List.flatMap_cons]

-- OBLIGATION: PysparklingVerif.C20.scheme_strip
theorem scheme_strip (W : List Str) (isFile : Str → Bool) (e : Str)
    (h : ("file://".toList).isPrefixOf e = false) :
    localResolve W isFile ("file://".toList ++ e) = localResolve W isFile e := by
  have h1 : stripScheme ("file://".toList ++ e) = e := by
    have : "file://".toList = ['f', 'i', 'l', 'e', ':', '/', '/'] := by decide +kernel
    rw [this]
    simp [stripScheme]
  have h2 : stripScheme e = e := by
    simp only [stripScheme, h, Bool.false_eq_true, if_false]
  unfold localResolve
  simp only [h1, h2]

-- OBLIGATION: PysparklingVerif.C20.reader_sorted_order
/-- readers process the resolved files in sorted path order (a permutation, ordered by `strLe`) -/
theorem reader_sorted_order (names : List Str) :
    (readerOrder names).Perm names ∧ (readerOrder names).Pairwise (fun a b => strLe a b = true) := by
  refine ⟨List.mergeSort_perm _ _, ?_⟩
  exact List.pairwise_mergeSort (le := strLe) strLe_trans strLe_total names

-- non-vacuity
example : globMatch "a*/p?rt".toList "abc/x/part".toList = true := by decide +kernel
example : localResolve ["./tree/a.txt".toList, "./trie/a.txt".toList, "./tree/b.txt".toList] (fun _ => false)
    "tre?/a.txt".toList = ["tree/a.txt".toList] := by decide +kernel
example : localResolve ["./out/part-00000".toList, "./out/_SUCCESS".toList, "./out2/part-00000".toList] (fun _ => false)
    "file://out".toList = ["out/part-00000".toList] := by decide +kernel
/-- two items of one expression: the names sort as the paths do (`a.txt` before `x.dat`) -/
example : readerOrder (resolve (fun _ => ["./a.txt".toList, "./x.dat".toList]) (fun f => f == "a.txt".toList) "a.txt,?.dat".toList)
    = ["a.txt".toList, "x.dat".toList] := by
  -- (`List.mergeSort` is defined by well-founded recursion, which `decide +kernel` does not unfold: the resolution is
  -- computed by the kernel, the two-element sort by its equations)
  have h : resolve (fun _ => ["./a.txt".toList, "./x.dat".toList]) (fun f => f == "a.txt".toList) "a.txt,?.dat".toList
      = ["a.txt".toList, "x.dat".toList] := by decide +kernel
  rw [h]
  simp [readerOrder, List.mergeSort, List.merge]
  decide +kernel

end PysparklingVerif.C20
