/-
  C01 — RDD pipelines compute plain-list semantics for every partitioning.
  Property theorems only.
-/
import PysparklingVerif.Model.Pipeline
import PysparklingVerif.Properties.C07
import PysparklingVerif.Lemmas.RddFlat
import PysparklingVerif.Model.ZeroCopy
import PysparklingVerif.Lemmas.ZeroLemmas
namespace PysparklingVerif.C01
open PysparklingVerif.Rdd

variable {α β κ ν ν' : Type}

/-! ## transformations commute with flattening -/

-- OBLIGATION: PysparklingVerif.C01.map_flat
theorem map_flat (f : α → β) (ps : Parts α) : flat (Rdd.map f ps) = (flat ps).map f :=
  flat_map_map f ps
-- OBLIGATION: PysparklingVerif.C01.filter_flat
theorem filter_flat (p : α → Bool) (ps : Parts α) : flat (Rdd.filter p ps) = (flat ps).filter p :=
  flat_map_filter p ps
-- OBLIGATION: PysparklingVerif.C01.flatMap_flat
theorem flatMap_flat (f : α → List β) (ps : Parts α) : flat (Rdd.flatMap f ps) = (flat ps).flatMap f :=
  flat_map_flatMap f ps
-- OBLIGATION: PysparklingVerif.C01.mapValues_flat
theorem mapValues_flat (f : ν → ν') (ps : Parts (κ × ν)) :
    flat (mapValues f ps) = (flat ps).map (fun kv => (kv.1, f kv.2)) :=
  flat_map_map _ ps
-- OBLIGATION: PysparklingVerif.C01.flatMapValues_flat
theorem flatMapValues_flat (f : ν → List ν') (ps : Parts (κ × ν)) :
    flat (flatMapValues f ps) = (flat ps).flatMap (fun kv => (f kv.2).map (fun e => (kv.1, e))) :=
  flat_map_flatMap _ ps
-- OBLIGATION: PysparklingVerif.C01.keyBy_keys_values_flat
theorem keyBy_keys_values_flat (f : α → κ) (ps : Parts α) (qs : Parts (κ × ν)) :
    flat (keyBy f ps) = (flat ps).map (fun e => (f e, e)) ∧
    flat (keys qs) = (flat qs).map (·.1) ∧ flat (values qs) = (flat qs).map (·.2) :=
  ⟨flat_map_map _ ps, flat_map_map _ qs, flat_map_map _ qs⟩
-- OBLIGATION: PysparklingVerif.C01.mapPartitions_flat
/-- `mapPartitions g` agrees with list semantics exactly when `g` is a list homomorphism -/
theorem mapPartitions_flat (g : List α → List β) (hg : ∀ a b, g (a ++ b) = g a ++ g b) (ps : Parts α) :
    flat (mapPartitions g ps) = g (flat ps) :=
  flat_map_hom g hg ps
-- OBLIGATION: PysparklingVerif.C01.glom_is_layout
/-- `glom` exposes the layout itself (so a pipeline containing it depends on the slicing, as in Spark) -/
theorem glom_is_layout (ps : Parts α) : flat (glom ps) = ps :=
  flat_glom ps

-- OBLIGATION: PysparklingVerif.C01.op_run_flat
/-- every partition-independent operation commutes with flattening -/
theorem op_run_flat (op : Op α) (h : op.Indep) (ps : Parts α) : flat (op.run ps) = op.runList (flat ps) := by
  cases op with
  | map f => exact map_flat f ps
  | filter p => exact filter_flat p ps
  | flatMap f => exact flatMap_flat f ps
  | mapPartitions g => exact mapPartitions_flat g h ps
  | glom wrap => exact absurd h id
  | union o => exact flat_singleton _
  | zip o pair =>
    show flat (Rdd.map _ [List.zip (flat ps) (flat o)]) = _
    rw [map_flat, flat_singleton]
    rfl
  | zipWithIndex pair =>
    show flat (Rdd.map _ [(flat ps).zipIdx]) = _
    rw [map_flat, flat_singleton]
    rfl
  | sortBy key le asc m => exact C07.parallelize_flat _ _
  | coalesce m => exact C07.coalesce_flat ps m h
  | repartition m => exact (C07.repartition_layout ps m).1

-- OBLIGATION: PysparklingVerif.C01.pipeline_partition_independent
/-- MAIN: for every pipeline (any length, arbitrary user functions), every input list and EVERY
number of slices, collecting the pipeline equals evaluating it over the plain list. -/
theorem pipeline_partition_independent (ops : List (Op α)) (h : ∀ op ∈ ops, op.Indep)
    (xs : List α) (n : Nat) :
    collect (runAll ops (parallelize xs n)) = runListAll ops xs := by
  have key : ∀ (ops : List (Op α)), (∀ op ∈ ops, op.Indep) → ∀ ps : Parts α,
      flat (runAll ops ps) = runListAll ops (flat ps) := by
    intro ops
    induction ops with
    | nil => intro _ ps; rfl
    | cons op ops ih =>
      intro hall ps
      have hop : op.Indep := hall op List.mem_cons_self
      have hrest : ∀ o ∈ ops, o.Indep := fun o ho => hall o (List.mem_cons_of_mem _ ho)
      show flat (runAll ops (op.run ps)) = runListAll ops (op.runList (flat ps))
      rw [ih hrest, op_run_flat op hop]
  show flat (runAll ops (parallelize xs n)) = runListAll ops xs
  rw [key ops h, C07.parallelize_flat]

/-! ## actions -/

-- OBLIGATION: PysparklingVerif.C01.count_eq
theorem count_eq (ps : Parts α) : count ps = (flat ps).length :=
  count_eq_length ps
-- OBLIGATION: PysparklingVerif.C01.sum_eq
theorem sum_eq (ps : Parts Int) : sumInt ps = (flat ps).sum :=
  sumInt_eq_sum ps
-- OBLIGATION: PysparklingVerif.C01.take_first_eq
theorem take_first_eq (ps : Parts α) (n : Nat) :
    take n ps = (flat ps).take n ∧ first ps = (flat ps).head? ∧ toLocalIterator ps = flat ps :=
  ⟨rfl, rfl, rfl⟩

-- OBLIGATION: PysparklingVerif.C01.reduce_eq
/-- for associative `f`, `reduce` is the left fold of the whole list, whatever the partitioning -/
theorem reduce_eq (f : α → α → α) (hf : ∀ a b c, f (f a b) c = f a (f b c)) (ps : Parts α) :
    reduce f ps = match flat ps with
      | [] => none
      | x :: xs => some (xs.foldl f x) := by
  rw [reduce_eq_reducer_flat f hf ps, reducer_map_some]
  cases flat ps <;> rfl

-- OBLIGATION: PysparklingVerif.C01.reduce_empty
/-- reducing an empty dataset raises `ValueError` (every partitioning of the empty list) -/
theorem reduce_empty (f : α → α → α) (ps : Parts α) (h : flat ps = []) : reduce f ps = none :=
  reduce_of_flat_nil f ps h

-- OBLIGATION: PysparklingVerif.C01.aggregate_eq
/-- `aggregate` equals the sequential fold under the homomorphism conditions Spark documents -/
theorem aggregate_eq (z : β) (seq : β → α → β) (comb : β → β → β)
    (hc : ∀ (b : β) (xs : List α), comb b (xs.foldl seq z) = xs.foldl seq b)
    (ps : Parts α) : aggregate z seq comb ps = (flat ps).foldl seq z :=
  aggregate_foldl z seq comb hc ps z

-- OBLIGATION: PysparklingVerif.C01.fold_eq
/-- `fold` with an associative `op` and a two-sided identity `z` -/
theorem fold_eq (z : α) (op : α → α → α) (hassoc : ∀ a b c, op (op a b) c = op a (op b c))
    (hl : ∀ a, op z a = a) (hr : ∀ a, op a z = a) (ps : Parts α) :
    fold z op ps = (flat ps).foldl op z :=
  aggregate_eq z op op (fun b xs => foldl_assoc_id z op hassoc hl hr b xs) ps

/-- count of `x` in an association list of counts -/
def countOf [DecidableEq α] (x : α) (d : List (α × Nat)) : Nat :=
  ((d.filter (·.1 == x)).map (·.2)).sum

-- OBLIGATION: PysparklingVerif.C01.countByValue_eq
theorem countByValue_eq [DecidableEq α] (ps : Parts α) (x : α) :
    countOf x (countByValue ps) = (flat ps).count x ∧ ((countByValue ps).map (·.1)).Nodup :=
  countByValue_spec ps x

-- OBLIGATION: PysparklingVerif.C01.lookup_eq
theorem lookup_eq [DecidableEq κ] (k : κ) (ps : Parts (κ × ν)) :
    lookup k ps = (flat ps).filterMap (fun kv => if kv.1 = k then some kv.2 else none) := by
  show flat (values (Rdd.filter (fun kv => kv.1 == k) ps)) = _
  rw [(keyBy_keys_values_flat (fun (x : κ × ν) => x.1) [] _).2.2, filter_flat]
  generalize flat ps = l
  induction l with
  | nil => rfl
  | cons kv l ih =>
    simp only [List.filter_cons, List.filterMap_cons, beq_iff_eq]
    split <;> simp_all

-- OBLIGATION: PysparklingVerif.C01.collectAsMap_eq
/-- `collectAsMap` depends on the data only through `collect` (and is Python's `dict`: last wins) -/
theorem collectAsMap_eq [DecidableEq κ] (ps : Parts (κ × ν)) (k : κ) :
    collectAsMap ps = pyDict (flat ps) ∧
    ((pyDict (flat ps)).map (·.1)).Nodup ∧
    (List.lookup k (pyDict (flat ps))) = (((flat ps).filter (·.1 == k)).getLast?).map (·.2) :=
  ⟨rfl, pyDict_spec (flat ps) k⟩

-- OBLIGATION: PysparklingVerif.C01.top_takeOrdered_eq
theorem top_takeOrdered_eq (key : α → κ) (le : κ → κ → Bool) (n : Nat) (ps : Parts α) :
    top key le n ps = (pySorted key le false (flat ps)).take n ∧
    takeOrdered key le n ps = (pySorted key le true (flat ps)).take n := by
  constructor
  · show (flat (parallelize _ _)).take n = _
    rw [C07.parallelize_flat]
  · show (flat (parallelize _ _)).take n = _
    rw [C07.parallelize_flat]

/-! ## non-vacuity and necessity of the hypotheses -/

example : (∀ a b c : Int, (a + b) + c = a + (b + c)) := by intros; omega
example : reduce (· + ·) [[1, 2], [], [3]] = some (6 : Int) := by decide
/-- subtraction is not associative and `reduce` then depends on the partitioning -/
example : reduce (· - ·) [[1, 2], [3, 4]] ≠ reduce (· - ·) [[(1 : Int), 2, 3, 4]] := by decide
example : aggregate (0 : Int) (· + ·) (· + ·) [[1], [2, 3]] = 6 := by decide


/-! ### the zero value is never shared (store-passing model, Model/ZeroCopy.lean) -/

-- OBLIGATION: PysparklingVerif.C01.zero_not_shared
/-- with the two `copy.deepcopy(zeroValue)` of the code, for EVERY in-place mutating `seqOp` / `combOp`, every
partitioning and every heap: the result object holds exactly what the pure aggregate computes from the CONTENTS of
the zero value, the caller's zero object and every other object that existed before are unchanged, and the result
is a fresh object -/
theorem zero_not_shared (f : Zero.Obj → Int → Zero.Obj) (g : Zero.Obj → Zero.Obj → Zero.Obj) (h : Zero.Heap) (z : Zero.Ref)
    (hz : z < h.length) (parts : List (List Int)) :
    let r := Zero.aggregateCopy f g h z parts
    r.1.read r.2 = Zero.aggregatePure f g (h.read z) parts ∧
    (∀ x, x < h.length → r.1.read x = h.read x) ∧ h.length ≤ r.2 :=
  Zero.aggregateCopy_spec f g h z hz parts

-- OBLIGATION: PysparklingVerif.C01.shared_zero_differs
/-- non-vacuity: WITHOUT the copies the same in-place functions give a different answer and destroy the caller's
zero (`acc.append(x)` / `a.extend(b)` on zero `[]`, partitions [1] and [2]) -/
theorem shared_zero_differs :
    let f : Zero.Obj → Int → Zero.Obj := fun acc x => acc ++ [x]
    let g : Zero.Obj → Zero.Obj → Zero.Obj := fun a b => a ++ b
    let r := Zero.aggregateShared f g [[]] 0 [[1], [2]]
    Zero.aggregatePure f g [] [[1], [2]] = [1, 2] ∧ r.1.read r.2 ≠ [1, 2] ∧ r.1.read 0 ≠ [] ∧
    (Zero.aggregateCopy f g [[]] 0 [[1], [2]]).1.read (Zero.aggregateCopy f g [[]] 0 [[1], [2]]).2 = [1, 2] := by
  decide +kernel

end PysparklingVerif.C01
