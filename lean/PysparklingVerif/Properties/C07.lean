/-
  C07 — Partition layout contracts of parallelize, coalesce, repartition, partitionBy,
  mapPartitionsWithIndex, zipWithUniqueId.   Property theorems only.
-/
import PysparklingVerif.Model.Rdd
import PysparklingVerif.Lemmas.RddLayout
namespace PysparklingVerif.C07
open PysparklingVerif.Rdd

variable {α κ ν : Type}

-- OBLIGATION: PysparklingVerif.C07.parallelize_flat
/-- slices are contiguous, in input order, and lose / duplicate nothing — every `n`, incl. `n > len`, `[]` -/
theorem parallelize_flat (xs : List α) (n : Nat) : flat (parallelize xs n) = xs := by
  by_cases h : n ≤ 1
  · simp [parallelize, h, flat]
  · rw [parallelize_of_lt xs n (by omega), consume_flat]
    apply List.take_of_length_le
    have := sum_sliceSize_ge xs.length n n
    rw [bound_self _ _ (by omega)] at this
    exact this

-- OBLIGATION: PysparklingVerif.C07.parallelize_length
/-- exactly `n` slices when `n > 1` -/
theorem parallelize_length (xs : List α) (n : Nat) (h : 1 < n) : (parallelize xs n).length = n := by
  rw [parallelize_of_lt xs n h, consume_length]; simp

-- OBLIGATION: PysparklingVerif.C07.parallelize_slice
/-- slice `i` is `xs[b i : b (i+1)]` with `b i = ⌊i·len/n⌋` -/
theorem parallelize_slice (xs : List α) (n : Nat) (h : 1 < n) (i : Nat) (hi : i < n) :
    (parallelize xs n)[i]? =
      some ((xs.drop (bound i xs.length n)).take (bound (i + 1) xs.length n - bound i xs.length n)) := by
  exact parallelize_getElem? xs n h i hi

-- OBLIGATION: PysparklingVerif.C07.parallelize_balanced
/-- slice sizes differ by at most one -/
theorem parallelize_balanced (xs : List α) (n : Nat) (h : 1 < n) :
    ∀ p ∈ parallelize xs n, ∀ q ∈ parallelize xs n, p.length ≤ q.length + 1 := by
  intro p hp q hq
  have h1 := parallelize_mem_length xs n h p hp
  have h2 := parallelize_mem_length xs n h q hq
  omega

-- OBLIGATION: PysparklingVerif.C07.coalesce_length
/-- (`coalesce(0)` of a dataset WITH partitions divides by zero in the code - the model's total `/` would say 0
partitions: excluded. A dataset without partitions is returned as it is, for every `m`.) -/
theorem coalesce_length (ps : Parts α) (m : Nat) (_hm : 1 ≤ m ∨ ps = []) : (coalesce m ps).length = min m ps.length := by
  simp [coalesce]

-- OBLIGATION: PysparklingVerif.C07.coalesce_blocks
/-- every output partition is the concatenation of a contiguous block of input partitions, the
blocks are in order, cover all inputs, and their sizes differ by at most one -/
theorem coalesce_blocks (ps : Parts α) (m : Nat) (hm : 1 ≤ m) :
    ∃ sizes : List Nat, sizes.length = min m ps.length ∧ sizes.sum = ps.length ∧
      (∀ a ∈ sizes, ∀ b ∈ sizes, a ≤ b + 1) ∧
      coalesce m ps = (consume sizes ps).map flat := by
  exact ⟨coalesceSizes ps.length m, coalesceSizes_length _ _ hm, coalesceSizes_sum _ _ hm,
    coalesceSizes_balanced _ _, coalesce_eq_consume ps m hm⟩

-- OBLIGATION: PysparklingVerif.C07.coalesce_flat
theorem coalesce_flat (ps : Parts α) (m : Nat) (hm : 1 ≤ m) : flat (coalesce m ps) = flat ps := by
  rw [coalesce_eq_consume ps m hm]
  have h := consume_flat (coalesceSizes ps.length m) ps
  rw [coalesceSizes_sum _ _ hm, List.take_length] at h
  have hf : (flat : Parts α → List α) = List.flatten := rfl
  have hf' : (flat : Parts (List α) → List (List α)) = List.flatten := rfl
  rw [hf'] at h
  rw [hf, ← List.flatten_flatten, h]

-- OBLIGATION: PysparklingVerif.C07.repartition_layout
/-- exactly `m` partitions for `m ≥ 2` (one for `m ≤ 1`), global order preserved -/
theorem repartition_layout (ps : Parts α) (m : Nat) :
    flat (repartition m ps) = flat ps ∧ (repartition m ps).length = (if 1 < m then m else 1) := by
  refine ⟨parallelize_flat _ _, ?_⟩
  by_cases h : 1 < m
  · simp only [h, if_true]; exact parallelize_length _ _ h
  · have h' : m ≤ 1 := by omega
    simp [repartition, parallelize, h, h']

-- OBLIGATION: PysparklingVerif.C07.partitionBy_placement
/-- partition `j` holds exactly the pairs with `f key % n = j`, in their original relative order
(`partitionBy(0)` of non-empty data takes a remainder modulo zero in the code: excluded) -/
theorem partitionBy_placement (n : Nat) (f : κ → Nat) (ps : Parts (κ × ν)) (_hn : 0 < n ∨ flat ps = []) :
    (partitionBy n f ps).length = n ∧
    ∀ j, j < n → (partitionBy n f ps)[j]? = some ((flat ps).filter (fun kv => f kv.1 % n == j)) := by
  refine ⟨by simp [partitionBy], ?_⟩
  intro j hj
  simp [partitionBy, hj]

-- OBLIGATION: PysparklingVerif.C07.partitionBy_colocated
/-- equal keys are co-located: two pairs with the same key are in the same partition -/
theorem partitionBy_colocated (n : Nat) (f : κ → Nat) (ps : Parts (κ × ν)) (i j : Nat)
    (p q : List (κ × ν)) (hp : (partitionBy n f ps)[i]? = some p) (hq : (partitionBy n f ps)[j]? = some q)
    (a b : κ × ν) (ha : a ∈ p) (hb : b ∈ q) (hk : a.1 = b.1) : i = j := by
  have key : ∀ (i : Nat) (p : List (κ × ν)) (a : κ × ν),
      (partitionBy n f ps)[i]? = some p → a ∈ p → f a.1 % n = i := by
    intro i p a hp ha
    have hlen : (partitionBy n f ps).length = n := by simp [partitionBy]
    have hi : i < n := by
      have := (List.getElem?_eq_some_iff.mp hp).1
      omega
    rw [(partitionBy_placement n f ps (Or.inl (by omega))).2 i hi] at hp
    have hp' := Option.some.inj hp
    subst hp'
    simpa using (List.mem_filter.mp ha).2
  rw [← key i p a hp ha, ← key j q b hq hb, hk]

-- OBLIGATION: PysparklingVerif.C07.partitionBy_complete
/-- nothing is lost or duplicated: for `n > 0` the partitions together are a permutation of the input -/
theorem partitionBy_complete (n : Nat) (hn : 0 < n) (f : κ → Nat) (ps : Parts (κ × ν)) :
    (flat (partitionBy n f ps)).Perm (flat ps) := by
  have h := buckets_perm (fun kv : κ × ν => f kv.1 % n) n (flat ps)
  have hall : (flat ps).filter (fun kv => decide (f kv.1 % n < n)) = flat ps := by
    rw [List.filter_eq_self]
    intro a _
    simpa using Nat.mod_lt _ hn
  rw [hall] at h
  exact h

-- OBLIGATION: PysparklingVerif.C07.mapPartitionsWithIndex_indices
/-- the function observes indices `0 .. n-1`, each with its own partition -/
theorem mapPartitionsWithIndex_indices (ps : Parts α) :
    mapPartitionsWithIndex (fun i p => [(i, p)]) ps = ((List.range ps.length).zip ps).map (fun e => [e]) := by
  rw [List.range_eq_range']
  exact zipIdx_map_pair 0 ps

-- OBLIGATION: PysparklingVerif.C07.uniqueId_injective
theorem uniqueId_injective (n k k' i i' : Nat) (hi : i < n) (hi' : i' < n)
    (h : k * n + i = k' * n + i') : k = k' ∧ i = i' := by
  exact uid_inj n k k' i i' hi hi' h

-- OBLIGATION: PysparklingVerif.C07.zipWithUniqueId_distinct
/-- ids are pairwise distinct, and elements are unchanged -/
theorem zipWithUniqueId_distinct (ps : Parts α) :
    ((flat (zipWithUniqueId ps)).map (·.2)).Nodup ∧ (flat (zipWithUniqueId ps)).map (·.1) = flat ps := by
  refine ⟨?_, zipWithUniqueId_fst ps.length 0 ps⟩
  exact uidList_nodup ps.length 0 ps (by omega)

-- non-vacuity / concrete layouts
example : parallelize [1, 2, 3, 4, 5] 3 = [[1], [2, 3], [4, 5]] := by decide
example : parallelize [1, 2] 4 = [[], [1], [], [2]] := by decide
example : coalesce 2 [[1], [2], [3], [4], [5]] = [[1, 2, 3], [4, 5]] := by decide
example : zipWithUniqueId [["a", "b"], ["c"]] = [[("a", 0), ("b", 2)], [("c", 1)]] := by decide

end PysparklingVerif.C07
