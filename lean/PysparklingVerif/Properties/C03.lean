/-
  C03 — Results are independent of execution backend and task schedule.
-/
import PysparklingVerif.Model.Sched
import PysparklingVerif.Lemmas.SchedLemmas
import PysparklingVerif.Model.SaveSched
import PysparklingVerif.Lemmas.SaveSchedLemmas
namespace PysparklingVerif.C03
open PysparklingVerif.Sched

variable (next : Nat → Nat) (keep : Nat → Bool)

-- OBLIGATION: PysparklingVerif.C03.threads_touch_only_their_own_state
/-- under ANY schedule (any number of threads, any interleaving at micro-step granularity, unfair ones
included) task `i` ends in the state its own PRIVATE program reaches after as many steps as the schedule gave
it — whatever the other threads did and whatever the shared state held; the shared generator state is never
touched, and the only thing ever written to the shared dataset object is the dead store of a cache key of this
dataset (which nothing reads) -/
theorem threads_touch_only_their_own_state (j : Job) (sched : List Nat) (s : Sys) :
    (runSched next keep j sched s).shared.rng = s.shared.rng ∧
    ((runSched next keep j sched s).shared.attrCid = s.shared.attrCid ∨
      ∃ i, (runSched next keep j sched s).shared.attrCid = some (j.rddId, i)) ∧
    (runSched next keep j sched s).tasks.length = s.tasks.length ∧
    ∀ i, (runSched next keep j sched s).tasks[i]? = (s.tasks[i]?).map (iter (stepLocal next keep j i) (sched.count i)) := by
  induction sched generalizing s with
  | nil => exact ⟨rfl, Or.inl rfl, rfl, fun i => by
      show s.tasks[i]? = _
      cases s.tasks[i]? <;> rfl⟩
  | cons a rest ih =>
    obtain ⟨r1, r2, r3, r4⟩ := ih (Sys.stepNew next keep j a s)
    obtain ⟨s1, s2, s3, s4⟩ := sys_stepNew next keep j a s
    have e : runSched next keep j (a :: rest) s = runSched next keep j rest (Sys.stepNew next keep j a s) := rfl
    rw [e]
    refine ⟨r1.trans s1, ?_, r3.trans s3, fun i => ?_⟩
    · rcases r2 with r2 | ⟨i, r2⟩
      · rcases s2 with s2 | s2
        · exact Or.inl (r2.trans s2)
        · exact Or.inr ⟨a, r2.trans s2⟩
      · exact Or.inr ⟨i, r2⟩
    · rw [r4 i, s4 i, List.count_cons]
      by_cases hi : i = a
      · subst hi
        simp only [if_true, beq_self_eq_true]
        exact iter_succ_map _ _ _
      · have hb : (a == i) = false := by simpa using fun e => hi e.symm
        simp [hi, hb]

-- OBLIGATION: PysparklingVerif.C03.task_result
/-- what one task computes, for every generator: on a cache miss the sample of ITS partition drawn from a
generator seeded with `seed + i` only (a function of (seed, i, partition data) — the same on every backend),
stored under its own key `(dataset id, i)`; on a hit the cached data, nothing drawn, nothing stored; and a
finished task ignores further steps -/
theorem task_result (j : Job) (i : Nat) (clone : Cache) (src : List Nat) (extra : Nat) :
    let l := iter (stepLocal next keep j i) (src.length + 6 + extra) (initLocal clone src)
    l.pc = 6 ∧
    (clone.get (j.rddId, i) = none →
      l.out = some (sampleSpec next keep (j.seed + i) src) ∧ l.cache = clone.put (j.rddId, i) (sampleSpec next keep (j.seed + i) src)) ∧
    (∀ d, clone.get (j.rddId, i) = some d → l.out = some d ∧ l.cache = clone) := by
  intro l
  cases h : clone.get (j.rddId, i) with
  | none =>
    obtain ⟨g, hg⟩ := run_miss next keep j i clone src extra h
    have hl : l = _ := hg
    rw [hl]
    exact ⟨rfl, fun _ => ⟨rfl, rfl⟩, fun d hd => by simp at hd⟩
  | some d =>
    have hl : l = _ := run_hit next keep j i clone src extra d h
    rw [hl]
    refine ⟨rfl, fun hn => by simp at hn, fun d' hd' => ?_⟩
    simp only [Option.some.injEq] at hd'
    subst hd'
    exact ⟨rfl, rfl⟩

-- OBLIGATION: PysparklingVerif.C03.thread_schedule_independent
/-- MAIN: every complete schedule of a thread pool — all interleavings, all start orders, any number of
pre-emptions — leaves every task exactly where a process pool (each task alone on its own copy) leaves it -/
theorem thread_schedule_independent (j : Job) (driver : Cache) (sh : Shared) (sched : List Nat)
    (hc : Complete j sched) :
    (runSched next keep j sched (initSys j driver sh)).tasks = runIsolated next keep j driver ∧
    (runSched next keep j sched (initSys j driver sh)).shared.rng = sh.rng := by
  obtain ⟨h1, _, _, h3⟩ := threads_touch_only_their_own_state next keep j sched (initSys j driver sh)
  refine ⟨?_, h1⟩
  apply List.ext_getElem?
  intro i
  rw [h3 i]
  simp only [initSys, runIsolated, List.getElem?_map, List.getElem?_zipIdx, Option.map_map]
  cases hp : j.parts[i]? with
  | none => rfl
  | some src =>
    have hcnt := hc i src hp
    obtain ⟨extra, he⟩ : ∃ extra, sched.count i = src.length + 6 + extra := ⟨sched.count i - (src.length + 6), by omega⟩
    simp only [Option.map_some, Function.comp, Nat.zero_add, Option.some.injEq, he]
    rw [run_extra]
    rfl

/-- every key of the driver's cache belongs to a partition of this job's dataset or to another dataset -/
def DriverOk (_j : Job) (driver : Cache) : Prop := (driver.map (·.1)).Nodup

-- OBLIGATION: PysparklingVerif.C03.distributed_eq_local
/-- the pool path (private clone per task holding only its partition's entries, new entries joined on the
driver in partition order) returns the same results and leaves the same cache contents as the default
in-process executor working directly on the driver's cache -/
theorem distributed_eq_local (j : Job) (driver : Cache) (hd : DriverOk j driver) :
    (collectJob driver (runIsolated next keep j driver)).1 = (runLocalJob next keep j driver).1 ∧
    ∀ k, (collectJob driver (runIsolated next keep j driver)).2.get k = (runLocalJob next keep j driver).2.get k := by
  have _ := hd  -- not needed: `lookup` / `put` already behave like a dict on lists with repeated keys
  rw [collectJob_runIsolated, runLocalJob_eq]
  exact ⟨rfl, fun _ => rfl⟩

-- OBLIGATION: PysparklingVerif.C03.cache_join_own_partition
/-- after the job, the driver's cache holds under `(dataset id, i)` exactly what partition `i`'s task
returned — for every partition — and entries of other datasets are untouched -/
theorem cache_join_own_partition (j : Job) (driver : Cache) (hd : DriverOk j driver) :
    let r := collectJob driver (runIsolated next keep j driver)
    (∀ i, i < j.parts.length → r.1[i]? = some (r.2.get (j.rddId, i)) ∧ (r.2.get (j.rddId, i)).isSome) ∧
    (∀ k, k.1 ≠ j.rddId → r.2.get k = driver.get k) := by
  intro r
  have _ := hd
  have hr : r = _ := collectJob_runIsolated next keep j driver
  rw [hr]
  refine ⟨fun i hi => ?_, fun k hk => ?_⟩
  · have hp : j.parts[i]? = some j.parts[i] := List.getElem?_eq_getElem hi
    have hown := fold_get_own next keep j driver j.parts 0 driver (fun _ _ => rfl) i _ hp
    simp only [Nat.zero_add] at hown
    simp only [hown, List.getElem?_map, List.getElem?_zipIdx, hp, Option.map_some, Nat.zero_add,
      Option.isSome_some, and_self]
  · apply fold_get_other
    intro i _ _ e
    exact hk (by rw [e])

-- OBLIGATION: PysparklingVerif.C03.second_action_reads_own_data
/-- a later action on the persisted dataset returns, for every partition, that partition's own data again
(and draws nothing) -/
theorem second_action_reads_own_data (j : Job) (driver : Cache) (hd : DriverOk j driver) :
    let r1 := collectJob driver (runIsolated next keep j driver)
    let r2 := collectJob r1.2 (runIsolated next keep j r1.2)
    r2.1 = r1.1 ∧ ∀ k, r2.2.get k = r1.2.get k := by
  intro r1 r2
  have _ := hd
  have hr1 : r1 = _ := collectJob_runIsolated next keep j driver
  have hr2 : r2 = _ := collectJob_runIsolated next keep j r1.2
  have hown : ∀ p ∈ j.parts.zipIdx,
      r1.2.get (j.rddId, p.2) = some (outSpec next keep j driver p.1 p.2) := by
    intro p hp
    rw [List.mem_zipIdx_iff_getElem?] at hp
    have := fold_get_own next keep j driver j.parts 0 driver (fun _ _ => rfl) p.2 p.1 hp
    simp only [Nat.zero_add] at this
    rw [hr1]; exact this
  have h2 : r2.2 = r1.2 := by
    rw [hr2]
    apply foldl_id_of_mem
    intro p hp c
    exact (cacheSpec_hit next keep j r1.2 c p.1 p.2 _ (hown p hp)).1
  have h1 : r2.1 = r1.1 := by
    have hr1a : r1.1 = _ := congrArg Prod.fst hr1
    rw [hr2, hr1a]
    apply List.map_congr_left
    intro p hp
    rw [(cacheSpec_hit next keep j r1.2 [] p.1 p.2 _ (hown p hp)).2]
  exact ⟨h1, fun k => by rw [h2]⟩


/-! ### every private task program, not only the pipeline modelled above -/

-- OBLIGATION: PysparklingVerif.C03.any_private_programs_commute
/-- for ARBITRARY task programs over arbitrary private state: under any schedule task `i` is exactly where its own
program is after the number of steps the schedule gave it -/
theorem any_private_programs_commute {σ : Type} (step : Nat → σ → σ) (sched : List Nat) (s : List σ) :
    (runAny step sched s).length = s.length ∧
    ∀ i, (runAny step sched s)[i]? = (s[i]?).map (iter (step i) (sched.count i)) := by
  induction sched generalizing s with
  | nil => exact ⟨rfl, fun i => by
      show s[i]? = _
      cases s[i]? <;> rfl⟩
  | cons a rest ih =>
    obtain ⟨r1, r2⟩ := ih (stepAt step a s)
    rw [runAny_cons]
    refine ⟨r1.trans (stepAt_length step a s), fun i => ?_⟩
    rw [r2 i, stepAt_getElem?, List.count_cons]
    by_cases hi : a = i
    · subst hi
      simp only [if_true, beq_self_eq_true]
      exact iter_succ_map _ _ _
    · have hb : (a == i) = false := by simpa using hi
      simp [hi, hb]

-- OBLIGATION: PysparklingVerif.C03.any_complete_schedule_is_sequential
/-- hence every schedule that lets every task finish — all interleavings, all start orders, any number of
pre-emptions — ends in the same state as running the tasks one after the other -/
theorem any_complete_schedule_is_sequential {σ : Type} (step : Nat → σ → σ) (n : Nat → Nat) (sched : List Nat) (s : List σ)
    (hq : Quiescent step n s) (hc : ∀ i, i < s.length → n i ≤ sched.count i) :
    runAny step sched s = runEachAlone step n s := by
  apply List.ext_getElem?
  intro i
  rw [(any_private_programs_commute step sched s).2 i, runEachAlone_getElem?]
  cases ht : s[i]? with
  | none => rfl
  | some t =>
    have hlt : i < s.length := (List.getElem?_eq_some_iff.mp ht).1
    have hcnt := hc i hlt
    obtain ⟨extra, he⟩ : ∃ extra, sched.count i = n i + extra := ⟨sched.count i - n i, by omega⟩
    simp only [Option.map_some, Option.some.injEq, he]
    exact iter_quiescent (step i) (n i) extra t (hq i t ht)

/-! ### the original code is NOT schedule independent (the theorem above is not vacuous) -/

def demoJob : Job := ⟨7, 100, [[0, 1], [2, 3]]⟩
/-- task 1 sets the shared key, task 0 overwrites it, task 1 runs to the end, then task 0 -/
def badSched : List Nat := [1, 0] ++ List.replicate 7 1 ++ List.replicate 7 0

-- OBLIGATION: PysparklingVerif.C03.old_code_schedule_dependent
/-- with the key in `self._cid` of the shared dataset object, a complete schedule with two pre-emptions stores
partition 1's data under partition 0's key: the second collect() of [0,1,2,3] returns [2,3,2,3] -/
theorem old_code_schedule_dependent :
    Complete demoJob badSched ∧
    let s := runSchedOld (· + 1) (fun _ => true) demoJob badSched (initSys demoJob [] ⟨none, 0⟩)
    (collectJob [] s.tasks).1 = [some [0, 1], some [2, 3]] ∧
    (collectJob [] s.tasks).2.get (7, 0) = some [2, 3] ∧ (collectJob [] s.tasks).2.get (7, 1) = none := by
  refine ⟨?_, ?_⟩
  · intro i src h
    match i with
    | 0 => simp [demoJob] at h; subst h; decide +kernel
    | 1 => simp [demoJob] at h; subst h; decide +kernel
    | n + 2 => simp [demoJob] at h
  · decide +kernel

-- OBLIGATION: PysparklingVerif.C03.old_code_shared_generator
/-- and with the module-global generator, a second task seeding it between two draws of the first changes the
first task's sample -/
theorem old_code_shared_generator :
    let keepEven : Nat → Bool := fun g => g % 2 == 0
    let s := runSchedOld (· + 1) keepEven demoJob ([0, 0, 0, 0] ++ [1, 1, 1, 1] ++ List.replicate 8 0 ++ List.replicate 8 1) (initSys demoJob [] ⟨none, 0⟩)
    (s.tasks.map (·.out))[0]? ≠ some (some (sampleSpec (· + 1) keepEven (100 + 0) [0, 1])) := by
  decide +kernel

-- non-vacuity of the positive statements on the same job and schedule
example : (runSched (· + 1) (fun _ => true) demoJob badSched (initSys demoJob [] ⟨none, 0⟩)).tasks.map (·.out) =
    [some [0, 1], some [2, 3]] := by decide +kernel
example : (collectJob [] (runIsolated (· + 1) (fun g => g % 2 == 0) demoJob [])).2 = [((7, 0), [1]), ((7, 1), [2])] := by
  decide +kernel

/-! ### jobs with side effects: a saving job on a thread pool (Model/SaveSched.lean)

`saveAsTextFile` tasks share the file system: each makes sure the target directory exists and writes its own part file.
Under EVERY complete schedule the job ends as on the in-process executor; the same statement is false for the code as it
was (`os.makedirs` without `exist_ok`: a task pre-empted between its existence test and `makedirs` failed). -/
section SaveOnAPool
open PysparklingVerif.SaveSched

-- OBLIGATION: PysparklingVerif.C03.save_any_complete_schedule
/-- the code as it is now: for every job and every complete schedule all tasks succeed, the directory exists (when there
is at least one task) and partition `i`'s file holds exactly partition `i`'s lines — which is what the in-process
executor (`sequential`) produces -/
theorem save_any_complete_schedule (parts : List (List Nat)) (sched : List Nat) (hc : Complete parts.length sched) :
    let s := run stepNew sched (initSys parts)
    s.tasks.all (·.pc == .done) = true ∧
    (∀ i, s.fs.files.lookup i = parts[i]?) ∧
    outcome s = outcome (sequential stepNew parts) := by
  intro s
  have hs : Inv parts sched s := by
    simpa [s] using inv_run parts sched [] (initSys parts) (inv_init parts)
  obtain ⟨h1, h2⟩ := inv_complete parts sched s hs hc
  have hq : Inv parts ((List.range parts.length).flatMap fun i => [i, i, i]) (sequential stepNew parts) := by
    simpa [sequential] using inv_run parts _ [] (initSys parts) (inv_init parts)
  obtain ⟨q1, q2⟩ := inv_complete parts _ _ hq (complete_sequential parts.length)
  refine ⟨h1, h2, ?_⟩
  unfold outcome
  rw [h1, q1]
  congr 1
  funext i
  rw [h2, q2]

-- OBLIGATION: PysparklingVerif.C03.save_old_code_race
/-- the code as it was: task 0 tests (no directory yet), task 1 runs to completion, task 0 resumes and its `makedirs`
fails — under a complete schedule, while the in-process executor succeeds -/
theorem save_old_code_race :
    let parts := [[1, 2], [3, 4]]
    let sched := [0, 1, 1, 1, 0, 0]
    Complete parts.length sched ∧
    (outcome (run stepOld sched (initSys parts))).1 = false ∧
    (outcome (sequential stepOld parts)).1 = true ∧
    (outcome (run stepNew sched (initSys parts))).1 = true := by
  refine ⟨?_, by decide, by decide, by decide⟩
  intro i hi
  match i, hi with
  | 0, _ => decide
  | 1, _ => decide
  | n + 2, h => exact absurd h (by simp)

end SaveOnAPool

end PysparklingVerif.C03
