/-
  C13 — DataFrame joins on column names match relational join semantics.
-/
import PysparklingVerif.Model.Join
import PysparklingVerif.Properties.C02
import PysparklingVerif.Lemmas.JoinLemmas
namespace PysparklingVerif.C13
open PysparklingVerif.Rdd PysparklingVerif.Sql PysparklingVerif.Join

/-- (the model-level fact, also where a join column is missing on one side - there the model's `keyOf` reads a null key
while the code raises: the obligations below exclude that) -/
theorem dfjoin_perm_model (how : How) (ln rn on : List String) (l r : Parts Row) :
    (dfJoin how ln rn on l r).Perm (specJoin how ln rn on (flat l) (flat r)) := by
  cases how
  · show ((flat (Keyed.join none (Rdd.map (kf ln on) l) (Rdd.map (kf rn on) r))).map _).Perm _
    rw [← spec_inner]
    refine List.Perm.trans ((C02.join_perm none _ _).map _) (List.Perm.of_eq ?_)
    rw [C01.map_flat, C01.map_flat]
  · show ((flat (Keyed.leftOuterJoin (Rdd.map (kf ln on) l) (Rdd.map (kf rn on) r))).map _).Perm _
    rw [← spec_left]
    refine List.Perm.trans ((C02.leftOuterJoin_perm _ _).map _) (List.Perm.of_eq ?_)
    rw [C01.map_flat, C01.map_flat]
  · show ((flat (Keyed.rightOuterJoin (Rdd.map (kf ln on) l) (Rdd.map (kf rn on) r))).map _).Perm _
    rw [← spec_right]
    refine List.Perm.trans ((C02.rightOuterJoin_perm _ _).map _) (List.Perm.of_eq ?_)
    rw [C01.map_flat, C01.map_flat]
  · show ((flat (Keyed.fullOuterJoin (Rdd.map (kf ln on) l) (Rdd.map (kf rn on) r))).map _).Perm _
    rw [← spec_full]
    refine List.Perm.trans ((C02.fullOuterJoin_perm _ _).map _) (List.Perm.of_eq ?_)
    rw [C01.map_flat, C01.map_flat]
  · show ((flat (Keyed.leftSemiJoin (Rdd.map (kf ln on) l) (Rdd.map (kf rn on) r))).map _).Perm _
    rw [← spec_semi]
    refine List.Perm.trans ((C02.semi_anti_perm _ _).1.map _) (List.Perm.of_eq ?_)
    rw [C01.map_flat, C01.map_flat]
  · show ((flat (Keyed.leftAntiJoin (Rdd.map (kf ln on) l) (Rdd.map (kf rn on) r))).map _).Perm _
    rw [← spec_anti]
    refine List.Perm.trans ((C02.semi_anti_perm _ _).2.map _) (List.Perm.of_eq ?_)
    rw [C01.map_flat, C01.map_flat]

-- OBLIGATION: PysparklingVerif.C13.dfjoin_perm
/-- for all six join types, any key columns, and ANY partitioning of either side, the joined rows are —
as a multiset — exactly the rows of the nested-loop reference: one row per matching pair, null-padded
rows for the unmatched side of outer joins, left rows filtered by (non-)existence of a match for semi / anti -/
theorem dfjoin_perm (how : How) (ln rn on : List String) (l r : Parts Row)
    -- a join column that one side lacks makes the code raise (the model's `keyOf` would read it as a null key)
    (_hon : ∀ c ∈ on, c ∈ ln ∧ c ∈ rn) :
    (dfJoin how ln rn on l r).Perm (specJoin how ln rn on (flat l) (flat r)) :=
  dfjoin_perm_model how ln rn on l r

-- OBLIGATION: PysparklingVerif.C13.dfjoin_partition_independent
theorem dfjoin_partition_independent (how : How) (ln rn on : List String) (l l' r r' : Parts Row)
    (hl : flat l = flat l') (hr : flat r = flat r') (hon : ∀ c ∈ on, c ∈ ln ∧ c ∈ rn) :
    (dfJoin how ln rn on l r).Perm (dfJoin how ln rn on l' r') := by
  refine (dfjoin_perm how ln rn on l r hon).trans ?_
  rw [hl, hr]
  exact (dfjoin_perm how ln rn on l' r' hon).symm

-- OBLIGATION: PysparklingVerif.C13.dfjoin_columns
/-- output columns: the key columns once, then the remaining left columns, then (except for semi / anti)
the remaining right columns — and every joined row has exactly that many values -/
theorem dfjoin_columns (how : How) (ln rn on : List String) (l r : Parts Row)
    (hl : ∀ row ∈ flat l, row.length = ln.length) (hr : ∀ row ∈ flat r, row.length = rn.length)
    (hon : ∀ c ∈ on, c ∈ ln ∧ c ∈ rn) :
    joinNames how ln rn on =
      on ++ (ln.filter fun n => !on.contains n) ++
        (if how = .semi ∨ how = .anti then [] else rn.filter fun n => !on.contains n) ∧
    ∀ row ∈ dfJoin how ln rn on l r, row.length = (joinNames how ln rn on).length := by
  refine ⟨rfl, ?_⟩
  intro row hrow
  exact specJoin_row_length how ln rn on (flat l) (flat r) hl hr row
    ((dfjoin_perm how ln rn on l r hon).mem_iff.mp hrow)

/-- (row widths on the model, without the guard; used by the frame lemmas, where `findCol` has checked the keys) -/
theorem dfjoin_row_length_model (how : How) (ln rn on : List String) (l r : Parts Row)
    (hl : ∀ row ∈ flat l, row.length = ln.length) (hr : ∀ row ∈ flat r, row.length = rn.length) :
    ∀ row ∈ dfJoin how ln rn on l r, row.length = (joinNames how ln rn on).length := by
  intro row hrow
  exact specJoin_row_length how ln rn on (flat l) (flat r) hl hr row
    ((dfjoin_perm_model how ln rn on l r).mem_iff.mp hrow)

-- OBLIGATION: PysparklingVerif.C13.crossJoin_eq
theorem crossJoin_eq (l r : Parts Row) :
    crossJoin l r = (flat l).flatMap fun a => (flat r).map fun b => a ++ b := by
  unfold crossJoin
  rw [C02.cartesian_eq, List.map_flatMap]
  simp only [List.map_map]
  rfl

-- non-vacuity: duplicate keys multiply, unmatched left row is null-padded
example : dfJoin .left ["k", "a"] ["k", "b"] ["k"] [[[.int 1, .str "x"], [.int 2, .str "y"]]] [[[.int 1, .int 10]], [[.int 1, .int 11]]]
    = [[.int 1, .str "x", .int 10], [.int 1, .str "x", .int 11], [.int 2, .str "y", .null]] := by decide +kernel
example : joinNames .semi ["k", "a"] ["k", "b"] ["k"] = ["k", "a"] := by decide +kernel

end PysparklingVerif.C13
