/-
  C05 — Caching never changes results, prevents recomputation, and unpersist is safe.
  Property theorems only.
-/
import PysparklingVerif.Model.Cache
import PysparklingVerif.Lemmas.CacheLemmas
namespace PysparklingVerif.C05
open PysparklingVerif.Cache

variable {α : Type}

/-- every cache entry holds what its dataset id MEANS for that partition
(`mean id i` = the value of the dataset persisted under `id`, partition `i`). One `mean` describes
all datasets of all contexts sharing the manager — possible because ids are pairwise distinct. -/
def Sound (mean : Nat → Nat → Option (List α)) (c : Store α) : Prop :=
  ∀ k d, c.get k = some d → mean k.1 k.2 = some d

/-- the lineage's persist stages carry ids whose meaning is the lineage below them -/
def WF (mean : Nat → Nat → Option (List α)) (src : List α) (i : Nat) : List (Stage α) → Prop
  | [] => True
  | .op _ _ :: up => WF mean src i up
  | .persist id :: up => mean id i = some (plain src up) ∧ WF mean src i up

def opTags : List (Stage α) → List Nat
  | [] => []
  | .op t _ :: up => t :: opTags up
  | .persist _ :: up => opTags up

def noPersist : List (Stage α) → Prop
  | [] => True
  | .op _ _ :: up => noPersist up
  | .persist _ :: _ => False

-- OBLIGATION: PysparklingVerif.C05.persist_transparent
/-- inserting persist() at ANY positions never changes a partition's value, whatever the (sound) cache
already contains — entries of other datasets, other contexts, earlier partial actions — and soundness
is preserved, so this holds along every history of actions -/
theorem persist_transparent (mean : Nat → Nat → Option (List α)) (src : List α) (i : Nat)
    (stages : List (Stage α)) (c : Store α) (hs : Sound mean c) (hw : WF mean src i stages) :
    (compute src i stages c).1 = plain src stages ∧ Sound mean (compute src i stages c).2.1 := by
  induction stages generalizing c with
  | nil => exact ⟨rfl, hs⟩
  | cons s up ih =>
    cases s with
    | op t f =>
      obtain ⟨ih1, ih2⟩ := ih c hs hw
      rw [compute_op]
      exact ⟨by simp only [plain, ih1], ih2⟩
    | persist id =>
      obtain ⟨hm, hw'⟩ := hw
      cases hg : c.get (id, i) with
      | some d =>
        rw [compute_persist_hit _ _ _ _ _ _ hg]
        have := hs _ _ hg
        simp only at this
        rw [hm] at this
        refine ⟨?_, hs⟩
        simp only [plain]
        exact (Option.some.inj this).symm
      | none =>
        obtain ⟨ih1, ih2⟩ := ih c hs hw'
        rw [compute_persist_miss _ _ _ _ _ hg]
        refine ⟨by simp only [plain, ih1], ?_⟩
        intro k d hk
        simp only at hk
        rw [Store.get_put] at hk
        split at hk
        · next h => subst h; rw [ih1] at hk; rw [← hk]; exact hm
        · exact ih2 k d hk

-- OBLIGATION: PysparklingVerif.C05.action_transparent
/-- whole actions (any list of touched partitions: all of them, or a prefix for first/take) -/
theorem action_transparent (mean : Nat → Nat → Option (List α)) (srcs : List (List α))
    (stages : List (Stage α)) (is : List Nat) (c : Store α) (hs : Sound mean c)
    (hw : ∀ i ∈ is, WF mean (srcs.getD i []) i stages) :
    (runAction srcs stages is c).1 = is.map (fun i => plain (srcs.getD i []) stages) ∧
    Sound mean (runAction srcs stages is c).2.1 := by
  induction is generalizing c with
  | nil => exact ⟨rfl, hs⟩
  | cons i is ih =>
    obtain ⟨h1, h2⟩ := persist_transparent mean (srcs.getD i []) i stages c hs
      (hw i (List.mem_cons_self ..))
    obtain ⟨ih1, ih2⟩ := ih _ h2 (fun j hj => hw j (List.mem_cons_of_mem _ hj))
    rw [runAction_cons]
    exact ⟨by simp only [List.map_cons, h1, ih1], ih2⟩

-- OBLIGATION: PysparklingVerif.C05.no_recompute
/-- once the entry of a persisted dataset's partition exists, evaluating that dataset or any descendant
invokes no user function upstream of it for that partition -/
theorem no_recompute (src : List α) (i id : Nat) (pre up : List (Stage α)) (c : Store α) (d : List α)
    (h : c.get (id, i) = some d) :
    ∀ r ∈ (compute src i (pre ++ .persist id :: up) c).2.2, r.tag ∈ opTags pre ∧ r.part = i := by
  induction pre with
  | nil =>
    rw [List.nil_append, compute_persist_hit _ _ _ _ _ _ h]
    intro r hr
    cases hr
  | cons s pre ih =>
    cases s with
    | op t f =>
      rw [List.cons_append, compute_op]
      intro r hr
      simp only [List.mem_append, List.mem_singleton] at hr
      rcases hr with hr | rfl
      · exact ⟨List.mem_cons_of_mem _ (ih r hr).1, (ih r hr).2⟩
      · exact ⟨List.mem_cons_self .., rfl⟩
    | persist id' =>
      rw [List.cons_append]
      cases hg : c.get (id', i) with
      | some d' =>
        rw [compute_persist_hit _ _ _ _ _ _ hg]
        intro r hr
        cases hr
      | none =>
        rw [compute_persist_miss _ _ _ _ _ hg]
        exact ih

-- OBLIGATION: PysparklingVerif.C05.cached_after_compute
/-- computing through a persisted stage leaves its entry behind (with the right data) -/
theorem cached_after_compute (mean : Nat → Nat → Option (List α)) (src : List α) (i id : Nat)
    (pre up : List (Stage α)) (c : Store α) (hs : Sound mean c)
    (hw : WF mean src i (pre ++ .persist id :: up)) (hp : noPersist pre) :
    (compute src i (pre ++ .persist id :: up) c).2.1.get (id, i) = some (plain src up) := by
  induction pre with
  | nil =>
    rw [List.nil_append] at hw ⊢
    obtain ⟨hm, hw'⟩ := hw
    cases hg : c.get (id, i) with
    | some d =>
      rw [compute_persist_hit _ _ _ _ _ _ hg]
      have := hs _ _ hg
      simp only at this
      rw [hm] at this
      simp only [hg]
      exact this.symm
    | none =>
      rw [compute_persist_miss _ _ _ _ _ hg]
      simp only [Store.get_put_self]
      rw [(persist_transparent mean src i up c hs hw').1]
  | cons s pre ih =>
    cases s with
    | op t f =>
      rw [List.cons_append, compute_op]
      exact ih hw hp
    | persist id' => exact absurd hp (by simp [noPersist])

-- OBLIGATION: PysparklingVerif.C05.miss_recomputes_once
/-- on a miss (e.g. after expiry) every upstream function runs exactly once for that partition -/
theorem miss_recomputes_once (src : List α) (i id : Nat) (up : List (Stage α)) (c : Store α)
    (h : c.get (id, i) = none) (hp : noPersist up) :
    (compute src i (.persist id :: up) c).2.2 = (opTags up).reverse.map (fun t => ⟨t, i⟩) := by
  rw [compute_persist_miss _ _ _ _ _ h]
  simp only
  clear h
  induction up with
  | nil => rfl
  | cons s up ih =>
    cases s with
    | op t f =>
      rw [compute_op]
      simp only [opTags, List.reverse_cons, List.map_append, List.map_cons, List.map_nil, ih hp]
    | persist id' => exact absurd hp (by simp [noPersist])

-- OBLIGATION: PysparklingVerif.C05.ids_distinct
/-- dataset ids come from one strictly increasing process-wide counter: the ids issued after counter
value `n` are `n+1, n+2, …`, pairwise distinct and different from every earlier id -/
theorem ids_distinct (n k : Nat) :
    (List.range' (n + 1) k).Nodup ∧ ∀ x ∈ List.range' (n + 1) k, n < x := by
  refine ⟨List.nodup_range' .., ?_⟩
  intro x hx
  rw [List.mem_range'_1] at hx
  omega

-- OBLIGATION: PysparklingVerif.C05.unpersist_leaves_nothing
/-- unpersist removes every entry of that dataset and nothing else -/
theorem unpersist_leaves_nothing (id n : Nat) (c : Store α) :
    (∀ i, i < n → (unpersist id n c).get (id, i) = none) ∧
    (∀ k, k.1 ≠ id → (unpersist id n c).get k = c.get k) := by
  unfold unpersist
  constructor
  · intro i hi
    rw [get_foldl_del (fun i => (id, i))]
    simp [hi]
  · intro k hk
    rw [get_foldl_del (fun i => (id, i))]
    have : k ∉ List.map (fun i => (id, i)) (List.range n) := by
      intro hmem
      rw [List.mem_map] at hmem
      obtain ⟨j, _, rfl⟩ := hmem
      exact hk rfl
    simp [this]

-- OBLIGATION: PysparklingVerif.C05.unpersist_contents_same
/-- the dataset handed back by unpersist has the same contents -/
theorem unpersist_contents_same (src : List α) (stages : List (Stage α)) :
    plain src (dropHeadPersist stages) = plain src stages := by
  cases stages with
  | nil => rfl
  | cons s up => cases s <;> rfl

-- OBLIGATION: PysparklingVerif.C05.gc_removes_expired
/-- with a non-decreasing clock (`added` sorted by time) `gc(now)` removes EVERY entry whose age has
reached the timeout, keeps only younger time stamps, and never touches other idents -/
theorem gc_removes_expired (t : Timed α) (now : Int)
    (hsorted : t.added.Pairwise (fun a b => a.2 ≤ b.2)) :
    (∀ e ∈ t.added, (e.2 : Int) ≤ now - t.timeout → (t.gc now).store.get e.1 = none) ∧
    (∀ e ∈ (t.gc now).added, now - t.timeout < (e.2 : Int)) ∧
    (∀ k, (∀ e ∈ t.added, e.1 ≠ k) → (t.gc now).store.get k = t.store.get k) := by
  exact gc_lists (now - t.timeout) t.added t.store hsorted

-- non-vacuity
example : (compute [1, 2] 0 [.op 7 (·.map (· + 1)), .persist 3, .op 5 (·.map (· * 2))] []).2.2 = [⟨5, 0⟩, ⟨7, 0⟩] := by
  decide +kernel
example : (compute [1, 2] 0 [.op 7 (·.map (· + 1)), .persist 3, .op 5 (·.map (· * 2))] [((3, 0), [2, 4])]).2.2 = [⟨7, 0⟩] := by
  decide +kernel

end PysparklingVerif.C05
