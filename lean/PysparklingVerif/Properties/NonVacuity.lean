/-
  NON-VACUITY AUDIT of the obligation theorems (Properties/C01 … C20, Extracted/EquivC03 … EquivC20).

  For EVERY obligation theorem that has hypotheses there is an `example` below (marked `-- NONVACUOUS: <name>`) that
  exhibits concrete, non-trivial arguments — several partitions, failing attempts, non-empty caches, nulls, … — for
  which ALL hypotheses of the theorem hold at once; wherever possible the example APPLIES the theorem to those
  arguments (so the hypotheses are discharged in front of the kernel and the theorem is shown to be usable).
  Theorems without hypotheses are listed at the end (`-- NO-HYPOTHESES: <name>`), so that every obligation is
  accounted for. A theorem whose hypotheses cannot be satisfied would be marked `-- VACUOUS?: <name>` (none at present).

  Findings:
    * NO obligation is vacuous any more. (A first run of this audit found `C08.var_chunks` vacuous — its codec
      hypotheses were quantified over ALL naturals `n`, which no fixed-width prefix satisfies; the statement now
      carries a capacity `B` and is exhibited below with a one-byte (`B = 256`) and a two-byte (`B = 65536`) prefix.)
    * `C01.reduce_empty`, `C17.empty_summary` and `Extracted.C10.queueGet_none_only_default` are about the empty
      dataset / exhausted queue by their very statement; their witnesses are "several empty partitions" resp. the
      exhausted queue (nothing else can satisfy them — that is what they say).
    * hypotheses that the proofs do not use (satisfiable, exhibited below, but superfluous): `C03.DriverOk` in
      `distributed_eq_local` / `cache_join_own_partition` / `second_action_reads_own_data`, `hn'` of
      `C09.marker_implies_complete`, `hne` of `C09.fault_free_ok`, `hs` of `C11.window_emission`, `hstruct` of `C19.inferred_schema_*`,
      `hp` of `C14.pivot_cells`, `hn` of `C12.withColumn_spec`, `hn` / `hperm` / `hb` of `C12.union_positional`.
-/
import PysparklingVerif.Properties.C01
import PysparklingVerif.Properties.C02
import PysparklingVerif.Properties.C03
import PysparklingVerif.Properties.C04
import PysparklingVerif.Properties.C05
import PysparklingVerif.Properties.C06
import PysparklingVerif.Properties.C07
import PysparklingVerif.Properties.C08
import PysparklingVerif.Properties.C09
import PysparklingVerif.Properties.C10
import PysparklingVerif.Properties.C11
import PysparklingVerif.Properties.C12
import PysparklingVerif.Properties.C13
import PysparklingVerif.Properties.C14
import PysparklingVerif.Properties.C15
import PysparklingVerif.Properties.C16
import PysparklingVerif.Properties.C17
import PysparklingVerif.Properties.C18
import PysparklingVerif.Properties.C19
import PysparklingVerif.Properties.C20
import PysparklingVerif.Extracted.EquivC03
import PysparklingVerif.Extracted.EquivC04
import PysparklingVerif.Extracted.EquivC05
import PysparklingVerif.Extracted.EquivC06
import PysparklingVerif.Extracted.EquivC07
import PysparklingVerif.Extracted.EquivC08
import PysparklingVerif.Extracted.EquivC09
import PysparklingVerif.Extracted.EquivC10
import PysparklingVerif.Extracted.EquivC11
import PysparklingVerif.Extracted.EquivC13
import PysparklingVerif.Extracted.EquivC14
import PysparklingVerif.Extracted.EquivC15
import PysparklingVerif.Extracted.EquivC16
import PysparklingVerif.Extracted.EquivC17
import PysparklingVerif.Extracted.EquivC18
import PysparklingVerif.Extracted.EquivC20
namespace PysparklingVerif.NonVacuity
open PysparklingVerif PysparklingVerif.Rdd

/-! ## C01 -/
section C01

-- NONVACUOUS: PysparklingVerif.C01.mapPartitions_flat
/-- `g = map (·+1)` is a list homomorphism; three partitions, one of them empty -/
example : flat (mapPartitions (List.map (· + 1)) [[1, 2], [], [3]]) = List.map (· + 1) (flat [[(1 : Int), 2], [], [3]]) :=
  C01.mapPartitions_flat (List.map (· + 1)) (fun _ _ => List.map_append) [[1, 2], [], [3]]

-- NONVACUOUS: PysparklingVerif.C01.op_run_flat
example : flat ((Op.mapPartitions (List.filter (fun x : Int => x != 2))).run [[1, 2], [2, 3]]) =
    (Op.mapPartitions (List.filter (fun x : Int => x != 2))).runList (flat [[1, 2], [2, 3]]) :=
  C01.op_run_flat (Op.mapPartitions (List.filter (fun x : Int => x != 2)))
    (show Op.Indep (Op.mapPartitions _) from fun a b => List.filter_append a b) [[1, 2], [2, 3]]
example : flat ((Op.coalesce 2 : Op Int).run [[1], [2], [3]]) = (Op.coalesce 2 : Op Int).runList (flat [[1], [2], [3]]) :=
  C01.op_run_flat (Op.coalesce 2) (show 1 ≤ 2 by decide) [[1], [2], [3]]

-- NONVACUOUS: PysparklingVerif.C01.pipeline_partition_independent
/-- a four-stage pipeline (map, homomorphic mapPartitions, coalesce 2, sortBy) over 5 elements in 3 slices -/
example :
    let ops : List (Op Int) := [.map (· * 2), .mapPartitions (List.filter (· != 4)), .coalesce 2,
      .sortBy id (fun a b => decide (a ≤ b)) false none]
    collect (runAll ops (parallelize [3, 1, 2, 5, 4] 3)) = runListAll ops [3, 1, 2, 5, 4] :=
  C01.pipeline_partition_independent _
    (by
      intro op hop
      simp only [List.mem_cons, List.not_mem_nil, or_false] at hop
      rcases hop with rfl | rfl | rfl | rfl
      · trivial
      · exact fun a b => List.filter_append a b
      · show 1 ≤ 2; decide
      · trivial)
    [3, 1, 2, 5, 4] 3

-- NONVACUOUS: PysparklingVerif.C01.reduce_eq
example : reduce (· + ·) [[1, 2], [], [3]] = some (([2, 3] : List Int).foldl (· + ·) 1) :=
  C01.reduce_eq (· + ·) (fun a b c => Int.add_assoc a b c) [[1, 2], [], [3]]

-- NONVACUOUS: PysparklingVerif.C01.reduce_empty
/-- the hypothesis says the dataset is empty (that is the case the theorem is about); the layout is not: three
empty partitions -/
example : reduce (fun a b : Int => a + b) [[], [], []] = none :=
  C01.reduce_empty _ [[], [], []] rfl

-- NONVACUOUS: PysparklingVerif.C01.aggregate_eq
/-- sum-of-squares: `seq b x = b + x*x`, `comb = +`, zero 0 -/
example : aggregate (0 : Int) (fun b x => b + x * x) (· + ·) [[1, 2], [3]] =
    (flat [[(1 : Int), 2], [3]]).foldl (fun b x => b + x * x) 0 :=
  C01.aggregate_eq (0 : Int) (fun b (x : Int) => b + x * x) (· + ·)
    (by
      intro b xs
      induction xs generalizing b with
      | nil => simp
      | cons x xs ih =>
        simp only [List.foldl_cons]
        rw [← ih (b + x * x), ← ih (0 + x * x)]
        omega)
    [[1, 2], [3]]

-- NONVACUOUS: PysparklingVerif.C01.fold_eq
example : fold (0 : Int) (· + ·) [[1, 2], [3], []] = (flat [[(1 : Int), 2], [3], []]).foldl (· + ·) 0 :=
  C01.fold_eq (0 : Int) (· + ·) (fun a b c => Int.add_assoc a b c) (fun a => Int.zero_add a) (fun a => Int.add_zero a)
    [[1, 2], [3], []]

-- NONVACUOUS: PysparklingVerif.C01.zero_not_shared
/-- heap of two objects, zero value is object 1 (= `[7]`), in-place `append` / `extend`, two partitions -/
example :
    let r := Zero.aggregateCopy (fun acc x => acc ++ [x]) (fun a b => a ++ b) [[5], [7]] 1 [[1], [2, 3]]
    r.1.read r.2 = Zero.aggregatePure (fun acc x => acc ++ [x]) (fun a b => a ++ b) (Zero.Heap.read [[5], [7]] 1) [[1], [2, 3]] ∧
    (∀ x, x < 2 → r.1.read x = Zero.Heap.read [[5], [7]] x) ∧ 2 ≤ r.2 :=
  C01.zero_not_shared (fun acc x => acc ++ [x]) (fun a b => a ++ b) [[5], [7]] 1 (by decide) [[1], [2, 3]]

end C01

/-! ## C02 -/
section C02
open PysparklingVerif.Keyed

/-- `comb b (foldl (+) 0 xs) = foldl (+) b xs` : the homomorphism condition for integer sum -/
theorem sum_hom (b : Int) (xs : List Int) : b + xs.foldl (· + ·) 0 = xs.foldl (· + ·) b := by
  induction xs generalizing b with
  | nil => simp
  | cons x xs ih =>
    simp only [List.foldl_cons]
    rw [← ih (b + x), ← ih (0 + x)]
    omega

-- NONVACUOUS: PysparklingVerif.C02.aggregateByKey_spec
/-- per-key integer sum; key 1 occurs in both partitions -/
example :
    let ps : Parts (Nat × Int) := [[(1, 10), (2, 20)], [(1, 5)]]
    ((flat (aggregateByKey (0 : Int) (· + ·) (· + ·) ps)).map (·.1)).Nodup ∧
    (flat (aggregateByKey (0 : Int) (· + ·) (· + ·) ps)).lookup 1 =
      (if 1 ∈ (flat ps).map (·.1) then some ((C02.vals (flat ps) 1).foldl (· + ·) 0) else none) :=
  C02.aggregateByKey_spec (0 : Int) (· + ·) (· + ·) sum_hom [[(1, 10), (2, 20)], [(1, 5)]] 1

-- NONVACUOUS: PysparklingVerif.C02.sortByKey_spec
/-- `≤` on `Nat` keys is total and transitive; two partitions, a duplicated key -/
example :
    let ps : Parts (Nat × String) := [[(3, "c"), (1, "a")], [(2, "b"), (1, "z")]]
    flat (sortByKey (fun a b => decide (a ≤ b)) true (some 3) ps) = pySorted (·.1) (fun a b => decide (a ≤ b)) true (flat ps) :=
  (C02.sortByKey_spec (fun a b : Nat => decide (a ≤ b)) (some 3) [[(3, "c"), (1, "a")], [(2, "b"), (1, "z")]]
    (by intro x y; simp only [Bool.or_eq_true, decide_eq_true_eq]; omega)
    (by intro x y z; simp only [decide_eq_true_eq]; omega)).1

end C02

/-! ## C03 -/
section C03
open PysparklingVerif.Sched

/-- a driver cache with an entry of this dataset (partition 1 already persisted) and one of another dataset -/
def c03Driver : Cache := [((7, 1), [3]), ((9, 0), [8, 8])]

-- NONVACUOUS: PysparklingVerif.C03.thread_schedule_independent
/-- two partitions of two elements, a complete schedule with two pre-emptions, a non-empty driver cache -/
example :
    (runSched (· + 1) (fun g => g % 2 == 0) C03.demoJob C03.badSched (initSys C03.demoJob c03Driver ⟨none, 5⟩)).tasks =
      runIsolated (· + 1) (fun g => g % 2 == 0) C03.demoJob c03Driver ∧
    (runSched (· + 1) (fun g => g % 2 == 0) C03.demoJob C03.badSched (initSys C03.demoJob c03Driver ⟨none, 5⟩)).shared.rng = 5 :=
  C03.thread_schedule_independent (· + 1) (fun g => g % 2 == 0) C03.demoJob c03Driver ⟨none, 5⟩ C03.badSched
    C03.old_code_schedule_dependent.1
/-- the hypothesis itself, on a different (round-robin) schedule of a 3-partition job with unequal partitions -/
example : Complete ⟨1, 0, [[4], [5, 6], []]⟩ ((List.replicate 8 [0, 1, 2]).flatten) := by
  intro i src h
  match i with
  | 0 => simp at h; subst h; decide +kernel
  | 1 => simp at h; subst h; decide +kernel
  | 2 => simp at h; subst h; decide +kernel
  | n + 3 => simp at h

-- NONVACUOUS: PysparklingVerif.C03.distributed_eq_local
theorem c03DriverOk : C03.DriverOk C03.demoJob c03Driver := by
  show (c03Driver.map (·.1)).Nodup
  decide
example :
    (collectJob c03Driver (runIsolated (· + 1) (fun g => g % 2 == 0) C03.demoJob c03Driver)).1 =
      (runLocalJob (· + 1) (fun g => g % 2 == 0) C03.demoJob c03Driver).1 :=
  (C03.distributed_eq_local (· + 1) (fun g => g % 2 == 0) C03.demoJob c03Driver c03DriverOk).1

-- NONVACUOUS: PysparklingVerif.C03.cache_join_own_partition
example :
    let r := collectJob c03Driver (runIsolated (· + 1) (fun g => g % 2 == 0) C03.demoJob c03Driver)
    (∀ i, i < C03.demoJob.parts.length → r.1[i]? = some (r.2.get (C03.demoJob.rddId, i)) ∧ (r.2.get (C03.demoJob.rddId, i)).isSome) ∧
    (∀ k, k.1 ≠ C03.demoJob.rddId → r.2.get k = c03Driver.get k) :=
  C03.cache_join_own_partition (· + 1) (fun g => g % 2 == 0) C03.demoJob c03Driver c03DriverOk

-- NONVACUOUS: PysparklingVerif.C03.second_action_reads_own_data
example :
    let r1 := collectJob c03Driver (runIsolated (· + 1) (fun g => g % 2 == 0) C03.demoJob c03Driver)
    let r2 := collectJob r1.2 (runIsolated (· + 1) (fun g => g % 2 == 0) C03.demoJob r1.2)
    r2.1 = r1.1 ∧ ∀ k, r2.2.get k = r1.2.get k :=
  C03.second_action_reads_own_data (· + 1) (fun g => g % 2 == 0) C03.demoJob c03Driver c03DriverOk

-- NONVACUOUS: PysparklingVerif.C03.any_complete_schedule_is_sequential
/-- three counters; task `i` counts up to `10 * (i + 1)` from its start value and then stops; it needs at most
`n i = 3` steps from the start states `[8, 18, 30]`; an interleaved schedule giving 3, 4 and 3 steps -/
example :
    runAny (fun i t => if t < 10 * (i + 1) then t + 1 else t) [0, 1, 2, 1, 0, 2, 1, 2, 0, 1] [8, 18, 30] =
      runEachAlone (fun i t => if t < 10 * (i + 1) then t + 1 else t) (fun _ => 3) [8, 18, 30] :=
  C03.any_complete_schedule_is_sequential (fun i t => if t < 10 * (i + 1) then t + 1 else t) (fun _ => 3)
    [0, 1, 2, 1, 0, 2, 1, 2, 0, 1] [8, 18, 30]
    (by
      intro i t h
      match i with
      | 0 => simp at h; subst h; decide
      | 1 => simp at h; subst h; decide
      | 2 => simp at h; subst h; decide
      | n + 3 => simp at h)
    (by
      intro i hi
      match i with
      | 0 => decide
      | 1 => decide
      | 2 => decide
      | n + 3 => simp only [List.length_cons, List.length_nil] at hi; omega)

-- (inner premises of C03.task_result: a cache miss and a cache hit both occur)
example : Cache.get ([] : Cache) (7, 0) = none ∧ Cache.get c03Driver (7, 1) = some [3] := by decide

end C03

/-! ## C04 -/
section C04
open PysparklingVerif.Retry

-- NONVACUOUS: PysparklingVerif.C04.task_retry_success
/-- two failing attempts, then success, `max_retries = 4` -/
example : (runTask 4 (failsThenOk 2 5 "v") 4 0).result = .ok "v" ∧ (runTask 4 (failsThenOk 2 5 "v") 4 0).attempts = 2 + 1 :=
  C04.task_retry_success 4 2 5 "v" (by decide)

-- NONVACUOUS: PysparklingVerif.C04.task_retry_exhausted
example : (runTask (α := String) 3 (alwaysFails fun i => 100 + i) 3 0).result = .error (100 + (3 - 1)) ∧
    (runTask (α := String) 3 (alwaysFails fun i => 100 + i) 3 0).attempts = 3 :=
  C04.task_retry_exhausted 3 (by decide) (fun i => 100 + i)

-- NONVACUOUS: PysparklingVerif.C04.task_general
/-- first part: attempts 0 and 1 fail, attempt 2 succeeds (`max = 4`) -/
example : (runTask 4 (failsThenOk 2 5 "v") 4 0).result = .ok "v" ∧ (runTask 4 (failsThenOk 2 5 "v") 4 0).attempts = 2 + 1 :=
  (C04.task_general 4 (by decide) (failsThenOk 2 5 "v")).1 2 "v" (by decide) (by decide)
    (fun i hi => ⟨5, by simp [failsThenOk, hi]⟩)
/-- second part: the first `max = 3` attempts all fail (the fourth would succeed) -/
example : ∃ e, failsThenOk 3 5 "v" (3 - 1) = .fail e ∧ (runTask 3 (failsThenOk 3 5 "v") 3 0).result = .error e ∧
    (runTask 3 (failsThenOk 3 5 "v") 3 0).attempts = 3 :=
  (C04.task_general 3 (by decide) (failsThenOk 3 5 "v")).2 (fun i hi => ⟨5, by simp [failsThenOk, hi]⟩)

-- NONVACUOUS: PysparklingVerif.C04.job_retry_success_exact
/-- three partitions failing 2, 0 and 1 times, `max = 3` -/
example :
    let plan : List (Nat × Exc × String) := [(2, 5, "a"), (0, 6, "b"), (1, 7, "c")]
    let r := runJob ⟨false⟩ 3 (plan.map fun t => failsThenOk t.1 t.2.1 t.2.2)
    r.result = .done (plan.map (·.2.2)) ∧ r.attempts = plan.map (·.1 + 1) ∧ r.ctx.locked = false :=
  C04.job_retry_success_exact 3 [(2, 5, "a"), (0, 6, "b"), (1, 7, "c")] (by decide)

-- NONVACUOUS: PysparklingVerif.C04.job_retry_exhausted
/-- two partitions that recover (after 1 and 2 failures), one that never does, one never attempted -/
example :
    let pre : List (Nat × Exc × String) := [(1, 5, "a"), (2, 6, "b")]
    let r := runJob ⟨false⟩ 3 ((pre.map fun t => failsThenOk t.1 t.2.1 t.2.2) ++ [alwaysFails fun i => 100 + i] ++ [failsThenOk 0 9 "z"])
    r.result = .raised (100 + (3 - 1)) ∧ r.attempts = pre.map (·.1 + 1) ++ [3] ∧ r.ctx.locked = false :=
  C04.job_retry_exhausted 3 (by decide) [(1, 5, "a"), (2, 6, "b")] (by decide) (fun i => 100 + i) [failsThenOk 0 9 "z"]

end C04

/-! ## C05 -/
section C05
open PysparklingVerif.Cache

/-- a store is sound as soon as each of its entries is (checkable by `decide` on concrete stores) -/
theorem c05_sound_of_entries {α : Type} (mean : Nat → Nat → Option (List α)) (c : Store α)
    (h : ∀ e ∈ c, mean e.1.1 e.1.2 = some e.2) : C05.Sound mean c := by
  intro k d hk
  induction c with
  | nil => simp [Store.get] at hk
  | cons e c ih =>
    obtain ⟨k', v⟩ := e
    simp only [Store.get, List.lookup_cons] at hk
    split at hk
    · next heq =>
      have hke : k = k' := by simpa using heq
      have := h (k', v) List.mem_cons_self
      simp only [Option.some.injEq] at hk
      subst hk; subst hke; exact this
    · exact ih (fun e' he' => h e' (List.mem_cons_of_mem _ he')) hk

/-- the lineage  source → (*2) → persist(id 3) → (+1), two partitions -/
def c05Srcs : List (List Nat) := [[1, 2], [3]]
def c05Up : List (Stage Nat) := [.op 5 (·.map (· * 2))]
def c05Stages : List (Stage Nat) := .op 7 (·.map (· + 1)) :: .persist 3 :: c05Up
/-- dataset 3 means "the doubled source"; dataset 9 belongs to somebody else -/
def c05Mean : Nat → Nat → Option (List Nat) := fun id i =>
  if id = 3 then some (plain (c05Srcs.getD i []) c05Up) else if id = 9 then some [0] else none
/-- partition 0 of dataset 3 already cached, plus a foreign entry -/
def c05Store : Store Nat := [((3, 0), [2, 4]), ((9, 1), [0])]

theorem c05Sound : C05.Sound c05Mean c05Store := c05_sound_of_entries _ _ (by decide)
theorem c05WF0 : C05.WF c05Mean [1, 2] 0 c05Stages := ⟨rfl, trivial⟩
theorem c05WF1 : C05.WF c05Mean [3] 1 c05Stages := ⟨rfl, trivial⟩

-- NONVACUOUS: PysparklingVerif.C05.persist_transparent
/-- partition 0 (a hit in a non-empty sound cache) and partition 1 (a miss) -/
example : (compute [1, 2] 0 c05Stages c05Store).1 = plain [1, 2] c05Stages ∧ C05.Sound c05Mean (compute [1, 2] 0 c05Stages c05Store).2.1 :=
  C05.persist_transparent c05Mean [1, 2] 0 c05Stages c05Store c05Sound c05WF0
example : (compute [3] 1 c05Stages c05Store).1 = plain [3] c05Stages ∧ C05.Sound c05Mean (compute [3] 1 c05Stages c05Store).2.1 :=
  C05.persist_transparent c05Mean [3] 1 c05Stages c05Store c05Sound c05WF1

-- NONVACUOUS: PysparklingVerif.C05.action_transparent
example : (runAction c05Srcs c05Stages [0, 1] c05Store).1 = [0, 1].map (fun i => plain (c05Srcs.getD i []) c05Stages) ∧
    C05.Sound c05Mean (runAction c05Srcs c05Stages [0, 1] c05Store).2.1 :=
  C05.action_transparent c05Mean c05Srcs c05Stages [0, 1] c05Store c05Sound
    (by
      intro i hi
      simp only [List.mem_cons, List.not_mem_nil, or_false] at hi
      rcases hi with rfl | rfl
      · exact c05WF0
      · exact c05WF1)

-- NONVACUOUS: PysparklingVerif.C05.no_recompute
example : ∀ r ∈ (compute [1, 2] 0 ([.op 7 (·.map (· + 1))] ++ .persist 3 :: c05Up) c05Store).2.2,
    r.tag ∈ C05.opTags [Stage.op (α := Nat) 7 (·.map (· + 1))] ∧ r.part = 0 :=
  C05.no_recompute [1, 2] 0 3 [.op 7 (·.map (· + 1))] c05Up c05Store [2, 4] (by decide)

-- NONVACUOUS: PysparklingVerif.C05.cached_after_compute
/-- partition 1: a miss, the entry is there afterwards -/
example : (compute [3] 1 ([.op 7 (·.map (· + 1))] ++ .persist 3 :: c05Up) c05Store).2.1.get (3, 1) = some (plain [3] c05Up) :=
  C05.cached_after_compute c05Mean [3] 1 3 [.op 7 (·.map (· + 1))] c05Up c05Store c05Sound c05WF1 trivial

-- NONVACUOUS: PysparklingVerif.C05.miss_recomputes_once
/-- two upstream functions, partition 1 not cached (partition 0 is) -/
example : (compute [3] 1 (.persist 3 :: [.op 5 (·.map (· * 2)), .op 4 (·.map (· + 10))]) c05Store).2.2 =
    (C05.opTags [Stage.op (α := Nat) 5 (·.map (· * 2)), .op 4 (·.map (· + 10))]).reverse.map (fun t => ⟨t, 1⟩) :=
  C05.miss_recomputes_once [3] 1 3 [.op 5 (·.map (· * 2)), .op 4 (·.map (· + 10))] c05Store (by decide) trivial

-- NONVACUOUS: PysparklingVerif.C05.gc_removes_expired
/-- three time stamps 10 ≤ 20 ≤ 30, timeout 15, now 40: the first two are expired, the third is kept -/
def c05Timed : Timed Nat :=
  ⟨[((3, 0), [2, 4]), ((3, 1), [6]), ((4, 0), [1]), ((9, 1), [0])], [((3, 0), 10), ((3, 1), 20), ((4, 0), 30)], 15⟩
example :
    (∀ e ∈ c05Timed.added, (e.2 : Int) ≤ 40 - c05Timed.timeout → (c05Timed.gc 40).store.get e.1 = none) ∧
    (∀ e ∈ (c05Timed.gc 40).added, 40 - c05Timed.timeout < (e.2 : Int)) ∧
    (∀ k, (∀ e ∈ c05Timed.added, e.1 ≠ k) → (c05Timed.gc 40).store.get k = c05Timed.store.get k) :=
  C05.gc_removes_expired c05Timed 40 (by decide)

end C05

/-! ## C06 -/
section C06
open PysparklingVerif.Lazy

/-- filter even → +1 → duplicate -/
def c06Ops : List (LOp Nat) := [.filter (· % 2 == 0), .map (· + 1), .flatMap fun x => [x, x]]

-- NONVACUOUS: PysparklingVerif.C06.single_pass_exactly_once
/-- the last of three stages, on a 4-element partition -/
example : C06.argsOf 2 (pullAll (C06.partStream c06Ops [1, 2, 3, 4])).1 = runListAll (c06Ops.take 2) [1, 2, 3, 4] :=
  C06.single_pass_exactly_once c06Ops [1, 2, 3, 4] 2 (by decide)

-- NONVACUOUS: PysparklingVerif.C06.take_no_later_partition
/-- three partitions; `take(3)` is satisfied by the first two (`i = 1`), which hold 2 + 2 outputs -/
example :
    let ss := [[1, 2, 3, 4], [6], [8, 10]].map (C06.partStream c06Ops)
    (takeChain 3 ss).1 <+: ((ss.take (1 + 1)).flatMap fun s => (pullAll s).1) :=
  C06.take_no_later_partition 3 1 ([[1, 2, 3, 4], [6], [8, 10]].map (C06.partStream c06Ops)) (by decide +kernel)

-- NONVACUOUS: PysparklingVerif.C06.take_never_twice
example : C06.argsOf 1 (takeChain 3 ([[1, 2, 3, 4], [6], [8, 10]].map (C06.partStream c06Ops))).1 <+:
    [[1, 2, 3, 4], [6], [8, 10]].flatMap fun p => runListAll (c06Ops.take 1) p :=
  C06.take_never_twice c06Ops [[1, 2, 3, 4], [6], [8, 10]] 3 1 (by decide)

end C06

/-! ## C07 -/
section C07

-- NONVACUOUS: PysparklingVerif.C07.parallelize_length
example : (parallelize [1, 2, 3, 4, 5] 3).length = 3 := C07.parallelize_length [1, 2, 3, 4, 5] 3 (by decide)

-- NONVACUOUS: PysparklingVerif.C07.parallelize_slice
/-- the middle one of three slices of five elements -/
example : (parallelize [1, 2, 3, 4, 5] 3)[1]? =
    some (([1, 2, 3, 4, 5].drop (bound 1 5 3)).take (bound (1 + 1) 5 3 - bound 1 5 3)) :=
  C07.parallelize_slice [1, 2, 3, 4, 5] 3 (by decide) 1 (by decide)

-- NONVACUOUS: PysparklingVerif.C07.coalesce_length
example : (coalesce 2 [[1], [2], [3], [4], [5]]).length = min 2 5 :=
  C07.coalesce_length [[1], [2], [3], [4], [5]] 2 (Or.inl (by decide))
/-- (the other disjunct: a dataset without partitions, `coalesce(0)`) -/
example : (coalesce 0 ([] : Parts Nat)).length = min 0 0 := C07.coalesce_length [] 0 (Or.inr rfl)

-- NONVACUOUS: PysparklingVerif.C07.partitionBy_placement
example : (partitionBy 2 (fun k : Nat => k) [[(1, "a"), (2, "b")], [(3, "c")]]).length = 2 ∧
    ∀ j, j < 2 → (partitionBy 2 (fun k : Nat => k) [[(1, "a"), (2, "b")], [(3, "c")]])[j]? =
      some ((flat [[(1, "a"), (2, "b")], [(3, "c")]]).filter (fun kv => kv.1 % 2 == j)) :=
  C07.partitionBy_placement 2 (fun k => k) _ (Or.inl (by decide))

-- NONVACUOUS: PysparklingVerif.C07.parallelize_balanced
example : ∀ p ∈ parallelize [1, 2, 3, 4, 5] 3, ∀ q ∈ parallelize [1, 2, 3, 4, 5] 3, p.length ≤ q.length + 1 :=
  C07.parallelize_balanced [1, 2, 3, 4, 5] 3 (by decide)

-- NONVACUOUS: PysparklingVerif.C07.coalesce_blocks
/-- five partitions (one empty) coalesced to two -/
example : ∃ sizes : List Nat, sizes.length = min 2 5 ∧ sizes.sum = 5 ∧ (∀ a ∈ sizes, ∀ b ∈ sizes, a ≤ b + 1) ∧
    coalesce 2 [[1], [2, 3], [], [4], [5]] = (consume sizes [[1], [2, 3], [], [4], [5]]).map flat :=
  C07.coalesce_blocks [[1], [2, 3], [], [4], [5]] 2 (by decide)

-- NONVACUOUS: PysparklingVerif.C07.coalesce_flat
example : flat (coalesce 2 [[1], [2, 3], [], [4], [5]]) = flat [[1], [2, 3], [], [4], [5]] :=
  C07.coalesce_flat [[1], [2, 3], [], [4], [5]] 2 (by decide)

-- NONVACUOUS: PysparklingVerif.C07.partitionBy_colocated
/-- key 4 occurs in both input partitions; with `f = id`, `n = 3` both pairs land in partition 1 -/
example : (1 : Nat) = 1 :=
  C07.partitionBy_colocated 3 id [[(4, "a"), (2, "b")], [(4, "c"), (1, "d")]] 1 1
    [(4, "a"), (4, "c"), (1, "d")] [(4, "a"), (4, "c"), (1, "d")] (by decide) (by decide)
    (4, "a") (4, "c") (by decide) (by decide) rfl

-- NONVACUOUS: PysparklingVerif.C07.partitionBy_complete
example : (flat (partitionBy 3 id [[(4, "a"), (2, "b")], [(4, "c"), (1, "d")]])).Perm (flat [[(4, "a"), (2, "b")], [(4, "c"), (1, "d")]]) :=
  C07.partitionBy_complete 3 (by decide) id _

-- NONVACUOUS: PysparklingVerif.C07.uniqueId_injective
/-- `n = 3` partitions: element 2 of partition 1 has id 7 -/
example : 2 = 2 ∧ 1 = 1 := C07.uniqueId_injective 3 2 2 1 1 (by decide) (by decide) rfl

end C07

/-! ## C08 -/
section C08
open PysparklingVerif.TextIO PysparklingVerif.Save

-- NONVACUOUS: PysparklingVerif.C08.text_roundtrip
/-- three lines, one of them empty, one with a blank and a tab -/
example : splitlines (encodePart ["a".toList, [], "c d\te".toList]) = ["a".toList, [], "c d\te".toList] :=
  C08.text_roundtrip _ (by unfold C08.Clean; decide)

-- NONVACUOUS: PysparklingVerif.C08.part_names_sorted
/-- 9 < 10 (where unpadded names would sort the wrong way round) and the largest admissible index -/
example : strLe (partName 9 ".gz".toList) (partName 10 ".gz".toList) = true ∧
    strLe (partName 10 ".gz".toList) (partName 9 ".gz".toList) = false :=
  C08.part_names_sorted 9 10 ".gz".toList (by decide) (by decide)
example : (12345 : Nat) < 99999 ∧ (99999 : Nat) < 100000 := by decide

-- NONVACUOUS: PysparklingVerif.C08.compressed_parts_named
example : codecSuffix ("out".toList ++ ".tar.gz".toList) ≠ [] ∧
    getCodec (joinPath ("out".toList ++ ".tar.gz".toList) (partName 7 (codecSuffix ("out".toList ++ ".tar.gz".toList)))) = .gz :=
  C08.compressed_parts_named "out".toList 7 (".tar.gz".toList, .gz) (by decide)

-- NONVACUOUS: PysparklingVerif.C08.plain_parts_named
example : codecSuffix "data/out".toList = [] ∧ getCodec (joinPath "data/out".toList (partName 3 [])) = .base :=
  C08.plain_parts_named "data/out".toList 3 (by decide)

-- NONVACUOUS: PysparklingVerif.C08.save_read_roundtrip
/-- a file system that already holds an unrelated file and directory; three partitions (one empty, one holding an
empty string); `max_retries = 2`; a compressed target -/
def c08FS : FS := ⟨[("other/part-00000".toList, ⟨.base, "x\n".toList⟩)], ["tmp".toList]⟩
def c08Parts : List (List Str) := [["a".toList, "b c".toList], [], [[], "d".toList]]
example :
    (saveText c08FS "out.gz".toList c08Parts 2 (fun _ => false) (fun _ _ => false)).2 = .ok ∧
    readDir (saveText c08FS "out.gz".toList c08Parts 2 (fun _ => false) (fun _ _ => false)).1 "out.gz".toList = some c08Parts.flatten :=
  C08.save_read_roundtrip c08FS "out.gz".toList c08Parts 2 (by decide) (by decide) (by decide) (by decide)
    (by unfold C08.Clean; decide)

-- NONVACUOUS: PysparklingVerif.C08.fixed_chunks
example : fixedChunks 2 [[1, 2], [3, 4], [5, 6]].flatten 4 = [[1, 2], [3, 4], [5, 6]] :=
  C08.fixed_chunks 2 (by decide) [[1, 2], [3, 4], [5, 6]] (by decide) 4 (by decide)

-- NONVACUOUS: PysparklingVerif.C08.var_chunks
/-- the one-byte length prefix of `C08.pack1` / `C08.unpack1` (capacity `B = 256`); four records, among them an empty
one in the middle, one at the end, and the longest (5 bytes) -/
example : varChunks 1 C08.unpack1 (frame C08.pack1 [[1, 2, 3], [], [9, 8, 7, 6, 5], []]) 5 = [[1, 2, 3], [], [9, 8, 7, 6, 5], []] :=
  C08.var_chunks 1 (by decide) 256 C08.pack1 C08.unpack1 (fun _ _ => rfl)
    (by intro n h; simp [C08.unpack1, C08.pack1]; omega)
    [[1, 2, 3], [], [9, 8, 7, 6, 5], []] (by decide) 5 (by decide)
/-- a two-byte little-endian prefix (`struct` format `<H`, capacity `B = 65536`) -/
def c08Pack2 (n : Nat) : List UInt8 := [UInt8.ofNat (n % 256), UInt8.ofNat (n / 256)]
def c08Unpack2 (l : List UInt8) : Nat := (l.getD 0 0).toNat + 256 * (l.getD 1 0).toNat
example : varChunks 2 c08Unpack2 (frame c08Pack2 [[7], [], [1, 2, 3]]) 4 = [[7], [], [1, 2, 3]] :=
  C08.var_chunks 2 (by decide) 65536 c08Pack2 c08Unpack2 (fun _ _ => rfl)
    (by intro n h; simp [c08Unpack2, c08Pack2]; omega)
    [[7], [], [1, 2, 3]] (by decide) 4 (by decide)

end C08

/-! ## C09 -/
section C09
open PysparklingVerif.TextIO PysparklingVerif.Save

/-- a file system that already holds a saved directory `old` (one part file) and an empty directory `tmp` -/
def c09FS : FS := ⟨[("old/part-00000".toList, ⟨.base, "x\n".toList⟩)], ["tmp".toList]⟩
def c09Parts : List (List Str) := [["ab".toList, "c".toList], [], ["d".toList]]
/-- the very first write attempt fails -/
def c09W : Nat → Bool := fun k => k == 0
/-- the first computation of partition 1 fails -/
def c09C : Nat → Nat → Bool := fun i a => i == 1 && a == 0

-- NONVACUOUS: PysparklingVerif.C09.exists_refused_unchanged
/-- the target is a directory implied by a file below it; a non-trivial fault plan -/
example : saveText c09FS "old".toList c09Parts 2 c09W c09C = (c09FS, .alreadyExists) :=
  C09.exists_refused_unchanged c09FS "old".toList c09Parts 2 c09W c09C (by decide)

-- NONVACUOUS: PysparklingVerif.C09.marker_implies_complete
/-- three partitions, one failing write and one failing computation, both retried (`max_retries = 2`): the marker is
written -/
example : (saveText c09FS "out".toList c09Parts 2 c09W c09C).2 = .ok ∧
    ∀ i (hi : i < c09Parts.length),
      (saveText c09FS "out".toList c09Parts 2 c09W c09C).1.read (joinPath "out".toList (partName i (codecSuffix "out".toList))) =
        some ⟨getCodec (joinPath "out".toList (partName i (codecSuffix "out".toList))), encodePart c09Parts[i]⟩ :=
  C09.marker_implies_complete c09FS "out".toList c09Parts 2 c09W c09C (by decide) (by decide) (by decide)
    (by decide +kernel)

-- NONVACUOUS: PysparklingVerif.C09.failure_no_marker
/-- `max_retries = 1`: the failing first write is fatal -/
example : (saveText c09FS "out".toList c09Parts 1 c09W c09C).2 = .failed ∧
    (saveText c09FS "out".toList c09Parts 1 c09W c09C).1.read (joinPath "out".toList marker) = none :=
  C09.failure_no_marker c09FS "out".toList c09Parts 1 c09W c09C (by decide) (by decide +kernel)

-- NONVACUOUS: PysparklingVerif.C09.fault_free_ok
example : (saveText c09FS "out.gz".toList c09Parts 3 (fun _ => false) (fun _ _ => false)).2 = .ok :=
  C09.fault_free_ok c09FS "out.gz".toList c09Parts 3 (by decide) (by decide) (by decide)

-- NONVACUOUS: PysparklingVerif.C09.exhausted_partition_fails
/-- partition 1 of 3 can never be computed -/
example : (saveText c09FS "out".toList c09Parts 2 c09W (fun i _ => i == 1)).2 = .failed :=
  C09.exhausted_partition_fails c09FS "out".toList c09Parts 2 c09W (fun i _ => i == 1) (by decide) (by decide) 1
    (by decide) (fun _ => rfl)

-- NONVACUOUS: PysparklingVerif.C09.single_partition_plain
example :
    let r := saveText c09FS "out".toList [["ab".toList, "c".toList]] 2 (fun _ => false) (fun _ _ => false)
    r.2 = .ok ∧ r.1.read "out".toList = some ⟨getCodec "out".toList, encodePart ["ab".toList, "c".toList]⟩ ∧
      r.1.read (joinPath "out".toList marker) = none :=
  C09.single_partition_plain c09FS "out".toList ["ab".toList, "c".toList] 2 (by decide) (by decide)

-- NONVACUOUS: PysparklingVerif.C09.exists_refused_unchanged_torn
/-- the target is an existing empty directory -/
example : saveTextT c09FS "tmp".toList c09Parts 2 c09W c09W c09C = (c09FS, .alreadyExists) :=
  C09.exists_refused_unchanged_torn c09FS "tmp".toList c09Parts 2 c09W c09W c09C (by decide)

-- NONVACUOUS: PysparklingVerif.C09.marker_implies_complete_torn
/-- the first write fails AND is torn (half a part file stays behind); the retry overwrites it -/
example : ∀ i (hi : i < c09Parts.length),
    (saveTextT c09FS "out".toList c09Parts 2 c09W c09W c09C).1.read (joinPath "out".toList (partName i (codecSuffix "out".toList))) =
      some ⟨getCodec (joinPath "out".toList (partName i (codecSuffix "out".toList))), encodePart c09Parts[i]⟩ :=
  C09.marker_implies_complete_torn c09FS "out".toList c09Parts 2 c09W c09W c09C (by decide) (by decide) (by decide +kernel)

-- NONVACUOUS: PysparklingVerif.C09.ok_implies_marker_torn
example : ((saveTextT c09FS "out".toList c09Parts 2 c09W c09W c09C).1.read (joinPath "out".toList marker)).isSome :=
  C09.ok_implies_marker_torn c09FS "out".toList c09Parts 2 c09W c09W c09C (by decide) (by decide) (by decide +kernel)

-- NONVACUOUS: PysparklingVerif.C09.leftovers_block_later_saves
/-- `max_retries = 1`: the torn first write is fatal and leaves half a part file; a second save is refused -/
example : saveText (saveTextT c09FS "out".toList c09Parts 1 c09W c09W c09C).1 "out".toList [["z".toList]] 3 (fun _ => false) (fun _ _ => false) =
    ((saveTextT c09FS "out".toList c09Parts 1 c09W c09W c09C).1, .alreadyExists) :=
  C09.leftovers_block_later_saves c09FS "out".toList c09Parts [["z".toList]] 1 3 c09W c09W (fun _ => false) c09C (fun _ _ => false)
    (by decide +kernel)

end C09

/-! ## C10 -/
section C10
open PysparklingVerif.Stream

-- NONVACUOUS: PysparklingVerif.C10.queue_all_at_once
/-- three queued batches (one empty), a default batch, four polls -/
example : C10.pollN (3 + 1) ⟨[[1, 2], [], [3]], false, some [0]⟩ = [[1, 2], [], [3]].flatten :: List.replicate 3 ((some [0]).getD []) :=
  C10.queue_all_at_once [[1, 2], [], [3]] (by decide) (some [0]) 3

/-- a diamond with a window and a stateful stream on top: one source, two branches, their union, `window(3, 2)` of
the union, a running state of the union; every node has already processed ticks up to 3 -/
def c10Net : Net Nat :=
  ⟨[.src 0, .tr 0 (·.map (· + 1)), .tr 0 (·.filter (· % 2 == 0)), .tr2 1 2 (· ++ ·), .win 3 3 2, .fold 3 (· ++ ·)],
   List.replicate 6 ⟨3, [9], 3, [[8], [9]], 1, [7]⟩, [⟨[[1, 2], [3]], true, none⟩], [3]⟩

theorem c10_src_idx (i q : Nat) (h : c10Net.nodes[i]? = some (Node.src q)) : i = 0 ∧ q = 0 := by
  match i with
  | 0 => simp [c10Net] at h; exact ⟨rfl, h.symm⟩
  | 1 => simp [c10Net] at h
  | 2 => simp [c10Net] at h
  | 3 => simp [c10Net] at h
  | 4 => simp [c10Net] at h
  | 5 => simp [c10Net] at h
  | n + 6 => simp [c10Net] at h

theorem c10WF : C10.WF c10Net where
  lenSt := rfl
  lenPolls := rfl
  parents := by
    intro i h
    match i, h with
    | 0, _ => trivial
    | 1, _ => show 0 < 1; decide
    | 2, _ => show 0 < 2; decide
    | 3, _ => show 1 < 3 ∧ 2 < 3; decide
    | 4, _ => show 3 < 4 ∧ 0 < 2; decide
    | 5, _ => show 3 < 5; decide
    | n + 6, h => exact absurd h (by simp [c10Net])
  srcOk := by
    intro i q h
    rw [(c10_src_idx i q h).2]
    decide
  srcUnique := by
    intro i j q hi hj
    rw [(c10_src_idx i q hi).1, (c10_src_idx j q hj).1]

theorem c10Fresh : ∀ i, i < c10Net.nodes.length → (c10Net.getSt i).time < 5 := by decide

-- NONVACUOUS: PysparklingVerif.C10.step_guard
/-- node 3 (the union) is asked again for interval 3, which it has processed -/
example : step 3 4 c10Net 3 = c10Net := C10.step_guard 3 4 c10Net 3 (by decide)

-- NONVACUOUS: PysparklingVerif.C10.tick_each_node_once
example :
    (∀ i, i < c10Net.nodes.length → ((tick 5 c10Net).getSt i).time = 5 ∧ ((tick 5 c10Net).getSt i).evals = (c10Net.getSt i).evals + 1) ∧
    (∀ (i q : Nat), c10Net.nodes[i]? = some (Node.src q) → (tick 5 c10Net).polls.getD q 0 = c10Net.polls.getD q 0 + 1) ∧
    (tick 5 c10Net).nodes = c10Net.nodes :=
  C10.tick_each_node_once c10Net 5 c10WF c10Fresh

-- NONVACUOUS: PysparklingVerif.C10.tick_node_values
/-- instantiated at the union node 3 -/
example : ((tick 5 c10Net).getSt 3).rdd = ((tick 5 c10Net).getSt 1).rdd ++ ((tick 5 c10Net).getSt 2).rdd :=
  C10.tick_node_values c10Net 5 c10WF c10Fresh 3 (by decide)

-- (inner premises of C10.file_delivered_once: a file present before the start, and one first listed at poll 1)
example : "old" ∈ ["old"] ∧ "new" ∉ ["old"] ∧ "new" ∈ [["old"], ["old", "new"], ["new"]][1]! ∧
    (∀ j', j' < 1 → "new" ∉ [["old"], ["old", "new"], ["new"]][j']!) := by decide

end C10

/-! ## C11 -/
section C11
open PysparklingVerif.Stream

-- NONVACUOUS: PysparklingVerif.C11.window_emission
/-- `window(3, 2)` over five batches, at tick 4 (an emitting tick with a full window) and tick 3 (a silent one) -/
example : (windowRun 3 2 [[1], [2], [3], [4], [5]] ([], 0))[4 - 1]! =
    if 4 % 2 = 0 then (([[1], [2], [3], [4], [5]].take 4).drop (4 - 3)).flatten else [] :=
  C11.window_emission 3 2 (by decide) (by decide) [[1], [2], [3], [4], [5]] 4 (by decide) (by decide)
example : (windowRun 3 2 [[1], [2], [3], [4], [5]] ([], 0))[3 - 1]! =
    if 3 % 2 = 0 then (([[1], [2], [3], [4], [5]].take 3).drop (3 - 3)).flatten else [] :=
  C11.window_emission 3 2 (by decide) (by decide) [[1], [2], [3], [4], [5]] 3 (by decide) (by decide)

-- NONVACUOUS: PysparklingVerif.C11.count_by_window
example : ((windowRun 3 2 [[1, 1], [2], [], [4, 4, 4], [5]] ([], 0))[4 - 1]!).length =
    ((([[1, 1], [2], [], [4, 4, 4], [5]].take 4).drop (4 - 3)).map List.length).sum :=
  C11.count_by_window 3 2 (by decide) (by decide) [[1, 1], [2], [], [4, 4, 4], [5]] 4 (by decide) (by decide) (by decide)

-- NONVACUOUS: PysparklingVerif.C11.foldRun_is_fold
example : (foldRun (fun b m => m ++ b) [[1], [2, 3], [4]] [0])[2]! = ([[1], [2, 3], [4]].take (2 + 1)).foldl (fun m b => m ++ b) [0] :=
  C11.foldRun_is_fold (fun b m => m ++ b) [[1], [2, 3], [4]] [0] 2 (by decide)

end C11

/-! ## C12 -/
section C12
open PysparklingVerif.Sql

/-- `RowOk` from a bounded check (decidable on concrete rows) -/
theorem rowOk_of_check (cols : List Ty) (r : Row) (hl : r.length = cols.length)
    (h : ∀ i (hi : i < r.length), r[i] = .null ∨ tyOf r[i] = cols[i]?) : RowOk cols r :=
  ⟨hl, fun i v t hv ht => by
    obtain ⟨hi, rfl⟩ := List.getElem?_eq_some_iff.mp hv
    rw [← ht]; exact h i hi⟩

def c12Cols : List Ty := [.int, .int, .str]
/-- four rows with nulls in every column; rows 0 and 3 agree on the first two columns -/
def c12Rows : List Row :=
  [[.int 1, .int 10, .str "x"], [.int 2, .null, .str "y"], [.null, .int 0, .null], [.int 1, .int 10, .str "w"]]
theorem c12RowsOk : ∀ r ∈ c12Rows, RowOk c12Cols r := by
  intro r hr
  simp only [c12Rows, List.mem_cons, List.not_mem_nil, or_false] at hr
  rcases hr with rfl | rfl | rfl | rfl <;> exact rowOk_of_check _ _ rfl (by decide)

/-- `col0 + col1 * 2` (int) and `col0 < col1 AND col2 IS NOT NULL` (bool) -/
def c12Arith : Expr := .add (.col 0) (.mul (.col 1) (.lit (.int 2)))
def c12Cond : Expr := .and (.lt (.col 0) (.col 1)) (.isNotNull (.col 2))
theorem c12ArithTy : HasTy c12Cols c12Arith .int :=
  .arith Expr.add _ _ .int .int (by simp) (by simp) (by simp) (.col 0 .int rfl)
    (.arith Expr.mul _ _ .int .int (by simp) (by simp) (by simp) (.col 1 .int rfl) (.litInt 2))
theorem c12CondTy : HasTy c12Cols c12Cond .bool :=
  .and _ _ (.cmpNum Expr.lt _ _ .int .int (by simp) (by simp) (by simp) (.col 0 .int rfl) (.col 1 .int rfl))
    (.isNotNull _ .str (.col 2 .str rfl))

-- NONVACUOUS: PysparklingVerif.C12.eval_matches_reference
/-- a depth-3 arithmetic expression on a full row and on a row with a null operand -/
example : evalM [.int 1, .int 10, .str "x"] c12Arith = .ok (evalS [.int 1, .int 10, .str "x"] c12Arith) ∧
    (evalS [.int 1, .int 10, .str "x"] c12Arith = .null ∨ tyOf (evalS [.int 1, .int 10, .str "x"] c12Arith) = some .int) :=
  C12.eval_matches_reference c12Cols c12Arith .int _ c12ArithTy (c12RowsOk _ (by decide))
example : evalM [.int 2, .null, .str "y"] c12Cond = .ok (evalS [.int 2, .null, .str "y"] c12Cond) ∧
    (evalS [.int 2, .null, .str "y"] c12Cond = .null ∨ tyOf (evalS [.int 2, .null, .str "y"] c12Cond) = some .bool) :=
  C12.eval_matches_reference c12Cols c12Cond .bool _ c12CondTy (c12RowsOk _ (by decide))
/-- `col0 % 2` (int): a remainder, on a full row and on a row whose dividend is null -/
def c12Mod : Expr := .mod (.col 0) (.lit (.int 2))
theorem c12ModTy : HasTy c12Cols c12Mod .int :=
  .arith Expr.mod _ _ .int .int (by simp) (by simp) (by simp) (.col 0 .int rfl) (.litInt 2)
example : evalM [.int 1, .int 10, .str "x"] c12Mod = .ok (evalS [.int 1, .int 10, .str "x"] c12Mod) ∧
    (evalS [.int 1, .int 10, .str "x"] c12Mod = .null ∨ tyOf (evalS [.int 1, .int 10, .str "x"] c12Mod) = some .int) :=
  C12.eval_matches_reference c12Cols c12Mod .int _ c12ModTy (c12RowsOk _ (by decide))
example : evalM [.null, .int 0, .null] c12Mod = .ok (evalS [.null, .int 0, .null] c12Mod) ∧
    (evalS [.null, .int 0, .null] c12Mod = .null ∨ tyOf (evalS [.null, .int 0, .null] c12Mod) = some .int) :=
  C12.eval_matches_reference c12Cols c12Mod .int _ c12ModTy (c12RowsOk _ (by decide))

-- NONVACUOUS: PysparklingVerif.C12.remainder_double_spec
/-- `-7.5 % 2`: the divisor is not zero -/
example : arithM .mod (.dbl (-15/2)) (.dbl 2) = .ok (.dbl (ratRem (-15/2) 2)) ∧
    (0 ≤ (-15/2 : Rat) → 0 ≤ ratRem (-15/2) 2) ∧ ((-15/2 : Rat) ≤ 0 → ratRem (-15/2) 2 ≤ 0) ∧
    (ratRem (-15/2) 2 < (if (0 : Rat) ≤ 2 then 2 else -2)) ∧ ((if (0 : Rat) ≤ 2 then -2 else 2) < ratRem (-15/2) 2) :=
  C12.remainder_double_spec (-15/2) 2 (by decide +kernel)

-- NONVACUOUS: PysparklingVerif.C12.filter_keeps_true
example : filterM c12Cond c12Rows = .ok (filterS c12Cond c12Rows) :=
  C12.filter_keeps_true c12Cols c12Cond c12Rows c12CondTy c12RowsOk
/-- (the filter is not trivial on these rows: it keeps two of the four) -/
example : (filterS c12Cond c12Rows).length = 2 := by decide +kernel

/-- `ORDER BY col0 ASC NULLS FIRST, col1 DESC NULLS LAST` -/
def c12Keys : List SortKey := [⟨.col 0, true, true⟩, ⟨.col 1, false, false⟩]
theorem c12KeysOk : ∀ k ∈ c12Keys, C12.KeyOrderOk k c12Rows := by
  unfold C12.KeyOrderOk
  decide +kernel

theorem c12KeysEvalOk : ∀ k ∈ c12Keys, C12.KeyEvalOk k c12Rows := by
  unfold C12.KeyEvalOk
  decide +kernel

-- NONVACUOUS: PysparklingVerif.C12.sort_perm_sorted
example : (sortM c12Keys c12Rows).Perm c12Rows ∧ (sortM c12Keys c12Rows).Pairwise (fun a b => lexLe c12Keys a b = true) :=
  C12.sort_perm_sorted c12Keys c12Rows c12KeysOk c12KeysEvalOk

-- NONVACUOUS: PysparklingVerif.C12.sort_stable
/-- rows 0 and 3 tie on both keys -/
example : [[.int 1, .int 10, .str "x"], [.int 1, .int 10, .str "w"]].Sublist (sortM c12Keys c12Rows) :=
  C12.sort_stable c12Keys c12Rows c12KeysOk c12KeysEvalOk [.int 1, .int 10, .str "x"] [.int 1, .int 10, .str "w"]
    (by decide +kernel) (by decide +kernel)

-- NONVACUOUS: PysparklingVerif.C12.union_positional
/-- the right side has the same three columns in another order -/
example :
    let an := ["a", "b", "c"]; let bn := ["c", "a", "b"]
    let b : List Row := [[.str "z", .int 7, .int 8], [.null, .int 9, .null]]
    unionM c12Rows b = c12Rows ++ b ∧ (unionByNameM an bn c12Rows b).take c12Rows.length = c12Rows ∧
    ∀ r ∈ b, ∀ n ∈ an, ∃ r' ∈ unionByNameM an bn c12Rows b, r'.getD (an.idxOf n) .null = r.getD (bn.idxOf n) .null :=
  C12.union_positional c12Rows [[.str "z", .int 7, .int 8], [.null, .int 9, .null]] ["a", "b", "c"] ["c", "a", "b"]
    (by decide) (by decide) (by decide)

-- NONVACUOUS: PysparklingVerif.C12.withColumn_spec
/-- replacing the existing column "b" by `col0 + col1 * 2`; the expression evaluates on every row because it is
well typed (`eval_matches_reference`) -/
example : ∃ names' rows', withColumnM ["a", "b", "c"] "b" c12Arith c12Rows = .ok (names', rows') ∧
      names' = (if ["a", "b", "c"].contains "b" then ["a", "b", "c"] else ["a", "b", "c"] ++ ["b"]) ∧ rows'.length = c12Rows.length ∧
      ∀ i (h : i < c12Rows.length) (h' : i < rows'.length),
        evalM c12Rows[i] c12Arith = .ok ((rows'[i]).getD (names'.idxOf "b") .null) ∧
        ∀ n ∈ ["a", "b", "c"], n ≠ "b" → (rows'[i]).getD (names'.idxOf n) .null = (c12Rows[i]).getD (["a", "b", "c"].idxOf n) .null :=
  C12.withColumn_spec ["a", "b", "c"] "b" c12Arith c12Rows (by decide) (by decide)
    (fun r hr => ⟨_, (C12.eval_matches_reference c12Cols c12Arith .int r c12ArithTy (c12RowsOk r hr)).1⟩)

-- NONVACUOUS: PysparklingVerif.C12.withColumn_positional
/-- the frame `SELECT a, a, c` (names not unique): replacing "c" by `col0 + col1 * 2` -/
example := C12.withColumn_positional ["a", "a", "c"] "c" c12Arith c12Rows (by decide)
    (fun r hr => ⟨_, (C12.eval_matches_reference c12Cols c12Arith .int r c12ArithTy (c12RowsOk r hr)).1⟩)

end C12

/-! ## C13 -/
section C13
open PysparklingVerif.Rdd PysparklingVerif.Sql PysparklingVerif.Join

/-- left table (k, a): key 1 twice, key 2 unmatched, a null key; right table (k, b): key 1 twice, key 3 unmatched -/
def c13L : Parts Row := [[[.int 1, .str "x"], [.int 2, .str "y"]], [], [[.int 1, .str "z"], [.null, .str "n"]]]
def c13L' : Parts Row := [[[.int 1, .str "x"]], [[.int 2, .str "y"], [.int 1, .str "z"], [.null, .str "n"]]]
def c13R : Parts Row := [[[.int 1, .int 10]], [[.int 1, .int 11], [.int 3, .int 30]]]
def c13R' : Parts Row := [[[.int 1, .int 10], [.int 1, .int 11], [.int 3, .int 30]]]

-- NONVACUOUS: PysparklingVerif.C13.dfjoin_partition_independent
/-- two different partitionings of the same two tables, full outer join -/
example : (dfJoin .full ["k", "a"] ["k", "b"] ["k"] c13L c13R).Perm (dfJoin .full ["k", "a"] ["k", "b"] ["k"] c13L' c13R') :=
  C13.dfjoin_partition_independent .full ["k", "a"] ["k", "b"] ["k"] c13L c13L' c13R c13R' (by decide) (by decide) (by decide)

-- NONVACUOUS: PysparklingVerif.C13.dfjoin_columns
example :
    joinNames .left ["k", "a"] ["k", "b"] ["k"] =
      ["k"] ++ (["k", "a"].filter fun n => !["k"].contains n) ++
        (if How.left = .semi ∨ How.left = .anti then [] else ["k", "b"].filter fun n => !["k"].contains n) ∧
    ∀ row ∈ dfJoin .left ["k", "a"] ["k", "b"] ["k"] c13L c13R, row.length = (joinNames .left ["k", "a"] ["k", "b"] ["k"]).length :=
  C13.dfjoin_columns .left ["k", "a"] ["k", "b"] ["k"] c13L c13R (by decide) (by decide) (by decide)

-- NONVACUOUS: PysparklingVerif.C13.dfjoin_perm
/-- the join column "k" is on both sides -/
example : (dfJoin .full ["k", "a"] ["k", "b"] ["k"] c13L c13R).Perm (specJoin .full ["k", "a"] ["k", "b"] ["k"] (flat c13L) (flat c13R)) :=
  C13.dfjoin_perm .full ["k", "a"] ["k", "b"] ["k"] c13L c13R (by decide)

end C13

/-! ## C14 -/
section C14
open PysparklingVerif.Sql PysparklingVerif.Agg

/-- `RowsTyped` / `PivotRowsTyped` from bounded checks (decidable on concrete rows) -/
theorem rowsTyped_of_check {κ : Type} (ts : List Ty) (rows : List (κ × List SV))
    (h : ∀ r ∈ rows, r.2.length = ts.length ∧ ∀ j (hj : j < r.2.length), r.2[j] = .null ∨ tyOf r.2[j] = ts[j]?) :
    C14.RowsTyped ts rows := fun r hr =>
  ⟨(h r hr).1, fun j t v ht hv => by
    obtain ⟨hj, rfl⟩ := List.getElem?_eq_some_iff.mp hv
    rw [← ht]; exact (h r hr).2 j hj⟩
theorem pivotRowsTyped_of_check {κ : Type} (ts : List Ty) (rows : List (κ × SV × List SV))
    (h : ∀ r ∈ rows, r.2.2.length = ts.length ∧ ∀ j (hj : j < r.2.2.length), r.2.2[j] = .null ∨ tyOf r.2.2[j] = ts[j]?) :
    C14.PivotRowsTyped ts rows := fun r hr =>
  ⟨(h r hr).1, fun j t v ht hv => by
    obtain ⟨hj, rfl⟩ := List.getElem?_eq_some_iff.mp hv
    rw [← ht]; exact (h r hr).2 j hj⟩

-- NONVACUOUS: PysparklingVerif.C14.moments_are_central
/-- an int column with a null in the middle -/
example :
    let s := summarize [.int 1, .null, .int 3, .int 8]
    (s.n : Int) = (nums [.int 1, .null, .int 3, .int 8]).length ∧ s.sum = rsum (nums [.int 1, .null, .int 3, .int 8]) ∧
    s.m2 = central 2 (nums [.int 1, .null, .int 3, .int 8]) ∧ s.m3 = central 3 (nums [.int 1, .null, .int 3, .int 8]) ∧
    s.m4 = central 4 (nums [.int 1, .null, .int 3, .int 8]) :=
  C14.moments_are_central [.int 1, .null, .int 3, .int 8] .int (Or.inl rfl) (by unfold C14.Typed; decide)

-- NONVACUOUS: PysparklingVerif.C14.merge_is_append
/-- two non-empty halves, the second starting with a null -/
example : (summarize [.int 1, .null, .int 3]).merge (summarize [.null, .int 8, .int 2]) = summarize ([.int 1, .null, .int 3] ++ [.null, .int 8, .int 2]) :=
  C14.merge_is_append [.int 1, .null, .int 3] [.null, .int 8, .int 2] .int (by unfold C14.Typed; decide)
/-- a string column -/
example : (summarize [.str "b", .null]).merge (summarize [.str "a"]) = summarize ([.str "b", .null] ++ [.str "a"]) :=
  C14.merge_is_append [.str "b", .null] [.str "a"] .str (by unfold C14.Typed; decide)

-- NONVACUOUS: PysparklingVerif.C14.projections
example : (summarize [.null, .int 5, .int 1, .null, .int 3]).rows = [SV.null, .int 5, .int 1, .null, .int 3].length :=
  (C14.projections [.null, .int 5, .int 1, .null, .int 3] .int (by unfold C14.Typed; decide)).1

/-- rows (key, [int column, string column]) in three partitions (one empty); key 1 occurs in two partitions, a null
key, nulls in both columns -/
def c14Parts : List (List (List SV × List SV)) :=
  [[([.int 1, .str "A"], [.int 2, .str "p"]), ([.int 2, .str "A"], [.null, .str "q"])], [],
   [([.int 1, .str "A"], [.int 4, .null]), ([.null, .str "B"], [.int 7, .str "r"])]]
theorem c14Typed : C14.RowsTyped [.int, .str] c14Parts.flatten := rowsTyped_of_check _ _ (by decide)

-- NONVACUOUS: PysparklingVerif.C14.group_rows
example : ((aggregateSpec [Ty.int, Ty.str].length c14Parts.flatten).map (·.1)).Nodup :=
  (C14.group_rows [.int, .str] c14Parts.flatten c14Typed).1

-- NONVACUOUS: PysparklingVerif.C14.aggregate_partition_independent
example : aggregate [Ty.int, Ty.str].length c14Parts = aggregateSpec [Ty.int, Ty.str].length c14Parts.flatten :=
  C14.aggregate_partition_independent [.int, .str] c14Parts c14Typed

-- NONVACUOUS: PysparklingVerif.C14.subtotals_are_groupby_subset
/-- rollup and cube over the two-column key -/
example : ((aggregateSub rollupKeys [Ty.int, Ty.str].length c14Parts).map (·.1)).Nodup :=
  (C14.subtotals_are_groupby_subset rollupKeys (Or.inr (Or.inl rfl)) [.int, .str] c14Parts c14Typed).1
example : ((aggregateSub cubeKeys [Ty.int, Ty.str].length c14Parts).map (·.1)).Nodup :=
  (C14.subtotals_are_groupby_subset cubeKeys (Or.inr (Or.inr rfl)) [.int, .str] c14Parts c14Typed).1

-- NONVACUOUS: PysparklingVerif.C14.pivot_cells
/-- two pivot values; rows with the pivot values "x", "y", an unlisted one and null; two partitions -/
def c14Pivot : List (List (List SV × SV × List SV)) :=
  [[([.int 1], .str "y", [.int 5]), ([.int 2], .null, [.int 7])], [([.int 1], .str "x", [.null]), ([.int 1], .str "w", [.int 9])]]
example : aggregatePivot [Ty.int].length [.str "x", .str "y"] c14Pivot = aggregatePivotSpec [Ty.int].length [.str "x", .str "y"] c14Pivot.flatten :=
  (C14.pivot_cells [.int] [.str "x", .str "y"] (by decide) c14Pivot (pivotRowsTyped_of_check _ _ (by decide))).1

end C14

/-- an `Except` computation that is checked (by evaluation) not to fail has a result -/
theorem ok_of_isSome {ε α : Type} {x : Except ε α} (h : x.toOption.isSome = true) : ∃ v, x = .ok v := by
  cases x with
  | ok v => exact ⟨v, rfl⟩
  | error e => simp [Except.toOption] at h

/-! ## C15 -/
section C15
open PysparklingVerif.Sql PysparklingVerif.Join PysparklingVerif.Agg PysparklingVerif.Frame

theorem c15DemoOk : C15.demo.Consistent := by decide +kernel

-- NONVACUOUS: PysparklingVerif.C15.apply_consistent
/-- a left self-join of the 3-row demo frame on "k" (duplicate column names across the sides) succeeds, and so
does a rollup aggregation with a generated and an aliased name -/
example : ∃ d', apply C15.demo (.join .left ["k"] C15.demo) = .ok d' ∧ d'.Consistent := by
  obtain ⟨d', h⟩ := ok_of_isSome (x := apply C15.demo (.join .left ["k"] C15.demo)) (by decide +kernel)
  exact ⟨d', h, C15.apply_consistent C15.demo d' (.join .left ["k"] C15.demo) c15DemoOk c15DemoOk h⟩
example : ∃ d', apply C15.demo (.agg .rollup ["k"] [⟨.sum, "v", none⟩, ⟨.countStar, "", some "n"⟩]) = .ok d' ∧ d'.Consistent := by
  obtain ⟨d', h⟩ := ok_of_isSome (x := apply C15.demo (.agg .rollup ["k"] [⟨.sum, "v", none⟩, ⟨.countStar, "", some "n"⟩]))
    (by decide +kernel)
  exact ⟨d', h, C15.apply_consistent C15.demo d' (.agg .rollup ["k"] [⟨.sum, "v", none⟩, ⟨.countStar, "", some "n"⟩]) c15DemoOk trivial h⟩

-- NONVACUOUS: PysparklingVerif.C15.run_consistent
/-- a six-operation chain: self-join, rename onto an existing name, filter, withColumn, sort, limit -/
def c15Ops : List Op :=
  [.join .inner ["k"] C15.demo, .rename "v" "s", .filter (.isNotNull (.col 0)), .withColumn "w" (.add (.col 0) (.lit (.int 1))),
   .sort [("k", false)], .limit 3]
example : ∃ d', run C15.demo c15Ops = .ok d' ∧ d'.Consistent := by
  obtain ⟨d', h⟩ := ok_of_isSome (x := run C15.demo c15Ops) (by decide +kernel)
  refine ⟨d', h, C15.run_consistent c15Ops C15.demo d' c15DemoOk ?_ h⟩
  intro op hop
  simp only [c15Ops, List.mem_cons, List.not_mem_nil, or_false] at hop
  rcases hop with rfl | rfl | rfl | rfl | rfl | rfl
  · exact c15DemoOk
  all_goals trivial

-- NONVACUOUS: PysparklingVerif.C15.schema_is_static
/-- two frames with the same names and different rows; a projection with '*', a duplicate and a generated name -/
example : opNames C15.demo (.select [.star, .col "k", .expr none (.add (.col 0) (.col 2))]) =
    opNames ⟨["k", "s", "v"], [[.int 9, .null, .null]]⟩ (.select [.star, .col "k", .expr none (.add (.col 0) (.col 2))]) :=
  C15.schema_is_static C15.demo ⟨["k", "s", "v"], [[.int 9, .null, .null]]⟩ _ trivial rfl

-- NONVACUOUS: PysparklingVerif.C15.row_only_ops
example : ∃ d', apply C15.demo (.sort [("k", false), ("s", true)]) = .ok d' ∧
    d'.names = C15.demo.names ∧ (∀ r ∈ d'.rows, r ∈ C15.demo.rows) ∧ d'.rows.length ≤ C15.demo.rows.length := by
  obtain ⟨d', h⟩ := ok_of_isSome (x := apply C15.demo (.sort [("k", false), ("s", true)])) (by decide +kernel)
  exact ⟨d', h, C15.row_only_ops C15.demo d' _ trivial h⟩

-- NONVACUOUS: PysparklingVerif.C15.joinOn_rows_width
/-- a full outer join on the condition `k = k2`: one matching pair, one unmatched left row, one unmatched right row -/
def c15L : List Row := [[.int 1, .str "x"], [.int 2, .str "y"]]
def c15R : List Row := [[.int 1, .dbl 10], [.int 4, .dbl 40]]
def c15Cond : Expr := .eq (.col 0) (.col 2)
example : joinOnRows .full c15Cond 2 2 c15L c15R =
      .ok [[.int 1, .str "x", .int 1, .dbl 10], [.int 2, .str "y", .null, .null], [.null, .null, .int 4, .dbl 40]] ∧
    ∀ r ∈ ([[.int 1, .str "x", .int 1, .dbl 10], [.int 2, .str "y", .null, .null], [.null, .null, .int 4, .dbl 40]] : List Row),
      r.length = (joinOnNames .full ["k", "v"] ["k2", "w"]).length :=
  ⟨by decide +kernel,
   C15.joinOn_rows_width .full c15Cond ["k", "v"] ["k2", "w"] c15L c15R _ (by decide +kernel) (by decide +kernel)
    (by decide +kernel)⟩

-- NONVACUOUS: PysparklingVerif.C15.joinOn_semi_anti_partition
/-- the same data: the semi join keeps the first left row, the anti join the second -/
example : ([[.int 1, .str "x"]] : List Row).Sublist c15L ∧ ([[.int 2, .str "y"]] : List Row).Sublist c15L ∧
    ([[.int 1, .str "x"]] : List Row).length + ([[.int 2, .str "y"]] : List Row).length = c15L.length :=
  C15.joinOn_semi_anti_partition c15Cond 2 2 c15L c15R [[.int 1, .str "x"]] [[.int 2, .str "y"]]
    (by decide +kernel) (by decide +kernel)

-- NONVACUOUS: PysparklingVerif.C15.joinOn_is_nested_loop
/-- the same full outer join: its rows are the nested-loop reference -/
example : ([[.int 1, .str "x", .int 1, .dbl 10], [.int 2, .str "y", .null, .null], [.null, .null, .int 4, .dbl 40]] : List Row) =
    C15.joinOnSpec .full c15Cond 2 2 c15L c15R :=
  C15.joinOn_is_nested_loop .full c15Cond 2 2 c15L c15R _ (by decide +kernel)

-- (inner premises of C15.sources_consistent: a successful createDataFrame, a positive step)
example : (create ["a", "b"] [[.int 1, .null], [.int 2, .str "x"]]).toOption.isSome = true ∧ 0 < 3 := by decide +kernel

end C15

/-! ## C16 -/
section C16
open PysparklingVerif.Rdd PysparklingVerif.Sample

-- NONVACUOUS: PysparklingVerif.C16.bernoulli_zero_one
/-- three elements, four draws in `[0, 1)` (0 included) -/
example : bernoulli 0 [1/4, 0, 3/4, 1/2] ["a", "b", "c"] = [] ∧ bernoulli 1 [1/4, 0, 3/4, 1/2] ["a", "b", "c"] = ["a", "b", "c"] :=
  C16.bernoulli_zero_one [1/4, 0, 3/4, 1/2] ["a", "b", "c"] (by decide +kernel) (by decide +kernel) (by decide)

-- NONVACUOUS: PysparklingVerif.C16.sample_seed_deterministic
/-- the second of three partitions with its own draw stream -/
example : (sampleParts (1/2) [[1/4], [3/4, 0], [1/8]] [["a"], ["b", "c"], ["d"]])[1]? = some (bernoulli (1/2) [3/4, 0] ["b", "c"]) :=
  C16.sample_seed_deterministic (1/2) [[1/4], [3/4, 0], [1/8]] [["a"], ["b", "c"], ["d"]] 1 (by decide) (by decide)

-- NONVACUOUS: PysparklingVerif.C16.perkey_absent
/-- key 1 has fraction 1/2, key 2 fraction 0, key 3 no entry -/
example :
    let fr : Nat → Option Rat := fun k => if k = 1 then some (1/2) else if k = 2 then some 0 else none
    (bernoulliByKey fr [1/4, 0, 0, 3/4] [(1, "a"), (2, "b"), (3, "c"), (1, "d")]).Sublist [(1, "a"), (2, "b"), (3, "c"), (1, "d")] ∧
    ∀ e ∈ bernoulliByKey fr [1/4, 0, 0, 3/4] [(1, "a"), (2, "b"), (3, "c"), (1, "d")], ∃ q, fr e.1 = some q ∧ 0 < q :=
  C16.perkey_absent _ [1/4, 0, 0, 3/4] [(1, "a"), (2, "b"), (3, "c"), (1, "d")] (by decide +kernel)

-- NONVACUOUS: PysparklingVerif.C16.randomSplit_partition
/-- three splits with boundaries 0 ≤ 1/4 ≤ 1/2 ≤ 1, four elements, draws on and between the boundaries -/
example :
    (∀ s ∈ randomSplit [0, 1/4, 1/2, 1] [1/4, 3/4, 0, 1/2] ["a", "b", "c", "d"], s.Sublist ["a", "b", "c", "d"]) ∧
    ((randomSplit [0, 1/4, 1/2, 1] [1/4, 3/4, 0, 1/2] ["a", "b", "c", "d"]).map List.length).sum = ["a", "b", "c", "d"].length ∧
    (randomSplit [0, 1/4, 1/2, 1] [1/4, 3/4, 0, 1/2] ["a", "b", "c", "d"]).flatten.Perm ["a", "b", "c", "d"] :=
  C16.randomSplit_partition [0, 1/4, 1/2, 1] [1/4, 3/4, 0, 1/2] ["a", "b", "c", "d"] rfl (by decide +kernel)
    (fun r hr =>
      have H : ∀ r ∈ ([1/4, 3/4, 0, 1/2] : List Rat), 0 ≤ r ∧ r < 1 := by decide +kernel
      ⟨(H r hr).1, 1, rfl, (H r hr).2⟩)
    (by decide)

-- NONVACUOUS: PysparklingVerif.C16.takeSample_noRepl_small
/-- `takeSample(False, 5)` of a 4-element dataset in three partitions, shuffle `[2, 0, 3, 1]` -/
example : ∃ r, takeSample false 5 [["a"], ["b", "c"], ["d"]] [2, 0, 3, 1] [] (fun _ => []) = some r ∧ r.Perm (flat [["a"], ["b", "c"], ["d"]]) :=
  C16.takeSample_noRepl_small 5 [["a"], ["b", "c"], ["d"]] [2, 0, 3, 1] [] (fun _ => []) (by decide)
    (by unfold C16.IsPerm; decide)

-- NONVACUOUS: PysparklingVerif.C16.takeSample_noRepl_large
/-- `takeSample(False, 2)` of the same dataset, shuffle `[1, 0]` -/
example : ["b", "a"].length = 2 ∧ ["b", "a"].Perm ((flat [["a"], ["b", "c"], ["d"]]).take 2) ∧
    ∃ l : List String, l.Perm ["b", "a"] ∧ l.Sublist (flat [["a"], ["b", "c"], ["d"]]) :=
  C16.takeSample_noRepl_large 2 [["a"], ["b", "c"], ["d"]] [1, 0] [] (fun _ => []) (by decide) (by decide)
    (by unfold C16.IsPerm; decide) ["b", "a"] (by decide)

-- NONVACUOUS: PysparklingVerif.C16.takeSample_repl
/-- `takeSample(True, 3)`: the first oversampling round is too short, the second (with a repeated element) suffices; the
final shuffle reverses -/
example : ["d", "b", "b"].length = 3 ∧ ∀ y ∈ ["d", "b", "b"], y ∈ flat [["a"], ["b", "c"], ["d"]] :=
  C16.takeSample_repl 3 [["a"], ["b", "c"], ["d"]] [] [["c", "c"], ["a", "b", "b", "d"]] (fun s => (List.range s.length).reverse)
    (by decide) (by decide) (by unfold C16.IsPerm; decide) ["d", "b", "b"] (by decide)

end C16

/-! ## C17 -/
section C17
open PysparklingVerif.Stats

/-- the summaries of `[1, 2, 4]` and of `[3, 5]`, written out (count, mean, Σ squared deviations, max, min) -/
def c17A : SC := ⟨3, 7/3, 14/3, some 4, some 1⟩
def c17B : SC := ⟨2, 4, 2, some 5, some 3⟩
theorem c17RepA : C17.Rep c17A [1, 2, 4] := by unfold C17.Rep; decide +kernel
theorem c17RepB : C17.Rep c17B [3, 5] := by unfold C17.Rep; decide +kernel

-- NONVACUOUS: PysparklingVerif.C17.add_rep
example : C17.Rep (c17A.add 10) ([1, 2, 4] ++ [10]) := C17.add_rep c17A [1, 2, 4] 10 c17RepA

-- NONVACUOUS: PysparklingVerif.C17.merge_is_spec
example : C17.Rep (c17A.merge c17B) ([1, 2, 4] ++ [3, 5]) := C17.merge_is_spec c17A c17B [1, 2, 4] [3, 5] c17RepA c17RepB

-- NONVACUOUS: PysparklingVerif.C17.self_merge_doubles
example : C17.Rep c17A.selfMerge ([1, 2, 4] ++ [1, 2, 4]) := C17.self_merge_doubles c17A [1, 2, 4] c17RepA

-- NONVACUOUS: PysparklingVerif.C17.finishers
example : c17A.count = 3 ∧ c17A.sum = lsum [1, 2, 4] ∧ c17A.mean = mean [1, 2, 4] :=
  let h := C17.finishers c17A [1, 2, 4] c17RepA
  ⟨h.1, h.2.1, h.2.2.1⟩
/-- its inner premises `xs ≠ []` and `2 ≤ xs.length` hold for this list -/
example : c17A.variance = some (ssd [1, 2, 4] / ([1, 2, 4] : List Rat).length) ∧
    c17A.sampleVariance = some (ssd [1, 2, 4] / ((([1, 2, 4] : List Rat).length : Rat) - 1)) :=
  let h := C17.finishers c17A [1, 2, 4] c17RepA
  ⟨h.2.2.2.1 (by simp), h.2.2.2.2.1 (by decide)⟩

-- NONVACUOUS: PysparklingVerif.C17.empty_summary
/-- the hypothesis says the dataset is empty (the case the theorem is about); the layout is not: three empty
partitions -/
example : (stats [[], [], []]).count = 0 ∧ (stats [[], [], []]).variance = none ∧ (stats [[], [], []]).sampleVariance = none :=
  C17.empty_summary [[], [], []] rfl

/-- the covariance summaries of `[(1,2), (2,1), (4,6)]` and `[(3,3), (5,7)]`, written out -/
def c17C : Cov := ⟨3, 7/3, 3, 7, 14/3, 14⟩
def c17D : Cov := ⟨2, 4, 5, 4, 2, 8⟩
theorem c17RepC : C17.CovRep c17C [(1, 2), (2, 1), (4, 6)] := by unfold C17.CovRep; decide +kernel
theorem c17RepD : C17.CovRep c17D [(3, 3), (5, 7)] := by unfold C17.CovRep; decide +kernel

-- NONVACUOUS: PysparklingVerif.C17.cov_add_rep
example : C17.CovRep (c17C.add 0 5) ([(1, 2), (2, 1), (4, 6)] ++ [(0, 5)]) := C17.cov_add_rep c17C _ 0 5 c17RepC

-- NONVACUOUS: PysparklingVerif.C17.cov_merge_is_spec
example : C17.CovRep (c17C.merge c17D) ([(1, 2), (2, 1), (4, 6)] ++ [(3, 3), (5, 7)]) :=
  C17.cov_merge_is_spec c17C c17D _ _ c17RepC c17RepD

-- NONVACUOUS: PysparklingVerif.C17.cov_finishers
example : c17C.covarSamp = some (scp [(1, 2), (2, 1), (4, 6)] / ((([(1, 2), (2, 1), (4, 6)] : List (Rat × Rat)).length : Rat) - 1)) :=
  (C17.cov_finishers c17C [(1, 2), (2, 1), (4, 6)] c17RepC).1 (by decide)

-- NONVACUOUS: PysparklingVerif.C17.merge_equal_means
/-- two partial summaries of a column that is constantly 1/10 (three rows and one row) -/
example := C17.merge_equal_means (Stats.cov [[(1/10, 1), (1/10, 2), (1/10, 4)]]) (Stats.cov [[(1/10, 3)]]) (by decide +kernel)

-- NONVACUOUS: PysparklingVerif.C17.corr_is_pearson_or_nan
example : c17C.corrSq = if ssd ([(1, 2), (2, 1), (4, 6)].map (·.1)) * ssd ([(1, 2), (2, 1), (4, 6)].map (·.2)) = 0 then none
    else some (scp [(1, 2), (2, 1), (4, 6)] * scp [(1, 2), (2, 1), (4, 6)] /
      (ssd ([(1, 2), (2, 1), (4, 6)].map (·.1)) * ssd ([(1, 2), (2, 1), (4, 6)].map (·.2)))) :=
  (C17.corr_is_pearson_or_nan c17C [(1, 2), (2, 1), (4, 6)] c17RepC).1

end C17

/-! ## C18 -/
section C18
open PysparklingVerif.Cast

-- NONVACUOUS: PysparklingVerif.C18.cast_float_wraps
/-- 70000.5 = 140001 / 2 cast to a short -/
example : castFloatTo .short 140001 2 = wrap 16 (Int.tdiv 140001 2) := C18.cast_float_wraps .short 140001 2 (by decide)

-- NONVACUOUS: PysparklingVerif.C18.cast_in_range_id
/-- both end points of the short range, and a long -/
example : castIntTo .short (-32768) = -32768 := C18.cast_in_range_id .short (-32768) (by decide)
example : castIntTo .short 32767 = 32767 := C18.cast_in_range_id .short 32767 (by decide)
example : castIntTo .long 1234567890123 = 1234567890123 := C18.cast_in_range_id .long 1234567890123 (by decide)

-- NONVACUOUS: PysparklingVerif.C18.int_string_roundtrip
example : castStrTo .byte (renderInt (-128)) = some (some (-128)) := C18.int_string_roundtrip .byte (-128) (by decide)
example : castStrTo .int (renderInt 2147483647) = some (some 2147483647) := C18.int_string_roundtrip .int 2147483647 (by decide)

-- NONVACUOUS: PysparklingVerif.C18.string_out_of_range_null
/-- one below the minimum and one above the maximum of a byte -/
example : castStrTo .byte (renderInt (-129)) = some none := C18.string_out_of_range_null .byte (-129) (by decide)
example : castStrTo .byte (renderInt 128) = some none := C18.string_out_of_range_null .byte 128 (by decide)

-- NONVACUOUS: PysparklingVerif.C18.bool_other_null
example : castStrBool "Yes".toList = none := C18.bool_other_null "Yes".toList (by decide) (by decide)
example : castStrBool " true".toList = none := C18.bool_other_null " true".toList (by decide) (by decide)

-- NONVACUOUS: PysparklingVerif.C18.cast_null_is_null
example : castNull .string .date = some none := C18.cast_null_is_null .string .date (by decide) (by decide)
/-- a null array of longs cast to an array of strings; a null string cast to binary -/
example : castNull .arrayL .arrayS = some none := C18.cast_null_is_null .arrayL .arrayS (by decide) (by decide)
example : castNull .string .binary = some none := C18.cast_null_is_null .string .binary (by decide) (by decide)

-- NONVACUOUS: PysparklingVerif.C18.cast_null_accepted
example : castable .mapL .mapS = true := C18.cast_null_accepted .mapL .mapS (by decide)
/-- (and a refused pair, so `castable` is not constantly true) -/
example : castable .int .arrayL = false := by decide

-- NONVACUOUS: PysparklingVerif.C18.date_string_forms
/-- year "2020", month "2", day "29", followed by a time part: a leap day -/
example :
    castStrDate ("2020".toList ++ " 12:30:00".toList) = (if validDate 2020 1 1 then some ((2020 : Int), 1, 1) else none) ∧
    castStrDate ("2020".toList ++ '-' :: "2".toList ++ " 12:30:00".toList) = (if validDate 2020 2 1 then some ((2020 : Int), (2 : Int), 1) else none) ∧
    castStrDate ("2020".toList ++ '-' :: "2".toList ++ '-' :: "29".toList ++ " 12:30:00".toList) =
      (if validDate 2020 2 29 then some ((2020 : Int), (2 : Int), (29 : Int)) else none) :=
  C18.date_string_forms "2020".toList "2".toList "29".toList " 12:30:00".toList 2020 2 29
    ⟨by decide, by decide⟩ (by decide) ⟨by decide, by decide⟩ ⟨by decide, by decide⟩ (by decide) (by decide) (by decide)
    (Or.inr ⟨"12:30:00".toList, Or.inl rfl⟩)
/-- a date that does not exist (31 April), `T` separator -/
example : C18.IsDigits "1999".toList ∧ "1999".toList.length = 4 ∧ C18.IsDigits "04".toList ∧ C18.IsDigits "31".toList ∧
    parseNat "1999".toList = some 1999 ∧ parseNat "04".toList = some 4 ∧ parseNat "31".toList = some 31 ∧
    C18.TimeTail "T00:00".toList :=
  ⟨⟨by decide, by decide⟩, by decide, ⟨by decide, by decide⟩, ⟨by decide, by decide⟩, by decide, by decide, by decide,
    Or.inr ⟨"00:00".toList, Or.inr rfl⟩⟩

end C18

/-! ## C19 -/
section C19
open PysparklingVerif.Types

-- NONVACUOUS: PysparklingVerif.C19.json_roundtrip
/-- a struct holding an array of decimals with metadata and a map to a nested struct, non-default nullability flags -/
def c19Deep : DType :=
  .struct [("a", .array (.decimal 12 (-2)) false, true, .obj [("k", .num 1)]),
           ("m", .map (.atom .string) (.struct [("x", .atom .long, false, .obj [])]) false, false, .obj [])]
example : ofJ 12 (toJ c19Deep) = some c19Deep := C19.json_roundtrip c19Deep 12 (by decide)

/-- a normal struct type: string, array<long>, map<string,double> -/
def c19Fields : List (String × DType × Bool × J) :=
  [("a", .atom .string, true, .obj []), ("b", .array (.atom .long) true, true, .obj []),
   ("m", .map (.atom .string) (.atom .double) true, true, .obj [])]
def c19T : DType := .struct c19Fields
theorem c19Normal : C19.Normal c19T := by
  refine .struct _ ?_ ?_ (by decide)
  · intro f hf
    simp only [c19Fields, List.mem_cons, List.not_mem_nil, or_false] at hf
    rcases hf with rfl | rfl | rfl
    · exact .atom _ (by decide)
    · exact .array _ (.atom _ (by decide))
    · exact .map _ _ (.atom _ (by decide)) (.atom _ (by decide))
  · intro f hf
    simp only [c19Fields, List.mem_cons, List.not_mem_nil, or_false] at hf
    rcases hf with rfl | rfl | rfl <;> exact ⟨rfl, rfl⟩

/-- two rows of that type with nulls at different places (a null list element, a null field, a null map value) -/
def c19R1 : PV := .row [("a", .str), ("b", .list [.none, .int 1]), ("m", .dict [(.str, .float)])]
def c19R2 : PV := .row [("a", .none), ("b", .list [.int 5, .int (-7)]), ("m", .dict [(.str, .none), (.str, .float)])]
theorem c19Has1 : C19.HasType c19R1 c19T := by
  refine .row _ _ rfl ?_
  intro p hp
  simp only [c19Fields, List.zip_cons_cons, List.zip_nil_right, List.mem_cons, List.not_mem_nil, or_false] at hp
  rcases hp with rfl | rfl | rfl
  · exact .str
  · refine .list _ _ ?_
    intro x hx
    simp only [List.mem_cons, List.not_mem_nil, or_false] at hx
    rcases hx with rfl | rfl
    · exact .none _
    · exact .int _ (by decide) (by decide)
  · refine .dict _ _ _ ?_ ?_ ?_ <;> intro q hq <;> simp only [List.mem_cons, List.not_mem_nil, or_false] at hq <;> subst hq
    · rfl
    · exact .str
    · exact .float
theorem c19Has2 : C19.HasType c19R2 c19T := by
  refine .row _ _ rfl ?_
  intro p hp
  simp only [c19Fields, List.zip_cons_cons, List.zip_nil_right, List.mem_cons, List.not_mem_nil, or_false] at hp
  rcases hp with rfl | rfl | rfl
  · exact .none _
  · refine .list _ _ ?_
    intro x hx
    simp only [List.mem_cons, List.not_mem_nil, or_false] at hx
    rcases hx with rfl | rfl <;> exact .int _ (by decide) (by decide)
  · refine .dict _ _ _ ?_ ?_ ?_ <;> intro q hq <;> simp only [List.mem_cons, List.not_mem_nil, or_false] at hq <;>
      rcases hq with rfl | rfl
    · rfl
    · rfl
    · exact .str
    · exact .str
    · exact .none _
    · exact .float

-- NONVACUOUS: PysparklingVerif.C19.verify_accepts_typed
/-- a depth-3 row, checked as a non-nullable top-level value -/
example : verify 4 c19T false c19R1 = none :=
  C19.verify_accepts_typed c19R1 c19T c19Normal c19Has1 false (fun h => by cases h) 4 (by decide)

theorem c19Rows : ∀ r ∈ [c19R1, c19R2], C19.HasType r c19T ∧ r.isNone = false := by
  intro r hr
  simp only [List.mem_cons, List.not_mem_nil, or_false] at hr
  rcases hr with rfl | rfl
  · exact ⟨c19Has1, rfl⟩
  · exact ⟨c19Has2, rfl⟩
/-- inference over the two rows succeeds: each null is filled in from the other row -/
theorem c19Infer : inferSchema [c19R1, c19R2] = some c19T := by rfl

-- NONVACUOUS: PysparklingVerif.C19.inferred_schema_is_the_type
example : c19T = c19T :=
  C19.inferred_schema_is_the_type [c19R1, c19R2] c19T c19Normal c19Rows c19T c19Infer ⟨_, rfl⟩

-- NONVACUOUS: PysparklingVerif.C19.inferred_schema_verifies
example : ∀ r ∈ [c19R1, c19R2], ∀ fuel, r.depth < fuel → verify fuel c19T false r = none :=
  C19.inferred_schema_verifies [c19R1, c19R2] c19T c19Normal c19Rows c19T c19Infer ⟨_, rfl⟩

-- NONVACUOUS: PysparklingVerif.C19.verify_rejects_nested
/-- an out-of-range byte in the middle of a three-element array -/
example : verify (2 + 1) (.array (.atom .byte) true) false (.list [.int 1, .int 300, .none]) ≠ none :=
  C19.verify_rejects_nested 2 false true (.atom .byte) [.int 1, .int 300, .none] (.int 300) (by simp) (by decide +kernel)

-- NONVACUOUS: PysparklingVerif.C19.asDict_distinct_names
example : asDict ["a", "b", "c"] [1, 2, 3] = ["a", "b", "c"].zip [1, 2, 3] :=
  C19.asDict_distinct_names ["a", "b", "c"] [1, 2, 3] (by decide)

-- (inner premises of C19.verify_rejects: an out-of-range short; a value of the wrong class for a date)
example : Atom.short ∈ [Atom.byte, .short, .integer, .long] ∧ rangeOk .short 40000 = false ∧
    Atom.date ≠ .string ∧ PV.isNone (.int 3) = false ∧ acceptsScalar .date (.int 3) = false := by decide

end C19

/-! ## C20 -/
section C20
open PysparklingVerif.Glob

/-- the world: two saved datasets and some text files, rendered `./…` -/
def c20W : List Str :=
  ["./out/part-00000".toList, "./out/part-00001".toList, "./out/_SUCCESS".toList, "./out2/part-00000".toList,
   "./tree/a.txt".toList, "./trie/a.txt".toList, "./tree/b.txt".toList]

-- NONVACUOUS: PysparklingVerif.C20.prefix_is_prefix
/-- a pattern with a literal prefix `tr`, a `?`, and a `*` that spans a `/` -/
example : (literalPrefix "tr?e/*.txt".toList).isPrefixOf "tree/sub/a.txt".toList = true :=
  C20.prefix_is_prefix "tr?e/*.txt".toList "tree/sub/a.txt".toList (by decide +kernel)

-- NONVACUOUS: PysparklingVerif.C20.resolve_eq_filter
example : localResolve c20W (fun _ => false) "tr?e/*.txt".toList =
    (c20W.filter fun f => globMatch (C20.effective "tr?e/*.txt".toList) f || globMatch (partsPattern (C20.effective "tr?e/*.txt".toList)) f).map
      (unanchor (stripScheme "tr?e/*.txt".toList)) :=
  C20.resolve_eq_filter c20W (fun _ => false) "tr?e/*.txt".toList rfl
/-- (the result is neither empty nor everything: three of the seven files) -/
example : (localResolve c20W (fun _ => false) "tr?e/*.txt".toList).length = 3 := by decide +kernel

-- NONVACUOUS: PysparklingVerif.C20.resolved_names_as_spelled
/-- an anchored item (its literal prefix `tre` names no directory): the resolved name `tree/a.txt` is the walked path
`./tree/a.txt` without the `./`; the world also holds a path that does not match -/
example : "./".toList ++ "tree/a.txt".toList ∈ ["./tree/a.txt".toList, "./trie/a.txt".toList] := by
  have h := C20.resolved_names_as_spelled ["./tree/a.txt".toList, "./trie/a.txt".toList] (fun _ => false)
    "tre?/a.txt".toList rfl "tree/a.txt".toList (by decide +kernel)
  have hs : (literalPrefix (stripScheme "tre?/a.txt".toList)).contains '/' = false := by decide +kernel
  rw [hs] at h
  exact h
/-- an item whose literal prefix names a directory: the resolved name is the walked path itself -/
example : "./tree/a.txt".toList ∈ c20W := by
  have h := C20.resolved_names_as_spelled c20W (fun _ => false) "./tree/a.*".toList rfl "./tree/a.txt".toList
    (by decide +kernel)
  have hs : (literalPrefix (stripScheme "./tree/a.*".toList)).contains '/' = true := by decide +kernel
  rw [hs] at h
  exact h

-- NONVACUOUS: PysparklingVerif.C20.resolve_file_item
/-- `isFile` is true exactly for the item (given with a scheme) -/
example : localResolve c20W (fun p => p == "./tree/a.txt".toList) "file://./tree/a.txt".toList = [stripScheme "file://./tree/a.txt".toList] :=
  C20.resolve_file_item c20W (fun p => p == "./tree/a.txt".toList) "file://./tree/a.txt".toList (by decide +kernel)

-- NONVACUOUS: PysparklingVerif.C20.no_match_empty
/-- a non-empty world in which nothing matches `tr?e/*.csv` -/
example : localResolve c20W (fun _ => false) "tr?e/*.csv".toList = [] :=
  C20.no_match_empty c20W (fun _ => false) "tr?e/*.csv".toList rfl (by decide +kernel)

-- NONVACUOUS: PysparklingVerif.C20.dataset_dir_parts_only
example : globMatch (partsPattern "./out".toList) ("./out".toList ++ "/part".toList ++ "-00001.gz".toList) = true ∧
    globMatch (partsPattern "./out".toList) ("./out".toList ++ "/_SUCCESS".toList) = false ∧
    globMatch "./out".toList ("./out".toList ++ "/_SUCCESS".toList) = false :=
  C20.dataset_dir_parts_only "./out".toList "-00001.gz".toList (by decide +kernel)

-- NONVACUOUS: PysparklingVerif.C20.comma_union
/-- three items, the first with surrounding blanks -/
example : resolve (fun _ => c20W) (fun _ => false) (" out ".toList ++ ',' :: "tree/*,out2".toList) =
    localResolve c20W (fun _ => false) (strip " out ".toList) ++ resolve (fun _ => c20W) (fun _ => false) "tree/*,out2".toList :=
  C20.comma_union (fun _ => c20W) (fun _ => false) " out ".toList "tree/*,out2".toList (by decide +kernel)

-- NONVACUOUS: PysparklingVerif.C20.scheme_strip
example : localResolve c20W (fun _ => false) ("file://".toList ++ "out".toList) = localResolve c20W (fun _ => false) "out".toList :=
  C20.scheme_strip c20W (fun _ => false) "out".toList (by decide +kernel)

end C20

/-! ## Extracted / EquivC04 -/
section EquivC04
open PysparklingVerif.Retry PysparklingVerif.Gen

-- NONVACUOUS: PysparklingVerif.Extracted.C04.runTask_eq
/-- `max_retries = 4`, one attempt already made, the next two fail, then success -/
example : Gen.C04.runTask (Extracted.C04.runOf (failsThenOk 3 5 "v")) 3 ⟨1, 4, false⟩ =
    some ((Retry.runTask 4 (failsThenOk 3 5 "v") 3 1).result, ⟨(Retry.runTask 4 (failsThenOk 3 5 "v") 3 1).attempts, 4, false⟩) :=
  Extracted.C04.runTask_eq 4 (failsThenOk 3 5 "v") 3 1 (by decide) (by decide)

-- NONVACUOUS: PysparklingVerif.Extracted.C04.catch_never_raises
/-- every attempt fails, `catch_exceptions` on, three activations -/
example : Gen.C04.runTask (α := String) (fun n => .fail (100 + n)) 3 ⟨0, 2, true⟩ ≠ some (.error 102, ⟨2, 2, true⟩) :=
  Extracted.C04.catch_never_raises _ 3 ⟨0, 2, true⟩ rfl 102 ⟨2, 2, true⟩

-- NONVACUOUS: PysparklingVerif.Extracted.C04.past_max_never_raises
/-- a context that already holds 3 ≥ `max_retries` = 2 attempts -/
example : Gen.C04.runTask (α := String) (fun n => .fail (100 + n)) 5 ⟨3, 2, false⟩ ≠ some (.error 104, ⟨4, 2, false⟩) :=
  Extracted.C04.past_max_never_raises _ 5 ⟨3, 2, false⟩ (by decide) 104 ⟨4, 2, false⟩

-- NONVACUOUS: PysparklingVerif.Extracted.C04.raises_only_at_max
/-- three failing attempts with `max_retries = 3`: the third attempt's exception is raised (the hypothesis holds by
evaluation of the extracted loop) -/
example :
    (⟨3, 3, false⟩ : Gen.C04.TC).attempt_number = 3 ∧ 0 < 3 ∧ (⟨0, 3, false⟩ : Gen.C04.TC).catch_exceptions = false ∧
    (fun n => (.fail (100 + n) : Gen.C04.Attempt String Nat)) 3 = .fail 103 :=
  Extracted.C04.raises_only_at_max (α := String) (fun n => .fail (100 + n)) 3 ⟨0, 3, false⟩ ⟨3, 3, false⟩ 103 rfl

end EquivC04

/-! ## Extracted / EquivC05 -/
section EquivC05
open PysparklingVerif.Cache PysparklingVerif.Gen PysparklingVerif.Gen.C05

/-- a timed manager holding partition 0 of dataset 3 and an entry of dataset 4 -/
def e05T : Timed Nat := ⟨[((3, 0), [2, 4]), ((4, 0), [1])], [((3, 0), 10), ((4, 0), 30)], 15⟩
/-- a parent computation that returns `[6]` and itself stores an entry (dataset 9) in the manager it is given -/
def e05Up : CM Extracted.C05.Key (List Nat) → Option (List Nat × CM Extracted.C05.Key (List Nat)) := fun cm =>
  match cmAdd cm (some (9, 1)) [0] () with
  | some (_, cm') => some ([6], cm')
  | none => none
theorem e05Hup : e05Up (Extracted.C05.toCM e05T) = some ([6], Extracted.C05.toCM { e05T with store := e05T.store.put (9, 1) [0] }) := by
  simp only [e05Up, Extracted.C05.cmAdd_eq]

-- NONVACUOUS: PysparklingVerif.Extracted.C05.persistedCompute_plain
/-- partition 1 of dataset 3 is not stored (a miss; the parent runs and fills the manager), partition 0 is (a hit) -/
example : persistedCompute ⟨Extracted.C05.toCM e05T⟩ (some 3) (some 1) e05Up cmAdd =
    match e05T.store.get (3, 1) with
    | some d0 => some (d0, Extracted.C05.toCM e05T)
    | none => some ([6], Extracted.C05.toCM { ({ e05T with store := e05T.store.put (9, 1) [0] } : Timed Nat) with
        store := ({ e05T with store := e05T.store.put (9, 1) [0] } : Timed Nat).store.put (3, 1) [6] }) :=
  Extracted.C05.persistedCompute_plain e05T _ 3 1 [6] e05Up e05Hup
example : persistedCompute ⟨Extracted.C05.toCM e05T⟩ (some 3) (some 0) e05Up cmAdd =
    match e05T.store.get (3, 0) with
    | some d0 => some (d0, Extracted.C05.toCM e05T)
    | none => some ([6], Extracted.C05.toCM { ({ e05T with store := e05T.store.put (9, 1) [0] } : Timed Nat) with
        store := ({ e05T with store := e05T.store.put (9, 1) [0] } : Timed Nat).store.put (3, 0) [6] }) :=
  Extracted.C05.persistedCompute_plain e05T _ 3 0 [6] e05Up e05Hup

-- NONVACUOUS: PysparklingVerif.Extracted.C05.persistedCompute_timed
/-- the same miss at time 40 (the `add` then expires the entry stamped 10) -/
example : persistedCompute ⟨Extracted.C05.toCM e05T⟩ (some 3) (some 1) e05Up (fun cm k x u => tAdd cm k x u ((40 : Nat) : Int)) =
    match e05T.store.get (3, 1) with
    | some d0 => some (d0, Extracted.C05.toCM e05T)
    | none => some ([6], Extracted.C05.toCM (({ e05T with store := e05T.store.put (9, 1) [0] } : Timed Nat).add (3, 1) [6] 40)) :=
  Extracted.C05.persistedCompute_timed e05T _ 3 1 40 [6] e05Up e05Hup

end EquivC05

/-! ## Extracted / EquivC09 -/
section EquivC09
open PysparklingVerif.TextIO PysparklingVerif.Save PysparklingVerif.Gen.C09

/-- the effects of the save model on the file system / partitions / fault plan of the C09 section (first write fails and
is torn, first computation of partition 1 fails), as a function of the target path and `max_retries` -/
def e09Eff (path : Str) (maxR : Nat) : Eff St := Extracted.C09.modelEff path c09Parts maxR c09W c09W c09C

-- NONVACUOUS: PysparklingVerif.Extracted.C09.exists_refused_before_any_effect
/-- the target `old` exists (a directory implied by a file below it) -/
example : saveAsTextFile (e09Eff "old".toList 2) ⟨c09FS, 0⟩ = (⟨c09FS, 0⟩, .alreadyExists) :=
  Extracted.C09.exists_refused_before_any_effect (e09Eff "old".toList 2) ⟨c09FS, 0⟩ (by decide)

-- NONVACUOUS: PysparklingVerif.Extracted.C09.refused_only_if_exists
/-- its hypothesis (the save was refused) is the conclusion of the previous theorem on the same arguments -/
example : (e09Eff "old".toList 2).pathExists ⟨c09FS, 0⟩ = true ∧ (⟨c09FS, 0⟩ : St) = ⟨c09FS, 0⟩ :=
  Extracted.C09.refused_only_if_exists (e09Eff "old".toList 2) ⟨c09FS, 0⟩ ⟨c09FS, 0⟩
    (Extracted.C09.exists_refused_before_any_effect (e09Eff "old".toList 2) ⟨c09FS, 0⟩ (by decide))

-- NONVACUOUS: PysparklingVerif.Extracted.C09.marker_only_after_all_parts
/-- three partitions, `max_retries = 2`: the torn first write and the failing computation are retried, the save
returns normally (checked by evaluation) -/
example : (e09Eff "out".toList 2).pathExists ⟨c09FS, 0⟩ = false ∧
    ∃ st2, (e09Eff "out".toList 2).runParts ⟨c09FS, 0⟩ = (st2, true) ∧
      (e09Eff "out".toList 2).dumpMarker st2 = ((saveAsTextFile (e09Eff "out".toList 2) ⟨c09FS, 0⟩).1, true) :=
  Extracted.C09.marker_only_after_all_parts (e09Eff "out".toList 2) ⟨c09FS, 0⟩ _ (by decide)
    (Prod.ext rfl (by decide +kernel))

-- NONVACUOUS: PysparklingVerif.Extracted.C09.failed_job_never_reaches_marker
/-- `max_retries = 1`: the torn first write is fatal for the job over the partitions -/
example : saveAsTextFile (e09Eff "out".toList 1) ⟨c09FS, 0⟩ = (((e09Eff "out".toList 1).runParts ⟨c09FS, 0⟩).1, .failed) :=
  Extracted.C09.failed_job_never_reaches_marker (e09Eff "out".toList 1) ⟨c09FS, 0⟩ _ (by decide) (by decide)
    (Prod.ext rfl (by decide +kernel))

-- NONVACUOUS: PysparklingVerif.Extracted.C09.single_partition_one_write
/-- a one-partition dataset (two lines), fault-free -/
def e09Single : Eff St :=
  Extracted.C09.modelEff "out".toList [["ab".toList, "c".toList]] 2 (fun _ => false) (fun _ => false) (fun _ _ => false)
example : saveAsTextFile e09Single ⟨c09FS, 0⟩ =
    ((e09Single.dumpSingle ⟨c09FS, 0⟩).1, if (e09Single.dumpSingle ⟨c09FS, 0⟩).2 then .ok else .failed) :=
  Extracted.C09.single_partition_one_write e09Single ⟨c09FS, 0⟩ (by decide) (by decide)

end EquivC09

/-! ## Extracted / EquivC10 -/
section EquivC10
open PysparklingVerif.Gen.C10

-- NONVACUOUS: PysparklingVerif.Extracted.C10.queueGet_none_only_default
/-- the theorem characterises when `None` is handed to the deserializer; its conclusion (`queue = []`, no default) says
that ONLY an exhausted queue without default can satisfy the hypothesis, so this is the only kind of witness there is
(the statement is used in the contrapositive: a non-empty queue never yields `None`) -/
example : (⟨[], true, none⟩ : QS Nat).queue = [] ∧ (⟨[], true, none⟩ : QS Nat).default = none ∧
    (⟨[], true, none⟩ : QS Nat) = ⟨[], true, none⟩ :=
  Extracted.C10.queueGet_none_only_default (α := Nat) ⟨[], true, none⟩ ⟨[], true, none⟩ rfl

-- NONVACUOUS: PysparklingVerif.Extracted.C10.srcStep_guard
/-- a stream that has processed interval 5 is asked for interval 4 -/
example : srcStep (⟨5, [1, 2], true⟩ : Src (List Nat)) 4 [9] (·.map (· + 1)) = some (⟨5, [1, 2], true⟩, false) :=
  Extracted.C10.srcStep_guard ⟨5, [1, 2], true⟩ 4 [9] (·.map (· + 1)) (by decide)

-- NONVACUOUS: PysparklingVerif.Extracted.C10.srcStep_fresh
example : srcStep (⟨5, [1, 2], true⟩ : Src (List Nat)) 6 [9] (·.map (· + 1)) =
    some ({ current_time := 6, current_rdd := if (⟨5, [1, 2], true⟩ : Src (List Nat)).has_deserializer then [9].map (· + 1) else [9],
            has_deserializer := true }, true) :=
  Extracted.C10.srcStep_fresh ⟨5, [1, 2], true⟩ 6 [9] (·.map (· + 1)) (by decide)

end EquivC10

/-! ## Extracted / EquivC11 -/
section EquivC11
open PysparklingVerif.Gen.C11 PysparklingVerif.Stream

/-- `window(3, 2)` after interval 4, holding a full buffer, counter 1 -/
def e11W : Win (Batch Nat) :=
  { current_time := 4, window := [[2], [3], [4]], window_duration := 3, slide_duration := 2, slide_counter := 1,
    current_rdd := .empty }

-- NONVACUOUS: PysparklingVerif.Extracted.C11.winStep_guard
example : winStep e11W 4 [5] = some e11W := Extracted.C11.winStep_guard e11W 4 [5] (by decide)

-- NONVACUOUS: PysparklingVerif.Extracted.C11.winStep_eq
/-- interval 5: the buffer is full (the oldest batch is dropped) and the counter wraps (the union is emitted) -/
example : winStep e11W 5 [5] = some
    { current_time := 5, window := pushWindow 3 [[2], [3], [4]] [5], window_duration := 3, slide_duration := 2,
      slide_counter := (1 + 1) % 2,
      current_rdd := if (1 + 1) % 2 = 0 then .union (pushWindow 3 [[2], [3], [4]] [5]) else .empty } :=
  Extracted.C11.winStep_eq e11W 5 [5] (by decide) (by decide)

-- NONVACUOUS: PysparklingVerif.Extracted.C11.winStep_zero_slide
example : winStep ({ e11W with slide_duration := 0 }) 5 [5] = none :=
  Extracted.C11.winStep_zero_slide ({ e11W with slide_duration := 0 }) 5 [5] (by decide) rfl

-- NONVACUOUS: PysparklingVerif.Extracted.C11.genRun_eq_windowRun
/-- three further batches from the state above -/
example : Extracted.C11.genRun e11W 4 [[5], [6, 7], []] = some (windowRun 3 2 [[5], [6, 7], []] ([[2], [3], [4]], 1)) :=
  Extracted.C11.genRun_eq_windowRun 3 2 [[2], [3], [4]] 1 4 4 .empty (by decide) (by decide) [[5], [6, 7], []]

end EquivC11

/-! ## obligations without hypotheses (pure equations / unconditional statements): nothing to satisfy -/

-- NO-HYPOTHESES: PysparklingVerif.C01.map_flat
-- NO-HYPOTHESES: PysparklingVerif.C01.filter_flat
-- NO-HYPOTHESES: PysparklingVerif.C01.flatMap_flat
-- NO-HYPOTHESES: PysparklingVerif.C01.mapValues_flat
-- NO-HYPOTHESES: PysparklingVerif.C01.flatMapValues_flat
-- NO-HYPOTHESES: PysparklingVerif.C01.keyBy_keys_values_flat
-- NO-HYPOTHESES: PysparklingVerif.C01.glom_is_layout
-- NO-HYPOTHESES: PysparklingVerif.C01.count_eq
-- NO-HYPOTHESES: PysparklingVerif.C01.sum_eq
-- NO-HYPOTHESES: PysparklingVerif.C01.take_first_eq
-- NO-HYPOTHESES: PysparklingVerif.C01.countByValue_eq
-- NO-HYPOTHESES: PysparklingVerif.C01.lookup_eq
-- NO-HYPOTHESES: PysparklingVerif.C01.collectAsMap_eq
-- NO-HYPOTHESES: PysparklingVerif.C01.top_takeOrdered_eq
-- NO-HYPOTHESES: PysparklingVerif.C01.shared_zero_differs
-- NO-HYPOTHESES: PysparklingVerif.C02.groupByKey_spec
-- NO-HYPOTHESES: PysparklingVerif.C02.groupList_values_order
-- NO-HYPOTHESES: PysparklingVerif.C02.groupList_keys
-- NO-HYPOTHESES: PysparklingVerif.C02.groupList_flat_perm
-- NO-HYPOTHESES: PysparklingVerif.C02.reduceByKey_spec
-- NO-HYPOTHESES: PysparklingVerif.C02.countByKey_spec
-- NO-HYPOTHESES: PysparklingVerif.C02.cogroup_spec
-- NO-HYPOTHESES: PysparklingVerif.C02.join_perm
-- NO-HYPOTHESES: PysparklingVerif.C02.join_count
-- NO-HYPOTHESES: PysparklingVerif.C02.leftOuterJoin_perm
-- NO-HYPOTHESES: PysparklingVerif.C02.rightOuterJoin_perm
-- NO-HYPOTHESES: PysparklingVerif.C02.fullOuterJoin_perm
-- NO-HYPOTHESES: PysparklingVerif.C02.semi_anti_perm
-- NO-HYPOTHESES: PysparklingVerif.C02.subtractByKey_perm
-- NO-HYPOTHESES: PysparklingVerif.C02.subtract_spec
-- NO-HYPOTHESES: PysparklingVerif.C02.distinct_spec
-- NO-HYPOTHESES: PysparklingVerif.C02.intersection_spec
-- NO-HYPOTHESES: PysparklingVerif.C02.cartesian_eq
-- NO-HYPOTHESES: PysparklingVerif.C03.threads_touch_only_their_own_state
-- NO-HYPOTHESES: PysparklingVerif.C03.task_result
-- NO-HYPOTHESES: PysparklingVerif.C03.any_private_programs_commute
-- NO-HYPOTHESES: PysparklingVerif.C03.old_code_schedule_dependent
-- NO-HYPOTHESES: PysparklingVerif.C03.old_code_shared_generator
-- NO-HYPOTHESES: PysparklingVerif.C04.nested_job_refused
-- NO-HYPOTHESES: PysparklingVerif.C04.lock_released
-- NO-HYPOTHESES: PysparklingVerif.C04.context_stays_usable
-- NO-HYPOTHESES: PysparklingVerif.C05.ids_distinct
-- NO-HYPOTHESES: PysparklingVerif.C05.unpersist_leaves_nothing
-- NO-HYPOTHESES: PysparklingVerif.C05.unpersist_contents_same
-- NO-HYPOTHESES: PysparklingVerif.C06.lazy_values
-- NO-HYPOTHESES: PysparklingVerif.Extracted.C02.groupItems_eq
-- NO-HYPOTHESES: PysparklingVerif.Extracted.C02.join_eq
-- NO-HYPOTHESES: PysparklingVerif.Extracted.C02.leftOuterJoin_eq
-- NO-HYPOTHESES: PysparklingVerif.Extracted.C02.rightOuterJoin_eq
-- NO-HYPOTHESES: PysparklingVerif.Extracted.C02.fullOuterJoin_eq
-- NO-HYPOTHESES: PysparklingVerif.Extracted.C02.semi_anti_eq
-- NO-HYPOTHESES: PysparklingVerif.Extracted.C02.cartesian_eq
-- NO-HYPOTHESES: PysparklingVerif.Extracted.C02.subtractByKey_eq
-- NO-HYPOTHESES: PysparklingVerif.C06.no_foreign_events
-- NO-HYPOTHESES: PysparklingVerif.C06.pullN_prefix
-- NO-HYPOTHESES: PysparklingVerif.C06.take_values_prefix
-- NO-HYPOTHESES: PysparklingVerif.C06.take_zero_nothing
-- NO-HYPOTHESES: PysparklingVerif.C07.parallelize_flat
-- NO-HYPOTHESES: PysparklingVerif.C07.repartition_layout
-- NO-HYPOTHESES: PysparklingVerif.C07.mapPartitionsWithIndex_indices
-- NO-HYPOTHESES: PysparklingVerif.C07.zipWithUniqueId_distinct
-- NO-HYPOTHESES: PysparklingVerif.C09.torn_generalises
-- NO-HYPOTHESES: PysparklingVerif.C10.queue_one_at_a_time
-- NO-HYPOTHESES: PysparklingVerif.C10.file_delivered_once
-- NO-HYPOTHESES: PysparklingVerif.C11.state_fold
-- NO-HYPOTHESES: PysparklingVerif.C12.limit_prefix
-- NO-HYPOTHESES: PysparklingVerif.C12.dedup_spec
-- NO-HYPOTHESES: PysparklingVerif.C12.partition_independent
-- NO-HYPOTHESES: PysparklingVerif.C12.remainder_spec
-- NO-HYPOTHESES: PysparklingVerif.Extracted.C12.modInt_eq
-- NO-HYPOTHESES: PysparklingVerif.Extracted.C12.modInt_is_arithM
-- NO-HYPOTHESES: PysparklingVerif.Extracted.C12.divRat_is_ratArith
-- NO-HYPOTHESES: PysparklingVerif.C12.drop_every_column_of_that_name
-- NO-HYPOTHESES: PysparklingVerif.C13.crossJoin_eq
-- NO-HYPOTHESES: PysparklingVerif.C14.rollup_keys
-- NO-HYPOTHESES: PysparklingVerif.C15.sources_consistent
-- NO-HYPOTHESES: PysparklingVerif.C15.names_shape
-- NO-HYPOTHESES: PysparklingVerif.C16.bernoulli_sublist
-- NO-HYPOTHESES: PysparklingVerif.C16.poisson_elements_exist
-- NO-HYPOTHESES: PysparklingVerif.C17.init_rep
-- NO-HYPOTHESES: PysparklingVerif.C17.fold_is_spec
-- NO-HYPOTHESES: PysparklingVerif.C17.stats_any_partitioning
-- NO-HYPOTHESES: PysparklingVerif.C17.stats_any_merge_tree
-- NO-HYPOTHESES: PysparklingVerif.C17.cov_any_partitioning
-- NO-HYPOTHESES: PysparklingVerif.C19.scalar_classes_exact
-- NO-HYPOTHESES: PysparklingVerif.C18.cast_int_wraps
-- NO-HYPOTHESES: PysparklingVerif.C18.cast_bool_wraps
-- NO-HYPOTHESES: PysparklingVerif.C18.wrap_in_range
-- NO-HYPOTHESES: PysparklingVerif.C18.bool_string_roundtrip
-- NO-HYPOTHESES: PysparklingVerif.C18.bool_any_case
-- NO-HYPOTHESES: PysparklingVerif.C18.valid_date_is_calendar
-- NO-HYPOTHESES: PysparklingVerif.C19.verify_rejects
-- NO-HYPOTHESES: PysparklingVerif.C20.glob_iff_decl
-- NO-HYPOTHESES: PysparklingVerif.C20.reader_sorted_order
-- NO-HYPOTHESES: PysparklingVerif.Extracted.C03.read_toCM
-- NO-HYPOTHESES: PysparklingVerif.Extracted.C03.cloneForTask_eq
-- NO-HYPOTHESES: PysparklingVerif.Extracted.C03.sentBack_eq
-- NO-HYPOTHESES: PysparklingVerif.Extracted.C03.join_read
-- NO-HYPOTHESES: PysparklingVerif.Extracted.C05.cmAdd_eq
-- NO-HYPOTHESES: PysparklingVerif.Extracted.C05.cmGet_eq
-- NO-HYPOTHESES: PysparklingVerif.Extracted.C05.cmHas_eq
-- NO-HYPOTHESES: PysparklingVerif.Extracted.C05.cmHas_none
-- NO-HYPOTHESES: PysparklingVerif.Extracted.C05.cmDelete_eq
-- NO-HYPOTHESES: PysparklingVerif.Extracted.C05.tGc_eq
-- NO-HYPOTHESES: PysparklingVerif.Extracted.C05.tAdd_eq
-- NO-HYPOTHESES: PysparklingVerif.Extracted.C07.slice_bounds_eq
-- NO-HYPOTHESES: PysparklingVerif.Extracted.C07.coalesceMapping_eq
-- NO-HYPOTHESES: PysparklingVerif.Extracted.C07.uniqueId_eq
-- NO-HYPOTHESES: PysparklingVerif.Extracted.C08.fileEndings_eq
-- NO-HYPOTHESES: PysparklingVerif.Extracted.C08.getCodec_eq
-- NO-HYPOTHESES: PysparklingVerif.Extracted.C08.codecSuffix_eq
-- NO-HYPOTHESES: PysparklingVerif.Extracted.C08.toStringIO_eq
-- NO-HYPOTHESES: PysparklingVerif.Extracted.C09.saveAsTextFile_eq_model
-- NO-HYPOTHESES: PysparklingVerif.Extracted.C10.queueGet_eq
-- NO-HYPOTHESES: PysparklingVerif.Extracted.C10.fileGet_eq
-- NO-HYPOTHESES: PysparklingVerif.C03.save_old_code_race
-- NO-HYPOTHESES: PysparklingVerif.C15.rows_source_consistent
-- NO-HYPOTHESES: PysparklingVerif.C15.rows_source_old_code
-- NO-HYPOTHESES: PysparklingVerif.C15.joinOn_old_code
-- NO-HYPOTHESES: PysparklingVerif.C15.joinOn_defined
-- NO-HYPOTHESES: PysparklingVerif.Extracted.C01.aggregate_eq
-- NO-HYPOTHESES: PysparklingVerif.Extracted.C01.fold_eq
-- NO-HYPOTHESES: PysparklingVerif.Extracted.C01.count_eq
-- NO-HYPOTHESES: PysparklingVerif.Extracted.C01.sum_eq
-- NO-HYPOTHESES: PysparklingVerif.Extracted.C01.collect_eq
-- NO-HYPOTHESES: PysparklingVerif.Extracted.C01.first_take_eq
-- NO-HYPOTHESES: PysparklingVerif.Extracted.C01.reduce_eq
-- NO-HYPOTHESES: PysparklingVerif.Extracted.C12.andEval_eq
-- NO-HYPOTHESES: PysparklingVerif.Extracted.C12.orEval_eq
-- NO-HYPOTHESES: PysparklingVerif.Extracted.C12.invertEval_eq
-- NO-HYPOTHESES: PysparklingVerif.Extracted.C12.null_tests
-- NO-HYPOTHESES: PysparklingVerif.Extracted.C12.kleene
-- NO-HYPOTHESES: PysparklingVerif.Extracted.C13.mergeSchemas_cross
-- NO-HYPOTHESES: PysparklingVerif.Extracted.C14.updateMoments_eq
-- NO-HYPOTHESES: PysparklingVerif.Extracted.C14.mergeMoments_eq
-- NO-HYPOTHESES: PysparklingVerif.Extracted.C15.drop_names_agree
-- NO-HYPOTHESES: PysparklingVerif.Extracted.C16.bernoulli_eq
-- NO-HYPOTHESES: PysparklingVerif.Extracted.C16.randomSplit_eq
-- NO-HYPOTHESES: PysparklingVerif.Extracted.C16.boundaries_eq
-- NO-HYPOTHESES: PysparklingVerif.Extracted.C16.taskSeed_eq
-- NO-HYPOTHESES: PysparklingVerif.Extracted.C17.scMerge_eq
-- NO-HYPOTHESES: PysparklingVerif.Extracted.C17.scMergeStats_eq
-- NO-HYPOTHESES: PysparklingVerif.Extracted.C17.covAdd_eq
-- NO-HYPOTHESES: PysparklingVerif.Extracted.C17.covMerge_eq
-- NO-HYPOTHESES: PysparklingVerif.Extracted.C18.castBoundedNumeric_eq
-- NO-HYPOTHESES: PysparklingVerif.Extracted.C18.bounds_eq
-- NO-HYPOTHESES: PysparklingVerif.Extracted.C18.castBoundedParsed_spec
-- NO-HYPOTHESES: PysparklingVerif.Extracted.C18.generated_wraps
-- NO-HYPOTHESES: PysparklingVerif.Extracted.C19.atomName_eq
-- NO-HYPOTHESES: PysparklingVerif.Extracted.C19.toJ_eq
-- NO-HYPOTHESES: PysparklingVerif.Extracted.C19.read_keys_are_written_keys
-- NO-HYPOTHESES: PysparklingVerif.Extracted.C19.dispatch_names
-- NO-HYPOTHESES: PysparklingVerif.Extracted.C20.hasInfix_slash
-- NO-HYPOTHESES: PysparklingVerif.Extracted.C20.resolveFilenames_eq_model

/-! ## sections that an earlier edit had placed inside the header comment (found and moved out) -/

/-! ### C03: a saving job on a thread pool -/
section C03Save
open PysparklingVerif.SaveSched

def c03SaveParts : List (List Nat) := [[1, 2], [3, 4], [5]]
def c03SaveSched : List Nat := [2, 0, 1, 1, 0, 2, 1, 0, 2]

theorem c03SaveComplete : Complete c03SaveParts.length c03SaveSched := by
  intro i hi
  match i, hi with
  | 0, _ => decide
  | 1, _ => decide
  | 2, _ => decide
  | n + 3, h => exact absurd h (by simp [c03SaveParts])

-- NONVACUOUS: PysparklingVerif.C03.save_any_complete_schedule
example : (run stepNew c03SaveSched (initSys c03SaveParts)).tasks.all (·.pc == .done) = true :=
  (C03.save_any_complete_schedule c03SaveParts c03SaveSched c03SaveComplete).1
end C03Save


/-! ### Extracted/EquivC15 -/
section EquivC15
open PysparklingVerif.Gen.C15 PysparklingVerif.Extracted.C15

-- NONVACUOUS: PysparklingVerif.Extracted.C15.renamed_names_agree
example : renamedRowNames "b" "z" ["a", "b", "c"] [(), (), ()] = renamedSchemaNames "b" "z" ["a", "b", "c"] :=
  (renamed_names_agree "b" "z" ["a", "b", "c"] [(), (), ()] (by decide)).1

-- NONVACUOUS: PysparklingVerif.Extracted.C15.toDF_names_agree
example : toDFSchemaNames ["x", "y", "z"] ["a", "b", "c"] = ["x", "y", "z"] :=
  (toDF_names_agree ["x", "y", "z"] ["a", "b", "c"] [(), (), ()] (by decide)).2 (by decide)

-- NONVACUOUS: PysparklingVerif.Extracted.C15.union_names_agree
example : unionOtherRowNames ["a", "b", "c"] [(), (), ()] = ["a", "b", "c"] :=
  union_names_agree ["a", "b", "c"] [(), (), ()] (by decide)
-- NONVACUOUS: PysparklingVerif.Extracted.C15.withColumn_selection_is_model
/-- the frame `SELECT a, a, c` (names not unique): replacing "c" -/
example : (withColumnSelection "c" ["a", "a", "c"]).map (ColRef.eval 9 [1, 2, 3]) = [some 1, some 2, some 9] := by
  rw [withColumn_selection_is_model "c" ["a", "a", "c"] [1, 2, 3] 9 (by decide)]; decide

-- NO-HYPOTHESES: PysparklingVerif.Extracted.C15.withColumn_replaces_iff
-- NO-HYPOTHESES: PysparklingVerif.Extracted.C15.withColumn_selection_names
end EquivC15

/-! ### Extracted/EquivC13 -/
section EquivC13
open PysparklingVerif.Gen.C13 PysparklingVerif.Extracted.C13

def c13FL : List Field := [⟨"k", 0, false⟩, ⟨"a", 1, true⟩]
def c13FR : List Field := [⟨"b", 0, true⟩, ⟨"k", 0, false⟩]

-- NONVACUOUS: PysparklingVerif.Extracted.C13.mergeSchemas_names
example : (mergeSchemas c13FL c13FR (toHow .left) (some ["k"])).map names =
    some (Join.joinNames .left (names c13FL) (names c13FR) ["k"]) :=
  mergeSchemas_names .left c13FL c13FR ["k"] (by decide) (by decide) (by decide) (by decide)

-- NONVACUOUS: PysparklingVerif.Extracted.C13.mergeSchemas_missing_column
example : mergeSchemas c13FL c13FR .INNER_JOIN (some ["k", "z"]) = none :=
  mergeSchemas_missing_column .INNER_JOIN c13FL c13FR ["k", "z"] "z" (by decide) (Or.inl (by decide))

-- NONVACUOUS: PysparklingVerif.Extracted.C13.full_join_keys_nullable
example : ∀ f ∈ ([⟨"k", 0, true⟩, ⟨"a", 1, true⟩, ⟨"b", 0, true⟩] : List Field).take 1, f.nullable = true :=
  full_join_keys_nullable c13FL c13FR ["k"] _ (by decide)

-- NONVACUOUS: PysparklingVerif.Extracted.C13.how_texts_distinct
example : How.LEFT_SEMI_JOIN = How.LEFT_SEMI_JOIN := how_texts_distinct _ _ rfl
end EquivC13

-- NO-HYPOTHESES: PysparklingVerif.Extracted.C06.stages_are_model
-- NO-HYPOTHESES: PysparklingVerif.Extracted.C06.lineage_is_build
-- NO-HYPOTHESES: PysparklingVerif.Extracted.C06.takeHandler_is_takeChain
-- NO-HYPOTHESES: PysparklingVerif.Extracted.C06.firstHandler_is_takeChain
-- NO-HYPOTHESES: PysparklingVerif.Extracted.C06.isEmpty_calls
-- NO-HYPOTHESES: PysparklingVerif.Extracted.C06.sampleStage_pulls_everything
-- NO-HYPOTHESES: PysparklingVerif.Extracted.C06.sampleStage_nothing_drawn
-- NONVACUOUS: PysparklingVerif.Extracted.C06.take_text_end_to_end
-- (the hypothesis `j < ops.length` with a two-stage pipeline over two partitions; the `example` next to the theorem in
-- Extracted/EquivC06.lean evaluates the same instance by `decide`)
example := Extracted.C06.take_text_end_to_end [Lazy.LOp.filter (fun x : Nat => x % 2 == 1), .map (· * 10)] [[1, 2, 3, 4], [5, 6]] 2 1 (by decide)

end PysparklingVerif.NonVacuity
