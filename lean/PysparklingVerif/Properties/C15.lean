/-
  C15 — A DataFrame's schema, column list and rows always agree.
-/
import PysparklingVerif.Model.Frame
import PysparklingVerif.Lemmas.FrameLemmas
namespace PysparklingVerif.C15
open PysparklingVerif.Sql PysparklingVerif.Join PysparklingVerif.Agg PysparklingVerif.Frame

/-- the frames an operation brings in (join / crossJoin / union partners) are themselves consistent -/
def OpOk : Op → Prop
  | .join _ _ other => other.Consistent
  | .crossJoin other => other.Consistent
  | .joinOn _ _ other => other.Consistent
  | .union other => other.Consistent
  | _ => True

-- OBLIGATION: PysparklingVerif.C15.apply_consistent
/-- MAIN (one step): whatever operation is applied — projection with '*' / duplicate / generated names,
withColumn, drop, rename onto an existing name, every join type (duplicate names across sides), cross join,
union, groupBy / rollup / cube aggregation with generated names, pivot with given or data-derived values,
sort, limit, distinct, sample, repartition — the separately computed schema and the separately computed
rows agree: every output row has exactly one value per output column -/
theorem apply_consistent (d d' : DF) (op : Op) (h : d.Consistent) (ho : OpOk op) (ha : apply d op = .ok d') :
    d'.Consistent := by
  obtain ⟨ns, rs, hn, hr, rfl⟩ := apply_ok ha
  show ∀ r ∈ rs, r.length = ns.length
  cases op with
  | select items => exact select_consistent d items h ns rs hn hr
  | withColumn name e => exact withColumn_consistent d name e h ns rs hn hr
  | filter e => exact filter_consistent d e h ns rs hn hr
  | drop cols => exact drop_consistent d cols ns rs hn hr
  | rename old new => exact rename_consistent d old new h ns rs hn hr
  | join how on other => exact join_consistent d how on other h ho ns rs hn hr
  | crossJoin other => exact crossJoin_consistent d other h ho ns rs hn hr
  | joinOn how cond other => exact joinOn_consistent d how cond other h ho ns rs hn hr
  | union other => exact union_consistent d other h ho ns rs hn hr
  | agg mode keys aggs => exact agg_consistent d mode keys aggs ns rs hn hr
  | pivot keys pcol values aggs => exact pivot_consistent d keys pcol values aggs ns rs hn hr
  | sort keys => exact sort_consistent d keys h ns rs hn hr
  | limit n => exact limit_consistent d n h ns rs hn hr
  | distinct => exact distinct_consistent d h ns rs hn hr
  | sample keep => exact sample_consistent d keep h ns rs hn hr
  | repartition n => exact repartition_consistent d n h ns rs hn hr

-- OBLIGATION: PysparklingVerif.C15.run_consistent
/-- MAIN (every chain, any length): the invariant holds after every operation sequence -/
theorem run_consistent (ops : List Op) (d d' : DF) (h : d.Consistent) (ho : ∀ op ∈ ops, OpOk op)
    (hr : run d ops = .ok d') : d'.Consistent := by
  induction ops generalizing d with
  | nil =>
    unfold run at hr
    rw [List.foldlM_nil] at hr
    cases pure_ok hr
    exact h
  | cons op ops ih =>
    unfold run at hr
    rw [List.foldlM_cons] at hr
    obtain ⟨d1, h1, hr⟩ := bind_ok hr
    exact ih d1 (apply_consistent d d1 op h (ho op List.mem_cons_self) h1)
      (fun op' h' => ho op' (List.mem_cons_of_mem _ h')) hr

-- OBLIGATION: PysparklingVerif.C15.joinOn_rows_width
/-- a join on a Column condition: for all six join types every output row has one value per output column - all columns of
both sides, the left ones only for semi / anti - whatever the condition is (if it can be evaluated at all) -/
theorem joinOn_rows_width (how : How) (e : Expr) (lnames rnames : List String) (ls rs out : List Row)
    (hl : ∀ r ∈ ls, r.length = lnames.length) (hr : ∀ r ∈ rs, r.length = rnames.length)
    (h : joinOnRows how e lnames.length rnames.length ls rs = .ok out) :
    ∀ r ∈ out, r.length = (joinOnNames how lnames rnames).length :=
  joinOnRows_width how e lnames rnames ls rs out hl hr h

-- OBLIGATION: PysparklingVerif.C15.joinOn_semi_anti_partition
/-- semi and anti joins on a condition split the left rows: each left row is in exactly one of the two results, in order -/
theorem joinOn_semi_anti_partition (e : Expr) (ln rn : Nat) (ls rs semi anti : List Row)
    (hs : joinOnRows .semi e ln rn ls rs = .ok semi) (ha : joinOnRows .anti e ln rn ls rs = .ok anti) :
    semi.Sublist ls ∧ anti.Sublist ls ∧ semi.length + anti.length = ls.length :=
  joinOnRows_semi_anti e ln rn ls rs semi anti hs ha

/-- the condition as a plain test on a pair of rows (false where it is null) -/
def holds (e : Expr) (l r : Row) : Bool :=
  match condHolds e l r with
  | .ok b => b
  | .error _ => false

/-- SPEC: the nested-loop reference of a join on a condition -/
def joinOnSpec (how : How) (e : Expr) (ln rn : Nat) (ls rs : List Row) : List Row :=
  let inner := ls.flatMap fun l => (rs.filter (holds e l)).map (l ++ ·)
  let leftPart := ls.flatMap fun l =>
    if (rs.filter (holds e l)).isEmpty then [l ++ nullRow rn] else (rs.filter (holds e l)).map (l ++ ·)
  let unmatchedRight := (rs.filter fun r => ls.all fun l => !holds e l r).map (nullRow ln ++ ·)
  match how with
  | .inner => inner
  | .left => leftPart
  | .right => inner ++ unmatchedRight
  | .full => leftPart ++ unmatchedRight
  | .semi => ls.filter fun l => rs.any (holds e l)
  | .anti => ls.filter fun l => !rs.any (holds e l)

-- OBLIGATION: PysparklingVerif.C15.joinOn_is_nested_loop
/-- whenever the condition can be evaluated on every pair, a join on a condition returns exactly the nested-loop reference, in
its order: one row per matching pair, a null-padded row for every unmatched left row (left, full) and, after them, for every
unmatched right row (right, full), the left rows with / without a match for semi / anti -/
theorem joinOn_is_nested_loop (how : How) (e : Expr) (ln rn : Nat) (ls rs out : List Row)
    (h : joinOnRows how e ln rn ls rs = .ok out) : out = joinOnSpec how e ln rn ls rs := by
  rw [joinOnRows_ok_pure (holds e) (fun l r b hb => by unfold holds; rw [hb]) h]
  cases how with
  | inner => simp only [joinOnSpec, joinOnLeft, List.append_nil]
  | right => simp only [joinOnSpec, joinOnLeft]
  | left => simp only [joinOnSpec, joinOnLeft, List.append_nil]
  | full => simp only [joinOnSpec, joinOnLeft]
  | semi =>
    simp only [joinOnSpec, joinOnLeft, List.append_nil, filter_isEmpty_eq]
    rw [← flatMap_ite_singleton]
    congr 1
    funext l
    cases rs.any (holds e l) <;> rfl
  | anti =>
    simp only [joinOnSpec, joinOnLeft, List.append_nil, filter_isEmpty_eq]
    rw [← flatMap_ite_singleton]

-- OBLIGATION: PysparklingVerif.C15.joinOn_defined
/-- … and it is defined exactly when the condition evaluates to a boolean or null on every pair of rows -/
theorem joinOn_defined (how : How) (e : Expr) (ln rn : Nat) (ls rs : List Row) :
    (∃ out, joinOnRows how e ln rn ls rs = .ok out) ↔ ∀ l ∈ ls, ∀ r ∈ rs, ∃ b, condHolds e l r = .ok b := by
  rw [joinOnRows_defined_iff, mapM_ok_iff]
  exact forall_congr' fun l => imp_congr_right fun _ => mapM_ok_iff _ rs

-- OBLIGATION: PysparklingVerif.C15.joinOn_old_code
/-- the code as it was ignored the join type: on this input its semi-join rows have four values under two columns -/
theorem joinOn_old_code :
    ∃ out, joinOnRowsOld (.gt (.col 0) (.lit (.int 1))) [[.int 2, .str "y"]] [[.int 1, .dbl 10]] = .ok out ∧
      ∃ r ∈ out, r.length ≠ (joinOnNames .semi ["k", "v"] ["k2", "w"]).length :=
  ⟨[[.int 2, .str "y", .int 1, .dbl 10]], by decide +kernel,
    [.int 2, .str "y", .int 1, .dbl 10], List.mem_singleton.mpr rfl, by decide +kernel⟩

-- OBLIGATION: PysparklingVerif.C15.sources_consistent
/-- createDataFrame (rejecting ragged input) and range produce consistent frames; range has the
arithmetic-progression length -/
theorem sources_consistent (names : List String) (rows : List Row) (d : DF) (start stop : Int) (step : Nat) :
    (create names rows = .ok d → d.Consistent ∧ d.names = names ∧ d.rows = rows) ∧
    -- `range()` rejects a zero step (as Python's `range` does): the claims about `range` are made for a positive step. An
    -- empty range (stop ≤ start) is an empty frame with the column `id` (REPAIRED: its schema was inferred from the data)
    (0 < step →
      (range start stop step).Consistent ∧ (range start stop step).names = ["id"] ∧
      ((range start stop step).rows.length : Int) = ((stop - start).toNat + step - 1) / step ∧
      (start < stop → (range start stop step).rows ≠ []) ∧ (stop ≤ start → (range start stop step).rows = [])) := by
  refine ⟨fun hc => ?_, fun hs => ⟨?_, rfl, ?_, fun hlt => ?_, fun hle => ?_⟩⟩
  · unfold create at hc
    split at hc
    · rename_i hall
      cases hc
      exact ⟨fun r hr => by simpa using List.all_eq_true.mp hall r hr, rfl, rfl⟩
    · cases hc
  · intro r hr
    unfold range at hr
    obtain ⟨i, _, rfl⟩ := List.mem_map.mp hr
    rfl
  · unfold range
    rw [if_neg (Nat.ne_of_gt hs)]
    simp only [List.length_map, List.length_range]
    rw [Int.natCast_ediv]
    congr 1
    omega
  · unfold range
    rw [if_neg (Nat.ne_of_gt hs)]
    intro h
    have hl := congrArg List.length h
    simp only [List.length_map, List.length_range, List.length_nil] at hl
    have h1 : 1 ≤ (stop - start).toNat := by omega
    have : step ≤ (stop - start).toNat + step - 1 := by omega
    have := Nat.div_pos this hs
    omega
  · unfold range
    rw [if_neg (Nat.ne_of_gt hs)]
    have h0 : (stop - start).toNat = 0 := by omega
    have : ((stop - start).toNat + step - 1) / step = 0 := by
      rw [h0]; exact Nat.div_eq_of_lt (by omega)
    rw [this]; rfl

/-- operations whose schema is fixed by the input schema alone -/
def Static : Op → Prop
  | .pivot _ _ none _ => False
  | _ => True

-- OBLIGATION: PysparklingVerif.C15.schema_is_static
/-- the schema side never looks at the data: two frames with the same column names get the same output
column names (the automatic pivot, whose columns ARE data, excepted) -/
theorem schema_is_static (d e : DF) (op : Op) (hs : Static op) (hn : d.names = e.names) :
    opNames d op = opNames e op := by
  cases op with
  | pivot keys pcol values aggs =>
    cases values with
    | none => exact hs.elim
    | some vs => rfl
  | _ => simp only [opNames, hn]

-- OBLIGATION: PysparklingVerif.C15.names_shape
/-- the shape of the derived schemas: joins list the key columns once, then the remaining left columns, then
(except for semi / anti joins) the remaining right columns, duplicates across the sides kept; aggregation
lists the keys then one column per aggregate; a pivot lists the keys then one column per pivot value (one
aggregate) or per (pivot value, aggregate) pair; row-only operations keep the names -/
theorem names_shape (d other : DF) (how : How) (on keys : List String) (aggs : List AggSpec) (mode : GroupMode)
    (pcol : String) (vs : List String) :
    opNames d (.join how on other) = .ok (on ++ d.names.filter (fun n => !on.contains n) ++
      (if how = .semi ∨ how = .anti then [] else other.names.filter fun n => !on.contains n)) ∧
    opNames d (.crossJoin other) = .ok (d.names ++ other.names) ∧
    opNames d (.agg mode keys aggs) = .ok (keys ++ aggs.map (·.name)) ∧
    (∀ ns, opNames d (.pivot keys pcol (some vs) aggs) = .ok ns →
      ns.length = keys.length + vs.length * aggs.length) ∧
    (∀ op, (match op with | .filter _ | .sort _ | .limit _ | .distinct | .sample _ | .repartition _ | .union _ => True | _ => False) →
      opNames d op = .ok d.names) := by
  refine ⟨rfl, rfl, rfl, fun ns hns => ?_, fun op hop => ?_⟩
  · simp only [opNames, pivotVals] at hns
    obtain ⟨pvs, hpvs, hns⟩ := bind_ok hns
    cases hpvs
    cases pure_ok hns
    rw [List.length_append, pivotNames_length, List.length_map, List.length_map]
  · cases op <;> first | exact hop.elim | rfl

-- OBLIGATION: PysparklingVerif.C15.row_only_ops
/-- filter, limit, distinct, sample and repartition return rows of the input (sort: a permutation) -/
theorem row_only_ops (d d' : DF) (op : Op)
    (hop : match op with | .filter _ | .limit _ | .distinct | .sample _ | .repartition _ | .sort _ => True | _ => False)
    (ha : apply d op = .ok d') :
    d'.names = d.names ∧ (∀ r ∈ d'.rows, r ∈ d.rows) ∧ d'.rows.length ≤ d.rows.length := by
  obtain ⟨ns, rs, hn, hr, rfl⟩ := apply_ok ha
  show ns = d.names ∧ (∀ r ∈ rs, r ∈ d.rows) ∧ rs.length ≤ d.rows.length
  cases op with
  | filter e => cases hn; exact ⟨rfl, filter_rows d e rs hr⟩
  | limit n => cases hn; exact ⟨rfl, limit_rows d n rs hr⟩
  | distinct => cases hn; exact ⟨rfl, distinct_rows d rs hr⟩
  | sample keep => cases hn; exact ⟨rfl, sample_rows d keep rs hr⟩
  | repartition n =>
    cases hn
    rw [repartition_rows d n rs hr]
    exact ⟨rfl, fun r hm => hm, Nat.le_refl _⟩
  | sort keys =>
    cases hn
    have hp := sort_rows d keys rs hr
    exact ⟨rfl, fun r hm => hp.mem_iff.mp hm, Nat.le_of_eq hp.length_eq⟩
  | _ => exact hop.elim

-- non-vacuity: a chain with a self-join on one key (duplicate names), an aggregation and a pivot
def demo : DF := ⟨["k", "s", "v"], [[.int 1, .str "x", .int 5], [.int 2, .str "y", .null], [.int 1, .str "z", .int 7]]⟩

example : demo.Consistent := by decide +kernel
example : ((run demo [.join .inner ["k"] demo, .rename "v" "s"]).toOption.map (·.names)) = some ["k", "s", "s", "s", "s"] := by
  decide +kernel
example : ((run demo [.agg .rollup ["k"] [⟨.sum, "v", none⟩, ⟨.countStar, "", some "n"⟩]]).toOption.map fun d => (d.names, d.rows)) =
    some (["k", "sum(v)", "n"], [[.null, .int 12, .int 3], [.int 1, .int 12, .int 2], [.int 2, .null, .int 1]]) := by decide +kernel
example : ((run demo [.pivot ["k"] "s" none [⟨.sum, "v", none⟩]]).toOption.map fun d => (d.names, d.rows)) =
    some (["k", "x", "y", "z"], [[.int 1, .int 5, .null, .int 7], [.int 2, .null, .null, .null]]) := by decide +kernel

-- OBLIGATION: PysparklingVerif.C15.rows_source_consistent
/-- createDataFrame over `Row` objects with differing sets (or orders) of fields: the frame is consistent, its columns
are the fields in order of first appearance, every value sits under its own name and a field a row lacks is null -/
theorem rows_source_consistent (rows : List (List (String × SV))) :
    (createFromRows rows).Consistent ∧
    (createFromRows rows).names = unionNames rows ∧
    (createFromRows rows).rows.length = rows.length ∧
    (∀ (i : Nat) (r : List (String × SV)), rows[i]? = some r →
      ∀ (j : Nat) (n : String), (unionNames rows)[j]? = some n →
        ((createFromRows rows).rows[i]?.bind (·[j]?)) = some ((r.lookup n).getD .null)) := by
  refine ⟨?_, rfl, by simp [createFromRows], ?_⟩
  · intro r hr
    simp only [createFromRows, List.mem_map] at hr
    obtain ⟨_, _, rfl⟩ := hr
    simp [createFromRows]
  · intro i r hi j n hj
    simp [createFromRows, List.getElem?_map, hi, hj]

-- OBLIGATION: PysparklingVerif.C15.rows_source_old_code
/-- the code as it was: the same input yields a frame that violates the invariant (first row: two values, three columns) -/
theorem rows_source_old_code :
    ¬ (createFromRowsOld [[("a", .int 1), ("b", .null)], [("a", .null), ("b", .str "x"), ("c", .dbl 2)]]).Consistent ∧
    (createFromRows [[("a", .int 1), ("b", .null)], [("a", .null), ("b", .str "x"), ("c", .dbl 2)]]).rows =
      [[.int 1, .null, .null], [.null, .str "x", .dbl 2]] := by
  constructor
  · decide
  · decide

end PysparklingVerif.C15
