/-
  C12 — DataFrame projection, filter, sort, limit and union match SQL semantics.
-/
import PysparklingVerif.Model.Sql
import PysparklingVerif.Lemmas.SqlLemmas
namespace PysparklingVerif.C12
open PysparklingVerif.Sql

-- OBLIGATION: PysparklingVerif.C12.eval_matches_reference
/-- MAIN: for every well-typed expression tree (any depth) over typed nullable columns and every row, the
implementation-shaped evaluation never fails and equals the SQL reference: nulls propagate through
arithmetic (+ - * / %) and comparison, division and remainder by zero are null, AND/OR/NOT are three-valued, `between` and `!=`
desugar correctly, int/double comparisons promote the int; the result has the static type or is null -/
theorem eval_matches_reference (cols : List Ty) (e : Expr) (t : Ty) (r : Row)
    (ht : HasTy cols e t) (hr : RowOk cols r) :
    evalM r e = .ok (evalS r e) ∧ (evalS r e = .null ∨ tyOf (evalS r e) = some t) :=
  eval_ok cols e t r ht hr

-- OBLIGATION: PysparklingVerif.C12.remainder_spec
/-- `%` is the SQL remainder: null when the divisor is zero (integer or double) or an operand is null; for integers the
remainder of the division truncated toward zero - `x = y * (x quot y) + r` with `|r| < |y|` and the sign of the dividend
(`-7 % 3 = -1`, `7 % -3 = 1`), not Python's floor remainder -/
theorem remainder_spec (x y : Int) :
    arithM .mod (.int x) (.int 0) = .ok .null ∧ arithM .mod (.int x) (.dbl 0) = .ok .null ∧
    arithM .mod (.dbl x) (.dbl 0) = .ok .null ∧ arithM .mod .null (.int y) = .ok .null ∧
    arithM .mod (.int x) .null = .ok .null ∧
    (y ≠ 0 → ∃ r : Int, arithM .mod (.int x) (.int y) = .ok (.int r) ∧ x = y * Int.tdiv x y + r ∧
      r.natAbs < y.natAbs ∧ (0 ≤ x → 0 ≤ r) ∧ (x ≤ 0 → r ≤ 0)) := by
  refine ⟨rfl, rfl, rfl, ?_, rfl, ?_⟩
  · simp [arithM]
  · intro hy
    exact ⟨Int.tmod x y, by simp [arithM, hy], tmod_bounds x y hy⟩

-- OBLIGATION: PysparklingVerif.C12.remainder_double_spec
/-- … and for doubles (as exact rationals) `x - y * trunc(x / y)`: it has the sign of the dividend and is smaller than the
divisor in absolute value -/
theorem remainder_double_spec (x y : Rat) (hy : y ≠ 0) :
    arithM .mod (.dbl x) (.dbl y) = .ok (.dbl (ratRem x y)) ∧
    (0 ≤ x → 0 ≤ ratRem x y) ∧ (x ≤ 0 → ratRem x y ≤ 0) ∧
    (ratRem x y < (if 0 ≤ y then y else -y)) ∧ ((if 0 ≤ y then -y else y) < ratRem x y) := by
  exact ⟨by simp [arithM, ratArith, hy], ratRem_bounds x y hy⟩

example : arithM .mod (.int (-7)) (.int 3) = .ok (.int (-1)) := by decide +kernel
example : arithM .mod (.int 7) (.int (-3)) = .ok (.int 1) := by decide +kernel
example : arithM .mod (.dbl (-15/2)) (.dbl 2) = .ok (.dbl (-3/2)) := by decide +kernel

-- OBLIGATION: PysparklingVerif.C12.filter_keeps_true
/-- filters keep exactly the rows whose predicate is TRUE (not false, not null), in their order -/
theorem filter_keeps_true (cols : List Ty) (cond : Expr) (rows : List Row)
    (ht : HasTy cols cond .bool) (hr : ∀ r ∈ rows, RowOk cols r) :
    filterM cond rows = .ok (filterS cond rows) :=
  filter_ok cols cond rows ht hr

/-- the comparison of one sort key is a total preorder on the rows at hand -/
def KeyOrderOk (k : SortKey) (rows : List Row) : Prop :=
  (∀ a ∈ rows, ∀ b ∈ rows, keyLe k.nullsSmaller (keyOf k a) (keyOf k b) = true ∨
      keyLe k.nullsSmaller (keyOf k b) (keyOf k a) = true) ∧
  (∀ a ∈ rows, ∀ b ∈ rows, ∀ c ∈ rows, keyLe k.nullsSmaller (keyOf k a) (keyOf k b) = true →
      keyLe k.nullsSmaller (keyOf k b) (keyOf k c) = true → keyLe k.nullsSmaller (keyOf k a) (keyOf k c) = true)

/-- the sort key evaluates on every row at hand, and any two non-null key values can be compared (the code raises on a
key it cannot resolve or evaluate, and on values of different classes; the model's `keyOf` / `keyLe` would read such a
key as null / as "in order") -/
def KeyEvalOk (k : SortKey) (rows : List Row) : Prop :=
  (∀ a ∈ rows, (evalM a k.e).toOption.isSome = true) ∧
  (∀ a ∈ rows, ∀ b ∈ rows, keyOf k a = .null ∨ keyOf k b = .null ∨ (cmpM .le (keyOf k a) (keyOf k b)).toOption.isSome = true)

-- OBLIGATION: PysparklingVerif.C12.sort_perm_sorted
/-- `orderBy`: the multi-pass stable sort returns a permutation that is ordered lexicographically by the
key list, honouring each key's direction and nulls-first/last placement -/
theorem sort_perm_sorted (keys : List SortKey) (rows : List Row) (hk : ∀ k ∈ keys, KeyOrderOk k rows)
    (_he : ∀ k ∈ keys, KeyEvalOk k rows) :
    (sortM keys rows).Perm rows ∧ (sortM keys rows).Pairwise (fun a b => lexLe keys a b = true) :=
  ⟨sortM_perm keys rows, sortM_sorted keys rows hk⟩

-- OBLIGATION: PysparklingVerif.C12.sort_stable
/-- … and is stable: rows that compare equal on every key keep their input order -/
theorem sort_stable (keys : List SortKey) (rows : List Row) (hk : ∀ k ∈ keys, KeyOrderOk k rows)
    (_he : ∀ k ∈ keys, KeyEvalOk k rows) (a b : Row) (hab : [a, b].Sublist rows) (heq : lexLe keys a b = true) :
    [a, b].Sublist (sortM keys rows) :=
  sortM_stable keys rows hk a b hab heq

-- OBLIGATION: PysparklingVerif.C12.limit_prefix
theorem limit_prefix (n : Nat) (rows : List Row) : limitM n rows <+: rows ∧ (limitM n rows).length = min n rows.length := by
  exact ⟨List.take_prefix n rows, List.length_take⟩

-- OBLIGATION: PysparklingVerif.C12.union_positional
/-- union is positional and keeps both sides in order; unionByName re-orders the right side by name -/
theorem union_positional (a b : List Row) (an bn : List String) (hn : an.Nodup) (hperm : bn.Perm an)
    (hb : ∀ r ∈ b, r.length = bn.length) :
    unionM a b = a ++ b ∧
    (unionByNameM an bn a b).take a.length = a ∧
    ∀ r ∈ b, ∀ n ∈ an, ∃ r' ∈ unionByNameM an bn a b, r'.getD (an.idxOf n) .null = r.getD (bn.idxOf n) .null := by
  refine ⟨rfl, by simp [unionByNameM], ?_⟩
  intro r hr n hn
  refine ⟨an.map fun n => r.getD (bn.idxOf n) .null, ?_, getD_map_idxOf an _ n hn⟩
  exact List.mem_append_right _ (List.mem_map.2 ⟨r, hr, rfl⟩)

-- OBLIGATION: PysparklingVerif.C12.dedup_spec
/-- distinct / dropDuplicates: exactly one row per key, every output row is an input row, every key of the
input is represented, and it is the FIRST row of that key -/
theorem dedup_spec (key : Row → Row) (rows : List Row) :
    ((dedupBy key rows).map key).Nodup ∧ (dedupBy key rows).Sublist rows ∧
    (∀ r ∈ rows, ∃ r' ∈ dedupBy key rows, key r' = key r ∧ rows.find? (fun x => key x == key r) = some r') :=
  dedup_ok key rows

theorem dropCols_names_aux (names : List String) (drop : List String) (k : Nat) :
    ((names.zipIdx k).filter fun (p : String × Nat) => !drop.contains p.1).map (·.1) =
      names.filter (fun n => !drop.contains n) := by
  induction names generalizing k with
  | nil => rfl
  | cons a t ih =>
    simp only [List.zipIdx_cons, List.filter_cons]
    split
    · simp only [List.map_cons]; rw [ih]
    · exact ih _

-- OBLIGATION: PysparklingVerif.C12.drop_every_column_of_that_name
/-- `drop(names)` removes EVERY column that carries one of the names (also when several columns carry it: after a join, a
rename onto an existing name, an alias) and keeps the others in their order; a name no column carries changes nothing -/
theorem drop_every_column_of_that_name (names cols : List String) (rows : List Row) :
    (dropCols names cols rows).1 = names.filter (fun n => !cols.contains n) ∧
    (∀ n ∈ (dropCols names cols rows).1, n ∉ cols) ∧
    ((∀ c ∈ cols, c ∉ names) → (dropCols names cols rows).1 = names) := by
  have h : (dropCols names cols rows).1 = names.filter (fun n => !cols.contains n) := by
    unfold dropCols
    exact dropCols_names_aux names cols 0
  refine ⟨h, ?_, ?_⟩
  · intro n hn
    rw [h, List.mem_filter] at hn
    simpa using hn.2
  · intro hc
    rw [h, List.filter_eq_self]
    intro n hn
    simp only [Bool.not_eq_true', List.contains_eq_mem, decide_eq_false_iff_not]
    intro hmem
    exact hc n hmem hn

-- OBLIGATION: PysparklingVerif.C12.withColumn_spec
/-- withColumn appends a new column, or replaces the existing column of that name in place -/
theorem withColumn_spec (names : List String) (name : String) (e : Expr) (rows : List Row)
    (hn : names.Nodup) (hr : ∀ r ∈ rows, r.length = names.length)
    (he : ∀ r ∈ rows, ∃ v, evalM r e = .ok v) :
    ∃ names' rows', withColumnM names name e rows = .ok (names', rows') ∧
      names' = (if names.contains name then names else names ++ [name]) ∧ rows'.length = rows.length ∧
      ∀ i (h : i < rows.length) (h' : i < rows'.length),
        evalM rows[i] e = .ok ((rows'[i]).getD (names'.idxOf name) .null) ∧
        ∀ n ∈ names, n ≠ name → (rows'[i]).getD (names'.idxOf n) .null = (rows[i]).getD (names.idxOf n) .null :=
  withColumn_ok names name e rows hr he

-- OBLIGATION: PysparklingVerif.C12.withColumn_positional
/-- the same WITHOUT the assumption that the names are unique - a projection may list a column twice (`select("i", "i", "d")`),
after which `idxOf` sees only the first copy: position by position, every column called `name` gets the new value and every
other position keeps the value it had (both copies of `i`); a new name is appended. (The unrepaired `withColumn` raised
"Reference 'i#N' is ambiguous" on such a frame: repaired in c4f04bd, found by the third hunt.) -/
theorem withColumn_positional (names : List String) (name : String) (e : Expr) (rows : List Row)
    (hr : ∀ r ∈ rows, r.length = names.length)
    (he : ∀ r ∈ rows, ∃ v, evalM r e = .ok v) :
    ∃ rows', withColumnM names name e rows = .ok (if names.contains name then names else names ++ [name], rows') ∧
      rows'.length = rows.length ∧
      ∀ i (h : i < rows.length) (h' : i < rows'.length), ∃ v, evalM rows[i] e = .ok v ∧
        (names.contains name = true → (rows'[i]).length = names.length ∧
          ∀ j (hj : j < names.length), (rows'[i])[j]? = if names[j] = name then some v else (rows[i])[j]?) ∧
        (names.contains name = false → rows'[i] = rows[i] ++ [v]) := by
  obtain ⟨vals, hvals, hlen, hget⟩ := mapM_ok (fun r => evalM r e) rows he
  unfold withColumnM
  rw [hvals]
  simp only [ok_bind]
  by_cases hc : names.contains name = true
  · rw [if_pos hc, if_pos hc]
    refine ⟨_, rfl, by simp [hlen], ?_⟩
    intro i h h'
    have hrl := hr rows[i] (List.getElem_mem h)
    refine ⟨vals[i]'(by omega), hget i h (by omega), ?_, ?_⟩
    · intro _
      simp only [List.getElem_map, List.getElem_zip]
      refine ⟨by simp [hrl], ?_⟩
      intro j hj
      have hj' : j < (rows[i]).length := by omega
      simp [List.getElem?_map, hj']
      split <;> simp_all
    · intro hf; rw [hc] at hf; exact absurd hf (by decide)
  · rw [if_neg hc, if_neg hc]
    refine ⟨_, rfl, by simp [hlen], ?_⟩
    intro i h h'
    refine ⟨vals[i]'(by omega), hget i h (by omega), ?_, ?_⟩
    · intro ht; exact absurd ht hc
    · intro _; simp

/-- SELECT a, a, b followed by a new value NOT b for b: both copies of a stay, b is replaced -/
example : withColumnM ["a", "a", "b"] "b" (.not (.col 2)) [[.int 1, .int 1, .bool true], [.null, .null, .null]]
    = .ok (["a", "a", "b"], [[.int 1, .int 1, .bool false], [.null, .null, .null]]) := by decide +kernel

-- non-vacuity
example : (evalM [.int 1, .null] (.and (.lt (.col 0) (.lit (.dbl (3/2)))) (.isNull (.col 1)))).toOption = some (.bool true) := by
  decide +kernel
example : (evalM [.bool false, .null] (.and (.col 0) (.col 1))).toOption = some (.bool false) := by decide +kernel
example : HasTy [.int, .bool] (.and (.lt (.col 0) (.lit (.dbl (3/2)))) (.isNull (.col 1))) .bool :=
  .and _ _ (.cmpNum Expr.lt _ _ .int .dbl (by simp) (by simp) (by simp) (.col 0 .int rfl) (.litDbl _)) (.isNull _ .bool (.col 1 .bool rfl))


-- OBLIGATION: PysparklingVerif.C12.partition_independent
/-- "The outcome does not depend on how the underlying data is partitioned": the row-wise operations (select,
withColumn, filter, drop; rename / toDF do not touch rows) applied partition by partition and then collected give
what they give on the collected rows — for every partitioning, empty partitions included, errors included — and
union is the concatenation of the partition lists. (sort, limit, distinct and dropDuplicates are functions of the
collected row list in the model by construction; the campaign runs them under 1..4 partitions.) -/
theorem partition_independent (ps qs : List (List Row)) (es : List Expr) (cond e : Expr) (names dropped : List String)
    (name : String) :
    ((ps.mapM (selectM es)).toOption.map List.flatten) = (selectM es ps.flatten).toOption ∧
    ((ps.mapM (filterM cond)).toOption.map List.flatten) = (filterM cond ps.flatten).toOption ∧
    ((ps.map fun p => (dropCols names dropped p).2).flatten) = (dropCols names dropped ps.flatten).2 ∧
    (∀ p ∈ ps, (dropCols names dropped p).1 = (dropCols names dropped ps.flatten).1) ∧
    ((ps.mapM (fun p => (withColumnM names name e p).map (·.2))).toOption.map List.flatten)
      = ((withColumnM names name e ps.flatten).map (·.2)).toOption ∧
    unionM ps.flatten qs.flatten = (ps ++ qs).flatten := by
  refine ⟨?_, ?_, ?_, fun _ _ => rfl, ?_, ?_⟩
  · rw [← toOption_map]
    exact congrArg _ (mapM_parts_flatten (fun r => es.mapM (evalM r)) ps)
  · rw [← toOption_map]
    exact congrArg _ (filterMapM_parts_flatten _ ps)
  · simp [dropCols, List.map_flatten]
  · rw [← toOption_map]
    simp only [withColumnM_rows_eq_mapM]
    exact congrArg _ (mapM_parts_flatten _ ps)
  · simp [unionM]


end PysparklingVerif.C12
