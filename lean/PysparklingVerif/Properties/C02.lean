/-
  C02 — Keyed, join and set operations follow Spark's multiset semantics.
  Property theorems only. Every statement is about ARBITRARY partitionings `a`, `b` of the two
  inputs and an arbitrary `numPartitions` argument `m`: results depend on the inputs only through
  `flat` (their collect), as multisets (`List.Perm`) or exactly where the order is defined.
-/
import PysparklingVerif.Model.Keyed
import PysparklingVerif.Properties.C07
import PysparklingVerif.Properties.C01
import PysparklingVerif.Lemmas.KeyedLemmas
namespace PysparklingVerif.C02
open PysparklingVerif.Rdd PysparklingVerif.Keyed

variable {κ ν ω : Type} [DecidableEq κ]

/-- the values of key `k` in input order -/
def vals (l : List (κ × ν)) (k : κ) : List ν := l.filterMap fun kv => if kv.1 = k then some kv.2 else none

/-- `vals` is the `kvals` of the lemma library -/
theorem vals_eq_kvals (l : List (κ × ν)) (k : κ) : vals l k = kvals l k := rfl

/-! ## grouping -/

-- OBLIGATION: PysparklingVerif.C02.groupByKey_spec
theorem groupByKey_spec (m : Option Nat) (ps : Parts (κ × ν)) :
    flat (groupByKey m ps) = groupList (flat ps) := by
  exact C07.parallelize_flat _ _

-- OBLIGATION: PysparklingVerif.C02.groupList_values_order
/-- the values grouped under one key keep their input order -/
theorem groupList_values_order (l : List (κ × ν)) (k : κ) :
    ((groupList l).lookup k).getD [] = vals l k := by
  exact groupList_lookup l k

-- OBLIGATION: PysparklingVerif.C02.groupList_keys
/-- exactly one group per distinct key, every key present, no empty group -/
theorem groupList_keys (l : List (κ × ν)) :
    ((groupList l).map (·.1)).Nodup ∧ (∀ k, k ∈ (groupList l).map (·.1) ↔ k ∈ l.map (·.1)) ∧
    (∀ g ∈ groupList l, g.2 ≠ []) := by
  exact ⟨groupList_nodup l, groupList_mem_keys l, fun g hg => (groupList_entry l g hg).2⟩

-- OBLIGATION: PysparklingVerif.C02.groupList_flat_perm
/-- nothing lost, nothing duplicated -/
theorem groupList_flat_perm (l : List (κ × ν)) :
    ((groupList l).flatMap fun g => g.2.map fun v => (g.1, v)).Perm l := by
  exact groupList_ungroup_perm l

-- OBLIGATION: PysparklingVerif.C02.reduceByKey_spec
theorem reduceByKey_spec (f : ν → ν → ν) (m : Option Nat) (ps : Parts (κ × ν)) :
    flat (reduceByKey f m ps) = (groupList (flat ps)).map (fun g => (g.1, reduce1 f g.2)) ∧
    (∀ g ∈ flat (reduceByKey f m ps), g.2 = reduce1 f (vals (flat ps) g.1) ∧ g.2 ≠ none) := by
  have h1 : flat (reduceByKey f m ps) = (groupList (flat ps)).map (fun g => (g.1, reduce1 f g.2)) := by
    show flat (Rdd.mapValues (reduce1 f) (groupByKey m ps)) = _
    rw [C01.mapValues_flat, groupByKey_spec]
  refine ⟨h1, ?_⟩
  intro g hg
  rw [h1] at hg
  obtain ⟨e, he, rfl⟩ := List.mem_map.mp hg
  obtain ⟨h2, h3⟩ := groupList_entry (flat ps) e he
  refine ⟨by rw [vals_eq_kvals, ← h2], ?_⟩
  show reduce1 f e.2 ≠ none
  cases h4 : e.2 with
  | nil => exact absurd h4 h3
  | cons x xs => simp [reduce1]

-- OBLIGATION: PysparklingVerif.C02.aggregateByKey_spec
/-- per key, the per-partition dicts combine to the sequential fold of that key's values —
for every assignment of the pairs to partitions — under Spark's homomorphism condition -/
theorem aggregateByKey_spec {β : Type} (z : β) (seq : β → ν → β) (comb : β → β → β)
    (hc : ∀ (b : β) (xs : List ν), comb b (xs.foldl seq z) = xs.foldl seq b)
    (ps : Parts (κ × ν)) (k : κ) :
    ((flat (aggregateByKey z seq comb ps)).map (·.1)).Nodup ∧
    (flat (aggregateByKey z seq comb ps)).lookup k =
      (if k ∈ (flat ps).map (·.1) then some ((vals (flat ps) k).foldl seq z) else none) := by
  exact aggregateByKey_lookup z seq comb hc ps k

-- OBLIGATION: PysparklingVerif.C02.countByKey_spec
theorem countByKey_spec (ps : Parts (κ × ν)) (k : κ) :
    (((countByKey ps).filter (·.1 == k)).map (·.2)).sum = ((flat ps).map (·.1)).count k ∧
    ((countByKey ps).map (·.1)).Nodup := by
  have h := C01.countByValue_eq (Rdd.map (·.1) ps) k
  rw [C01.map_flat] at h
  exact h

-- OBLIGATION: PysparklingVerif.C02.cogroup_spec
theorem cogroup_spec (a : Parts (κ × ν)) (b : Parts (κ × ω)) :
    ((flat (cogroup a b)).map (·.1)).Nodup ∧
    (∀ k, k ∈ (flat (cogroup a b)).map (·.1) ↔ (k ∈ (flat a).map (·.1) ∨ k ∈ (flat b).map (·.1))) ∧
    (∀ e ∈ flat (cogroup a b), e.2.1 = vals (flat a) e.1 ∧ e.2.2 = vals (flat b) e.1) := by
  rw [cogroup_flat]
  refine ⟨?_, ?_, ?_⟩
  · rw [List.map_map]
    exact (List.map_id _).symm ▸ dedup_nodup _
  · intro k
    rw [List.map_map]
    show k ∈ List.map id _ ↔ _
    rw [List.map_id, mem_dedup, List.mem_append, groupList_mem_keys, groupList_mem_keys]
  · intro e he
    obtain ⟨k, _, rfl⟩ := List.mem_map.mp he
    exact ⟨rfl, rfl⟩

/-! ## joins -/

-- OBLIGATION: PysparklingVerif.C02.join_perm
/-- every combination of matching-key values appears exactly once (duplicate keys multiply) -/
theorem join_perm (m : Option Nat) (a : Parts (κ × ν)) (b : Parts (κ × ω)) :
    (flat (join m a b)).Perm (specJoin (flat a) (flat b)) := by
  show (flat (Rdd.flatMap _ (groupByKey m a))).Perm _
  rw [C01.flatMap_flat, groupByKey_spec]
  simp only [valuesOf, groupList_lookup]
  refine (groupList_flatMap_perm
    (fun kv => (kvals (flat b) kv.1).map fun w => (kv.1, (kv.2, w))) (flat a)).trans (List.Perm.of_eq ?_)
  unfold specJoin
  apply flatMap_congr_mem
  intro kv _
  rw [← filter_map_snd_eq_kvals, List.map_map]
  rfl

-- OBLIGATION: PysparklingVerif.C02.join_count
theorem join_count [DecidableEq ν] [DecidableEq ω] (m : Option Nat) (a : Parts (κ × ν)) (b : Parts (κ × ω))
    (k : κ) (v : ν) (w : ω) :
    (flat (join m a b)).count (k, (v, w)) = (flat a).count (k, v) * (flat b).count (k, w) := by
  rw [(join_perm m a b).count_eq, count_specJoin]

-- OBLIGATION: PysparklingVerif.C02.leftOuterJoin_perm
theorem leftOuterJoin_perm (a : Parts (κ × ν)) (b : Parts (κ × ω)) :
    (flat (leftOuterJoin a b)).Perm (specLeftOuter (flat a) (flat b)) := by
  show (flat (Rdd.flatMap _ (groupByKey none a))).Perm _
  rw [C01.flatMap_flat, groupByKey_spec, specLeftOuter_eq]
  simp only [← outerOpt_valuesOf]
  exact groupList_flatMap_perm
    (fun kv => (outerOpt (valuesOf (groupList (flat b)) kv.1)).map fun w => (kv.1, (kv.2, w))) (flat a)

-- OBLIGATION: PysparklingVerif.C02.rightOuterJoin_perm
theorem rightOuterJoin_perm (a : Parts (κ × ν)) (b : Parts (κ × ω)) :
    (flat (rightOuterJoin a b)).Perm (specRightOuter (flat a) (flat b)) := by
  show (flat (Rdd.flatMap _ (groupByKey none b))).Perm _
  rw [C01.flatMap_flat, groupByKey_spec, specRightOuter_eq]
  simp only [← outerOpt_valuesOf]
  exact groupList_flatMap_perm
    (fun kw => (outerOpt (valuesOf (groupList (flat a)) kw.1)).map fun v => (kw.1, (v, kw.2))) (flat b)

-- OBLIGATION: PysparklingVerif.C02.fullOuterJoin_perm
theorem fullOuterJoin_perm (a : Parts (κ × ν)) (b : Parts (κ × ω)) :
    (flat (fullOuterJoin a b)).Perm (specFullOuter (flat a) (flat b)) := by
  show (flat (Rdd.flatMap _ (cogroup a b))).Perm _
  rw [C01.flatMap_flat, cogroup_flat, List.flatMap_map]
  have key := cogroup_flatMap_perm (flat a) (flat b)
    (fun k => (optVals (flat a) k).flatMap fun v => (optVals (flat b) k).map fun w => (k, (v, w)))
    (fun kv => (optVals (flat b) kv.1).map fun w => (kv.1, (some kv.2, w)))
    (fun kw => [(kw.1, (none, some kw.2))])
    (by
      intro k hk
      have h1 : kvals (flat a) k ≠ [] := fun e => (kvals_eq_nil_iff _ k).mp e hk
      simp only [optVals, List.isEmpty_eq_false_iff.mpr h1, Bool.false_eq_true, if_false,
        List.flatMap_map])
    (by
      intro k hk hk'
      have h1 : kvals (flat b) k ≠ [] := fun e => (kvals_eq_nil_iff _ k).mp e hk
      simp only [optVals, (kvals_eq_nil_iff _ k).mpr hk', List.isEmpty_eq_false_iff.mpr h1,
        List.isEmpty_nil, if_true, Bool.false_eq_true, if_false, List.flatMap_cons,
        List.flatMap_nil, List.append_nil, List.map_map]
      rw [List.map_eq_flatMap]
      rfl)
  refine key.trans (List.Perm.of_eq ?_)
  unfold specFullOuter
  show _ = _ ++ (rightOnly (flat a) (flat b)).map _
  rw [specLeftOuter_eq, List.map_flatMap, List.map_eq_flatMap (l := rightOnly (flat a) (flat b))]
  simp only [List.map_map]
  rfl

-- OBLIGATION: PysparklingVerif.C02.semi_anti_perm
theorem semi_anti_perm (a : Parts (κ × ν)) (b : Parts (κ × ω)) :
    (flat (leftSemiJoin a b)).Perm (specSemi (flat a) (flat b)) ∧
    (flat (leftAntiJoin a b)).Perm (specSubtractByKey (flat a) (flat b)) := by
  constructor
  · show (flat (Rdd.flatMap _ (groupByKey none a))).Perm _
    rw [C01.flatMap_flat, groupByKey_spec]
    simp only [valuesOf_isSome, ite_map_eq_flatMap]
    unfold specSemi
    rw [filter_eq_flatMap_ite]
    exact groupList_flatMap_perm
      (fun kv => if (flat b).any (·.1 == kv.1) = true then [kv] else []) (flat a)
  · show (flat (Rdd.flatMap _ (groupByKey none a))).Perm _
    rw [C01.flatMap_flat, groupByKey_spec]
    simp only [valuesOf_isSome, ite_nil_map_eq_flatMap]
    unfold specSubtractByKey
    rw [filter_eq_flatMap_ite]
    exact groupList_flatMap_perm
      (fun kv => if (!(flat b).any (·.1 == kv.1)) = true then [kv] else []) (flat a)

/-! ## set-like operations -/

-- OBLIGATION: PysparklingVerif.C02.subtractByKey_perm
theorem subtractByKey_perm (a : Parts (κ × ν)) (b : Parts (κ × ω)) :
    (flat (subtractByKey a b)).Perm (specSubtractByKey (flat a) (flat b)) := by
  show (flat (Rdd.flatMapValues _ (Rdd.filter _ (cogroup a b)))).Perm _
  rw [C01.flatMapValues_flat, C01.filter_flat, cogroup_flat, List.filter_map, List.flatMap_map,
    filter_flatMap_ite]
  have key := cogroup_flatMap_perm (flat a) (flat b)
    (fun k => if (!(kvals (flat a) k).isEmpty && (kvals (flat b) k).isEmpty) = true
      then (kvals (flat a) k).map fun v => (k, v) else [])
    (fun kv => if (kvals (flat b) kv.1).isEmpty = true then [kv] else [])
    (fun _ => [])
    (by
      intro k hk
      have h1 : kvals (flat a) k ≠ [] := fun e => (kvals_eq_nil_iff _ k).mp e hk
      simp only [List.isEmpty_eq_false_iff.mpr h1, Bool.not_false, Bool.true_and]
      exact ite_map_eq_flatMap _ _ _)
    (by
      intro k _ hk'
      simp [(kvals_eq_nil_iff _ k).mpr hk'])
  refine key.trans (List.Perm.of_eq ?_)
  unfold specSubtractByKey
  rw [filter_eq_flatMap_ite]
  simp only [kvals_isEmpty]
  simp

-- OBLIGATION: PysparklingVerif.C02.subtract_spec
theorem subtract_spec {α : Type} [DecidableEq α] (a b : Parts α) :
    flat (subtract a b) = (flat a).filter (fun e => !((flat b).contains e)) := by
  exact C01.filter_flat _ a

-- OBLIGATION: PysparklingVerif.C02.distinct_spec
theorem distinct_spec {α : Type} [DecidableEq α] (m : Option Nat) (a : Parts α) :
    (flat (distinct m a)).Nodup ∧ ∀ x, x ∈ flat (distinct m a) ↔ x ∈ flat a := by
  have h : flat (distinct m a) = dedup (flat a) := C07.parallelize_flat _ _
  rw [h]
  exact ⟨dedup_nodup _, mem_dedup _⟩

-- OBLIGATION: PysparklingVerif.C02.intersection_spec
theorem intersection_spec {α : Type} [DecidableEq α] (a b : Parts α) :
    (flat (intersection a b)).Nodup ∧ ∀ x, x ∈ flat (intersection a b) ↔ (x ∈ flat a ∧ x ∈ flat b) := by
  have h : flat (intersection a b) = (dedup (flat a)).filter fun x => (flat b).contains x :=
    flat_singleton _
  rw [h]
  refine ⟨(dedup_nodup _).filter _, ?_⟩
  intro x
  rw [List.mem_filter, mem_dedup, List.contains_iff_mem]

-- OBLIGATION: PysparklingVerif.C02.cartesian_eq
theorem cartesian_eq {α β : Type} (a : Parts α) (b : Parts β) :
    flat (cartesian a b) = (flat a).flatMap fun x => (flat b).map fun y => (x, y) := by
  exact flat_singleton _

-- OBLIGATION: PysparklingVerif.C02.sortByKey_spec
/-- `sortByKey` is a stable sort of the collected pairs by key, for every partitioning and `m`:
a permutation, ordered by key (for a total, transitive `le`), and pairs that are already in
key order keep their relative order -/
theorem sortByKey_spec (le : κ → κ → Bool) (m : Option Nat) (ps : Parts (κ × ν))
    (htot : ∀ x y, le x y || le y x) (htrans : ∀ x y z, le x y → le y z → le x z) :
    flat (sortByKey le true m ps) = pySorted (·.1) le true (flat ps) ∧
    (pySorted (·.1) le true (flat ps)).Perm (flat ps) ∧
    (pySorted (·.1) le true (flat ps)).Pairwise (fun x y => le x.1 y.1) ∧
    (∀ x y, le x.1 y.1 → [x, y].Sublist (flat ps) → [x, y].Sublist (pySorted (·.1) le true (flat ps))) := by
  refine ⟨C07.parallelize_flat _ _, ?_, ?_, ?_⟩
  · exact List.mergeSort_perm _ _
  · exact List.pairwise_mergeSort (le := fun a b : κ × ν => le a.1 b.1)
      (fun a b c => htrans a.1 b.1 c.1) (fun a b => htot a.1 b.1) _
  · intro x y hxy hsub
    exact List.pair_sublist_mergeSort (le := fun a b : κ × ν => le a.1 b.1)
      (fun a b c => htrans a.1 b.1 c.1) (fun a b => htot a.1 b.1) hxy hsub

/-! ## non-vacuity -/

example : flat (join none [[(1, "a")], [(1, "b")]] [[(1, "x"), (1, "y")]]) =
    [(1, ("a", "x")), (1, ("a", "y")), (1, ("b", "x")), (1, ("b", "y"))] := by decide
example : flat (leftOuterJoin [[(1, "a"), (2, "b")]] [[(1, "x")]]) = [(1, ("a", some "x")), (2, ("b", none))] := by decide
example : groupList [(1, "a"), (2, "b"), (1, "c")] = [(1, ["a", "c"]), (2, ["b"])] := by decide

end PysparklingVerif.C02
