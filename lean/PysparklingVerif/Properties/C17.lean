/-
  C17 — Statistical summaries agree with two-pass formulas for any partitioning.
  Property theorems only (exact rational arithmetic; the 1e-9 float tolerance is sampled by
  the correspondence run).
-/
import PysparklingVerif.Model.Stats
import PysparklingVerif.Lemmas.StatsLemmas
namespace PysparklingVerif.C17
open PysparklingVerif.Stats

/-- the state `s` summarises exactly the list `xs` (two-pass values). For `xs = []` the code's
fields are `mu = 0.0`, `m2 = 0.0`, which is also what `mean []`/`ssd []` evaluate to. -/
def Rep (s : SC) (xs : List Rat) : Prop :=
  s.n = xs.length ∧ s.mu = mean xs ∧ s.m2 = ssd xs ∧ s.maxV = lmax xs ∧ s.minV = lmin xs

-- OBLIGATION: PysparklingVerif.C17.init_rep
theorem init_rep : Rep SC.init [] := by
  simp [Rep, SC.init, lmax, lmin]

-- OBLIGATION: PysparklingVerif.C17.add_rep
/-- Welford update -/
theorem add_rep (s : SC) (xs : List Rat) (x : Rat) (h : Rep s xs) : Rep (s.add x) (xs ++ [x]) := by
  obtain ⟨hn, hmu, hm2, hmax, hmin⟩ := h
  refine ⟨by simp [SC.add, hn], ?_, ?_, ?_, ?_⟩
  · simp only [SC.add, hmu, hn, mean_eq, s1_append, s1_singleton, List.length_append,
      List.length_singleton]
    push_cast
    rcases eq_or_ne xs [] with rfl | hne
    · simp
    · exact welford_mu _ _ _ (length_cast_pos xs hne)
  · simp only [SC.add, hmu, hm2, hn, mean_eq, ssd_eq, s1_append, s2_append, s1_singleton,
      s2_singleton, List.length_append, List.length_singleton]
    push_cast
    rcases eq_or_ne xs [] with rfl | hne
    · simp
    · exact welford_ck _ _ _ _ _ _ (length_cast_pos xs hne)
  · simp only [SC.add, hmax, lmax_snoc]
  · simp only [SC.add, hmin, lmin_snoc]

-- OBLIGATION: PysparklingVerif.C17.fold_is_spec
theorem fold_is_spec (xs : List Rat) : Rep (xs.foldl SC.add SC.init) xs := by
  have aux : ∀ (ys : List Rat) (acc : SC) (done : List Rat),
      Rep acc done → Rep (ys.foldl SC.add acc) (done ++ ys) := by
    intro ys
    induction ys with
    | nil => intro acc done h; simpa using h
    | cons y ys ih =>
      intro acc done h
      have := ih _ _ (add_rep _ _ y h)
      simpa [List.append_assoc] using this
  simpa using aux xs SC.init [] init_rep

-- OBLIGATION: PysparklingVerif.C17.merge_is_spec
/-- Chan merge, all three mean-update branches and both empty cases -/
theorem merge_is_spec (a b : SC) (xs ys : List Rat) (ha : Rep a xs) (hb : Rep b ys) :
    Rep (a.merge b) (xs ++ ys) := by
  obtain ⟨hn, hmu, hm2, hmax, hmin⟩ := ha
  obtain ⟨hn', hmu', hm2', hmax', hmin'⟩ := hb
  rcases eq_or_ne xs [] with rfl | hx
  · have ha0 : a.n = 0 := by simpa using hn
    simp only [SC.merge, ha0, if_true, List.nil_append]
    exact ⟨hn', hmu', hm2', hmax', hmin'⟩
  · have hxl : 0 < xs.length := List.length_pos_iff.mpr hx
    have ha0 : ¬ a.n = 0 := by omega
    rcases eq_or_ne ys [] with rfl | hy
    · have hb0 : b.n = 0 := by simpa using hn'
      simp only [SC.merge, ha0, hb0, if_false, ne_eq, not_true_eq_false, List.append_nil]
      exact ⟨hn, hmu, hm2, hmax, hmin⟩
    · have hyl : 0 < ys.length := List.length_pos_iff.mpr hy
      have hb0 : ¬ b.n = 0 := by omega
      have hxp := length_cast_pos xs hx
      have hyp := length_cast_pos ys hy
      simp only [SC.merge, ha0, hb0, if_false, ne_eq, not_false_eq_true, if_true]
      refine ⟨by simp [hn, hn'], ?_, ?_, ?_, ?_⟩
      · simp only [hmu, hmu', hn, hn', mean_eq, s1_append, List.length_append]
        push_cast
        split_ifs
        · exact chan_mu1 _ _ _ _ hxp hyp
        · exact chan_mu2 _ _ _ _ hxp hyp
        · exact chan_mu3 _ _ _ _ (fun h => absurd h (ne_of_gt hxp)) (ne_of_gt hyp)
      · simp only [hmu, hmu', hm2, hm2', hn, hn', mean_eq, ssd_eq, s1_append, s2_append,
          List.length_append]
        push_cast
        exact chan_m2 _ _ _ _ _ _ hxp hyp
      · simp only [hmax, hmax', lmax_append]
      · simp only [hmin, hmin', lmin_append]

-- OBLIGATION: PysparklingVerif.C17.stats_any_partitioning
/-- for EVERY split of the data into partitions (empty ones included) -/
theorem stats_any_partitioning (ps : List (List Rat)) : Rep (stats ps) ps.flatten := by
  have aux : ∀ (qs : List (List Rat)) (acc : SC) (done : List Rat), Rep acc done →
      Rep ((qs.map fun p => p.foldl SC.add SC.init).foldl SC.merge acc) (done ++ qs.flatten) := by
    intro qs
    induction qs with
    | nil => intro acc done h; simpa using h
    | cons q qs ih =>
      intro acc done h
      have := ih _ _ (merge_is_spec _ _ _ _ h (fold_is_spec q))
      simpa [List.append_assoc] using this
  simpa [stats] using aux ps SC.init [] init_rep

/-- an arbitrary merge tree over partial summaries -/
inductive MTree where
  | leaf (xs : List Rat)
  | node (l r : MTree)

def MTree.eval : MTree → SC
  | .leaf xs => xs.foldl SC.add SC.init
  | .node l r => (l.eval).merge (r.eval)

def MTree.leaves : MTree → List Rat
  | .leaf xs => xs
  | .node l r => l.leaves ++ r.leaves

-- OBLIGATION: PysparklingVerif.C17.stats_any_merge_tree
/-- … and EVERY order / tree in which the partial summaries are merged -/
theorem stats_any_merge_tree (t : MTree) : Rep t.eval t.leaves := by
  induction t with
  | leaf xs => exact fold_is_spec xs
  | node l r ihl ihr => exact merge_is_spec _ _ _ _ ihl ihr

-- OBLIGATION: PysparklingVerif.C17.self_merge_doubles
theorem self_merge_doubles (s : SC) (xs : List Rat) (h : Rep s xs) : Rep s.selfMerge (xs ++ xs) :=
  merge_is_spec s s xs xs h h

-- OBLIGATION: PysparklingVerif.C17.finishers
/-- count / sum / mean / variance / sampleVariance / min / max are the textbook two-pass values -/
theorem finishers (s : SC) (xs : List Rat) (h : Rep s xs) :
    s.count = xs.length ∧ s.sum = lsum xs ∧ s.mean = mean xs ∧
    (xs ≠ [] → s.variance = some (ssd xs / xs.length)) ∧
    (2 ≤ xs.length → s.sampleVariance = some (ssd xs / ((xs.length : Rat) - 1))) ∧
    s.maxV = lmax xs ∧ s.minV = lmin xs := by
  obtain ⟨hn, hmu, hm2, hmax, hmin⟩ := h
  refine ⟨hn, ?_, hmu, ?_, ?_, hmax, hmin⟩
  · simp only [SC.sum, hn, hmu, mean_eq, s1]
    rcases eq_or_ne xs [] with rfl | hne
    · simp
    · have := ne_of_gt (length_cast_pos xs hne)
      field_simp
  · intro hne
    have hxl : 0 < xs.length := List.length_pos_iff.mpr hne
    have h0 : ¬ s.n = 0 := by omega
    rw [SC.variance, if_neg h0, hm2, hn]
  · intro h2
    have h1 : ¬ s.n ≤ 1 := by omega
    rw [SC.sampleVariance, if_neg h1, hm2, hn]

-- OBLIGATION: PysparklingVerif.C17.empty_summary
/-- an empty dataset (any number of empty partitions) reports count 0 and NaN variances -/
theorem empty_summary (ps : List (List Rat)) (h : ps.flatten = []) :
    (stats ps).count = 0 ∧ (stats ps).variance = none ∧ (stats ps).sampleVariance = none := by
  have hrep := stats_any_partitioning ps
  rw [h] at hrep
  have h0 : (stats ps).n = 0 := by simpa using hrep.1
  simp [SC.count, SC.variance, SC.sampleVariance, h0]

/-! ## covariance / correlation -/

def CovRep (c : Cov) (ps : List (Rat × Rat)) : Prop :=
  c.count = ps.length ∧ c.xAvg = mean (ps.map (·.1)) ∧ c.yAvg = mean (ps.map (·.2)) ∧
  c.ck = scp ps ∧ c.mkX = ssd (ps.map (·.1)) ∧ c.mkY = ssd (ps.map (·.2))

-- OBLIGATION: PysparklingVerif.C17.cov_add_rep
theorem cov_add_rep (c : Cov) (ps : List (Rat × Rat)) (x y : Rat) (h : CovRep c ps) :
    CovRep (c.add x y) (ps ++ [(x, y)]) := by
  obtain ⟨hn, hx, hy, hck, hmx, hmy⟩ := h
  refine ⟨by simp [Cov.add, hn], ?_, ?_, ?_, ?_, ?_⟩
  all_goals
    simp only [Cov.add, hn, hx, hy, hck, hmx, hmy, mean_eq, ssd_eq, scp_eq, List.map_append,
      List.map_cons, List.map_nil, s1_append, s2_append, sxy_append, s1_singleton, s2_singleton,
      sxy_singleton, List.length_append, List.length_map, List.length_singleton]
    push_cast
    rcases eq_or_ne ps [] with rfl | hne
    · simp
    · first
      | exact welford_mu _ _ _ (length_cast_pos ps hne)
      | exact welford_ck _ _ _ _ _ _ (length_cast_pos ps hne)

-- OBLIGATION: PysparklingVerif.C17.cov_merge_is_spec
theorem cov_merge_is_spec (a b : Cov) (ps qs : List (Rat × Rat)) (ha : CovRep a ps) (hb : CovRep b qs) :
    CovRep (a.merge b) (ps ++ qs) := by
  obtain ⟨hn, hx, hy, hck, hmx, hmy⟩ := ha
  obtain ⟨hn', hx', hy', hck', hmx', hmy'⟩ := hb
  rcases eq_or_ne qs [] with rfl | hq
  · have hb0 : ¬ b.count > 0 := by simp [hn']
    simp only [Cov.merge, hb0, if_false, List.append_nil]
    exact ⟨hn, hx, hy, hck, hmx, hmy⟩
  · have hql : 0 < qs.length := List.length_pos_iff.mpr hq
    have hb0 : b.count > 0 := by omega
    have hqp := length_cast_pos qs hq
    simp only [Cov.merge, hb0, if_true]
    refine ⟨by simp [hn, hn'], ?_, ?_, ?_, ?_, ?_⟩
    all_goals
      simp only [hn, hn', hx, hx', hy, hy', hck, hck', hmx, hmx', hmy, hmy', mean_eq, ssd_eq,
        scp_eq, List.map_append, s1_append, s2_append, sxy_append, List.length_append,
        List.length_map]
      push_cast
      rcases eq_or_ne ps [] with rfl | hp
      · simp [ne_of_gt hqp]
      · have hpp := length_cast_pos ps hp
        first
        | exact chan_mu_delta _ _ _ _ hpp hqp
        | exact chan_ck _ _ _ _ _ _ _ _ hpp hqp

-- OBLIGATION: PysparklingVerif.C17.cov_any_partitioning
theorem cov_any_partitioning (pss : List (List (Rat × Rat))) : CovRep (cov pss) pss.flatten := by
  have init : CovRep Cov.init [] := by simp [CovRep, Cov.init]
  have fold : ∀ (ys : List (Rat × Rat)) (acc : Cov) (done : List (Rat × Rat)), CovRep acc done →
      CovRep (ys.foldl (fun c xy => c.add xy.1 xy.2) acc) (done ++ ys) := by
    intro ys
    induction ys with
    | nil => intro acc done h; simpa using h
    | cons y ys ih =>
      intro acc done h
      have := ih _ _ (cov_add_rep _ _ y.1 y.2 h)
      simpa [List.append_assoc] using this
  have aux : ∀ (qs : List (List (Rat × Rat))) (acc : Cov) (done : List (Rat × Rat)),
      CovRep acc done →
      CovRep ((qs.map fun p => p.foldl (fun c xy => c.add xy.1 xy.2) Cov.init).foldl Cov.merge acc)
        (done ++ qs.flatten) := by
    intro qs
    induction qs with
    | nil => intro acc done h; simpa using h
    | cons q qs ih =>
      intro acc done h
      have hq : CovRep (q.foldl (fun c xy => c.add xy.1 xy.2) Cov.init) q := by
        simpa using fold q Cov.init [] init
      have := ih _ _ (cov_merge_is_spec _ _ _ _ h hq)
      simpa [List.append_assoc] using this
  simpa [cov] using aux pss Cov.init [] init

-- OBLIGATION: PysparklingVerif.C17.cov_finishers
/-- `cov` = sample covariance; `corr = Ck / sqrt(MkX·MkY)` is Pearson's r because `Ck`, `MkX`, `MkY`
are exactly the co-moment and the two sums of squared deviations -/
theorem cov_finishers (c : Cov) (ps : List (Rat × Rat)) (h : CovRep c ps) :
    (2 ≤ ps.length → c.covarSamp = some (scp ps / ((ps.length : Rat) - 1))) ∧
    (ps ≠ [] → c.covarPop = some (scp ps / ps.length)) ∧
    (ps.length ≤ 1 → c.covarSamp = none) ∧
    c.ck = scp ps ∧ c.mkX = ssd (ps.map (·.1)) ∧ c.mkY = ssd (ps.map (·.2)) := by
  obtain ⟨hn, hx, hy, hck, hmx, hmy⟩ := h
  refine ⟨?_, ?_, ?_, hck, hmx, hmy⟩
  · intro h2
    have h1 : ¬ c.count ≤ 1 := by omega
    rw [Cov.covarSamp, if_neg h1, hck, hn]
  · intro hne
    have hl : 0 < ps.length := List.length_pos_iff.mpr hne
    have h0 : ¬ c.count = 0 := by omega
    rw [Cov.covarPop, if_neg h0, hck, hn]
  · intro h1
    have h1' : c.count ≤ 1 := by omega
    rw [Cov.covarSamp, if_pos h1']

-- OBLIGATION: PysparklingVerif.C17.corr_is_pearson_or_nan
/-- `corr` is Pearson's r (its square, the root not being rational) of the textbook co-moments, and NaN exactly where
these are degenerate - in particular for an empty dataset and for a single row, for every partitioning -/
theorem corr_is_pearson_or_nan (c : Cov) (ps : List (Rat × Rat)) (h : CovRep c ps) :
    (c.corrSq = if ssd (ps.map (·.1)) * ssd (ps.map (·.2)) = 0 then none
                else some (scp ps * scp ps / (ssd (ps.map (·.1)) * ssd (ps.map (·.2))))) ∧
    (ps.length ≤ 1 → c.corrSq = none) := by
  obtain ⟨_, _, _, hck, hmx, hmy⟩ := h
  refine ⟨by rw [Cov.corrSq, hck, hmx, hmy], ?_⟩
  intro h1
  have hz : ssd (ps.map (·.1)) = 0 := by
    match ps, h1 with
    | [], _ => simp [ssd, lsum]
    | [p], _ => simp [ssd, lsum, mean]
  rw [Cov.corrSq, hmx, hz]; simp

-- OBLIGATION: PysparklingVerif.C17.merge_equal_means
/-- why the repaired merge keeps a constant column degenerate for EVERY split, also in floating point: when the two partial
means are equal the difference is zero, so the merged mean is the old mean minus zero times a weight and the sum of squared
deviations grows by zero times a weight - no division of a product by the count it was multiplied with (`0.1 * 3 / 3`)
takes place; and an empty counter (mean 0, count 0) takes over the other mean as `0 - (0 - m) * (n / n)`. (The text before
`0615c20` recomputed `(xAvg * count + other.xAvg * other.count) / totalCount`, which is the same rational number and a
different double.) Stated on the model, whose `Cov.merge` is the regenerated text (`Extracted.C17.covMerge_eq`). -/
theorem merge_equal_means (c o : Cov) (hx : c.xAvg = o.xAvg) :
    (c.merge o).xAvg = c.xAvg ∧ (c.merge o).mkX = (if o.count > 0 then c.mkX + o.mkX else c.mkX) := by
  unfold Cov.merge
  by_cases h : o.count > 0
  · simp [h, hx]
  · simp [h]

-- non-vacuity
example : (cov [[(1, 2)], [], [(2, 4), (3, 7)]]).corrSq = some (75 / 76) := by decide +kernel
example : (cov [[], []]).corrSq = none := by decide +kernel
example : (cov [[(1, 2)], [(1, 3)]]).corrSq = none := by decide +kernel
example : (stats [[1, 2], [], [3, 6]]).variance = some (7 / 2) := by decide +kernel
example : (stats [[], []]).variance = none := by decide +kernel
example : ((stats [[1, 2, 3]]).selfMerge).n = 6 := by decide +kernel

end PysparklingVerif.C17
