/-
  C18 — Casting follows Spark's conversion rules for all values.
  Property theorems only (helper lemmas: Lemmas/CastLemmas.lean).
-/
import PysparklingVerif.Lemmas.CastLemmas
namespace PysparklingVerif.C18
open PysparklingVerif.Cast

/-- The numeric branch of `_cast_to_bounded_type`, for ANY bounds of the form
`[-2^(b-1), 2^(b-1) - 1]`, is two's-complement wrap-around into `b` bits — for every integer. -/
theorem castBounded_wraps (b : Nat) (hb : 0 < b) (v : Int) :
    castBounded (-(2 ^ (b - 1) : Int)) (2 ^ (b - 1) - 1) v = wrap b v := by
  unfold castBounded wrap
  simp only [BitVec.toInt_ofInt]
  have hp : (2 : Int) ^ b = 2 * 2 ^ (b - 1) := by
    obtain ⟨k, rfl⟩ : ∃ k, b = k + 1 := ⟨b - 1, by omega⟩
    simp [Int.pow_succ]; omega
  have hpos : (0 : Int) < 2 ^ (b - 1) := Int.pow_pos (by decide)
  have hsize : (2 ^ (b - 1) - 1 - -(2 ^ (b - 1) : Int) + 1) = 2 ^ b := by omega
  simp only [hsize]
  rw [pymod_pos _ _ (by omega), pymod_neg _ _ (by omega)]
  have hcast : ((2 ^ b : Nat) : Int) = (2 : Int) ^ b := by simp
  rw [Int.bmod_def, hcast]
  have h1 := Int.emod_nonneg v (show (2 : Int) ^ b ≠ 0 by omega)
  have h2 := Int.emod_lt_of_pos v (show (0 : Int) < 2 ^ b by omega)
  have hdvd : (2 : Int) ^ b ∣ v ↔ v % 2 ^ b = 0 := Int.dvd_iff_emod_eq_zero
  split <;> split <;> (try split) <;> omega

-- OBLIGATION: PysparklingVerif.C18.cast_int_wraps
/-- casting any integer to byte/short/int/long = two's-complement wrap into 8/16/32/64 bits -/
theorem cast_int_wraps (w : Width) (v : Int) : castIntTo w v = wrap w.bits v := by
  cases w
  · exact castBounded_wraps 8 (by decide) v
  · exact castBounded_wraps 16 (by decide) v
  · exact castBounded_wraps 32 (by decide) v
  · exact castBounded_wraps 64 (by decide) v

-- OBLIGATION: PysparklingVerif.C18.cast_float_wraps
/-- a finite float `num / den` is first truncated toward zero, then wrapped (every finite float is such a ratio with a
positive denominator; the non-finite ones raise in the code and are not in the model) -/
theorem cast_float_wraps (w : Width) (num : Int) (den : Nat) (_hden : 0 < den) :
    castFloatTo w num den = wrap w.bits (Int.tdiv num den) := cast_int_wraps w _

-- OBLIGATION: PysparklingVerif.C18.cast_bool_wraps
theorem cast_bool_wraps (w : Width) (b : Bool) :
    castBoolTo w b = if b then 1 else 0 := by
  unfold castBoolTo; rw [cast_int_wraps]; cases w <;> cases b <;> decide

-- OBLIGATION: PysparklingVerif.C18.wrap_in_range
/-- sanity of the SPEC itself: the wrapped value is in range and congruent to the input -/
theorem wrap_in_range (w : Width) (v : Int) :
    w.minV ≤ wrap w.bits v ∧ wrap w.bits v ≤ w.maxV ∧ (2 ^ w.bits : Int) ∣ (v - wrap w.bits v) := by
  cases w <;> simp only [wrap, Width.bits, Width.minV, Width.maxV, BitVec.toInt_ofInt, Int.bmod_def] <;>
    split <;> refine ⟨?_, ?_, ?_⟩ <;> omega

-- OBLIGATION: PysparklingVerif.C18.cast_in_range_id
/-- in-range integers are unchanged -/
theorem cast_in_range_id (w : Width) (v : Int) (h : w.minV ≤ v ∧ v ≤ w.maxV) : castIntTo w v = v := by
  rw [cast_int_wraps]; unfold wrap
  simp only [BitVec.toInt_ofInt]
  rw [Int.bmod_def]
  cases w <;> simp [Width.bits, Width.minV, Width.maxV] at * <;> omega

-- OBLIGATION: PysparklingVerif.C18.int_string_roundtrip
/-- number → string → number: `int(str(z)) = z`, hence an in-range integer survives
`cast to string` followed by `cast to` its own width -/
theorem int_string_roundtrip (w : Width) (z : Int) (h : w.minV ≤ z ∧ z ≤ w.maxV) :
    castStrTo w (renderInt z) = some (some z) := by
  unfold castStrTo
  have hne : renderInt z ≠ [] := by
    cases z <;> simp [renderInt, renderNat_ne_nil]
  split
  · contradiction
  · rw [parseInt_renderInt]; simp [h]

-- OBLIGATION: PysparklingVerif.C18.string_out_of_range_null
theorem string_out_of_range_null (w : Width) (z : Int) (h : z < w.minV ∨ w.maxV < z) :
    castStrTo w (renderInt z) = some none := by
  unfold castStrTo
  have hne : renderInt z ≠ [] := by
    cases z <;> simp [renderInt, renderNat_ne_nil]
  split
  · contradiction
  · rw [parseInt_renderInt]
    have : ¬ (w.minV ≤ z ∧ z ≤ w.maxV) := by omega
    simp [this]

-- OBLIGATION: PysparklingVerif.C18.bool_string_roundtrip
theorem bool_string_roundtrip (b : Bool) : castStrBool (renderBool b) = some b := by
  cases b <;> decide

/-- apply a case mask to a lower-case word -/
def applyCase : List Bool → List Char → List Char
  | m :: ms, c :: cs => (if m then c.toUpper else c) :: applyCase ms cs
  | _, cs => cs

-- OBLIGATION: PysparklingVerif.C18.bool_any_case
/-- 'true' / 'false' in ANY letter case (all 2^4 resp. 2^5 variants, by exhaustive kernel
evaluation of the finite table) -/
theorem bool_any_case :
    (∀ m ∈ (List.range 16).map (fun k => (List.range 4).map (fun i => k.testBit i)),
        castStrBool (applyCase m "true".toList) = some true) ∧
    (∀ m ∈ (List.range 32).map (fun k => (List.range 5).map (fun i => k.testBit i)),
        castStrBool (applyCase m "false".toList) = some false) := by
  decide

-- OBLIGATION: PysparklingVerif.C18.bool_other_null
theorem bool_other_null (s : List Char) (h1 : lower s ≠ "true".toList) (h2 : lower s ≠ "false".toList) :
    castStrBool s = none := by
  unfold castStrBool; rw [if_neg h1, if_neg h2]

-- OBLIGATION: PysparklingVerif.C18.cast_null_is_null
/-- casting null yields null for every pair of types the caster accepts (atomic types, binary, decimal, arrays, maps,
structs) and every target type except string (see the example below) -/
theorem cast_null_is_null (f t : Ty) (h : t ≠ .string) (hc : castable f t = true) : castNull f t = some none := by
  unfold castNull; split
  · rfl
  · rw [hc]; cases t <;> simp_all

-- OBLIGATION: PysparklingVerif.C18.cast_null_accepted
/-- … and the accepted pairs include every cast between two arrays, two maps, two structs, string to binary, and
every cast to an atomic type or decimal: none of these may fail on a null -/
theorem cast_null_accepted (f t : Ty) :
    ((f.isArray ∧ t.isArray) ∨ (f.isMap ∧ t.isMap) ∨ (f.isStruct ∧ t.isStruct) ∨ (f = .string ∧ t = .binary) ∨
      (t ≠ .binary ∧ !t.isArray ∧ !t.isMap ∧ !t.isStruct)) → castable f t = true := by
  cases f <;> cases t <;> decide

/-- KNOWN FINDING (pinned by the repo's test_cast_null_to_string): the model, like the code,
turns a null into the four-character string "null" when the target is string. -/
example : castNull .int .string = some (some "null") := by decide

-- non-vacuity
example : castIntTo .byte 200 = -56 := by decide
example : castIntTo .short (-32769) = 32767 := by decide
example : castStrTo .byte "  -128 ".toList = some (some (-128)) := by decide
example : castStrTo .byte "128".toList = some none := by decide


/-! ### date strings -/

/-- a non-empty run of ASCII digits -/
def IsDigits (s : List Char) : Prop := s ≠ [] ∧ ∀ c ∈ s, (digitVal c).isSome = true
/-- the optional time part: nothing, or a space or `T` followed by anything -/
def TimeTail (t : List Char) : Prop := t = [] ∨ ∃ rest, t = ' ' :: rest ∨ t = 'T' :: rest

-- OBLIGATION: PysparklingVerif.C18.date_string_forms
/-- a string of the form yyyy, yyyy-m[m] or yyyy-m[m]-d[d] (four year digits; month and day any non-empty digit
runs), optionally followed by a space or `T` and an arbitrary time part, casts to that calendar date when it
exists (missing month / day default to 1) and to null otherwise -/
theorem date_string_forms (ys ms ds tail : List Char) (y m d : Nat)
    (hy : IsDigits ys) (hy4 : ys.length = 4) (hm : IsDigits ms) (hd : IsDigits ds)
    (py : parseNat ys = some y) (pm : parseNat ms = some m) (pd : parseNat ds = some d) (ht : TimeTail tail) :
    castStrDate (ys ++ tail) = (if validDate y 1 1 then some ((y : Int), 1, 1) else none) ∧
    castStrDate (ys ++ '-' :: ms ++ tail) = (if validDate y m 1 then some ((y : Int), (m : Int), 1) else none) ∧
    castStrDate (ys ++ '-' :: ms ++ '-' :: ds ++ tail) = (if validDate y m d then some ((y : Int), (m : Int), (d : Int)) else none) := by
  obtain ⟨hyne, hyd⟩ := hy
  obtain ⟨_, hmd⟩ := hm
  obtain ⟨_, hdd⟩ := hd
  have dig : ∀ xs : List Char, (∀ c ∈ xs, (digitVal c).isSome = true) →
      ∀ c ∈ xs, c ≠ ' ' ∧ c ≠ 'T' ∧ isWs c = false := fun xs hx c hc =>
    ⟨(digit_char_facts c (hx c hc)).1, (digit_char_facts c (hx c hc)).2.1, (digit_char_facts c (hx c hc)).2.2.2.2⟩
  have nodash : ∀ xs : List Char, (∀ c ∈ xs, (digitVal c).isSome = true) → '-' ∉ xs := fun xs hx hc =>
    (digit_char_facts _ (hx _ hc)).2.2.1 rfl
  have hdash : '-' ≠ ' ' ∧ '-' ≠ 'T' ∧ isWs '-' = false := by decide
  have iy := parseInt_digits ys y hyd py
  have im := parseInt_digits ms m hmd pm
  have id := parseInt_digits ds d hdd pd
  refine ⟨?_, ?_, ?_⟩
  · rw [castStrDate_eq, dateCut_append ys tail hyne (dig ys hyd) ht, splitOn_of_not_mem _ _ (nodash ys hyd)]
    simp [dateOfComps, hy4, iy]
  · have hc : ∀ c ∈ ys ++ '-' :: ms, c ≠ ' ' ∧ c ≠ 'T' ∧ isWs c = false := by
      intro c hc
      simp only [List.mem_append, List.mem_cons] at hc
      rcases hc with h | rfl | h
      · exact dig ys hyd c h
      · exact hdash
      · exact dig ms hmd c h
    rw [castStrDate_eq, dateCut_append (ys ++ '-' :: ms) tail (by simp) hc ht,
      splitOn_append_sep _ _ _ (nodash ys hyd), splitOn_of_not_mem _ _ (nodash ms hmd)]
    simp [dateOfComps, hy4, iy, im]
  · have hc : ∀ c ∈ ys ++ '-' :: ms ++ '-' :: ds, c ≠ ' ' ∧ c ≠ 'T' ∧ isWs c = false := by
      intro c hc
      simp only [List.mem_append, List.mem_cons] at hc
      rcases hc with (h | rfl | h) | rfl | h
      · exact dig ys hyd c h
      · exact hdash
      · exact dig ms hmd c h
      · exact hdash
      · exact dig ds hdd c h
    have hassoc : ys ++ '-' :: ms ++ '-' :: ds = ys ++ '-' :: (ms ++ '-' :: ds) := by simp
    rw [castStrDate_eq, dateCut_append (ys ++ '-' :: ms ++ '-' :: ds) tail (by simp) hc ht, hassoc,
      splitOn_append_sep _ _ _ (nodash ys hyd), splitOn_append_sep _ _ _ (nodash ms hmd),
      splitOn_of_not_mem _ _ (nodash ds hdd)]
    simp [dateOfComps, hy4, iy, im, id]

-- OBLIGATION: PysparklingVerif.C18.valid_date_is_calendar
/-- `validDate` is the Gregorian calendar: months 1..12, days up to 31/30/28, 29 February exactly in leap years
(divisible by 4 and not by 100, or by 400), years 1..9999 -/
theorem valid_date_is_calendar (y m d : Nat) :
    validDate y m d = true ↔
      (1 ≤ y ∧ y ≤ 9999 ∧ 1 ≤ m ∧ m ≤ 12 ∧ 1 ≤ d ∧
        d ≤ (if m = 2 then (if (y % 4 = 0 ∧ y % 100 ≠ 0) ∨ y % 400 = 0 then 29 else 28)
             else if m = 4 ∨ m = 6 ∨ m = 9 ∨ m = 11 then 30 else 31)) :=
  validDate_iff y m d

example : castStrDate "2020-2-29 12:30:00".toList = some (2020, 2, 29) := by decide +kernel
example : castStrDate "2019-02-29".toList = none := by decide +kernel
example : castStrDate "1999T".toList = some (1999, 1, 1) := by decide +kernel
example : IsDigits "02".toList ∧ TimeTail " 12:30".toList := by
  refine ⟨⟨by decide, by decide⟩, Or.inr ⟨"12:30".toList, Or.inl rfl⟩⟩


end PysparklingVerif.C18
