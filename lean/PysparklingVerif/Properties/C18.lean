/-
  C18 — Casting follows Spark's conversion rules for all values.
  Property theorems only (helper lemmas: Lemmas/CastLemmas.lean).
-/
import PysparklingVerif.Lemmas.CastLemmas
namespace PysparklingVerif.C18
open PysparklingVerif.Cast

/-- The numeric branch of `_cast_to_bounded_type`, for ANY bounds of the form
`[-2^(b-1), 2^(b-1) - 1]`, is two's-complement wrap-around into `b` bits — for every integer. -/
theorem castBounded_wraps (b : Nat) (hb : 0 < b) (v : Int) :
    castBounded (-(2 ^ (b - 1) : Int)) (2 ^ (b - 1) - 1) v = wrap b v := by
  unfold castBounded wrap
  simp only [BitVec.toInt_ofInt]
  have hp : (2 : Int) ^ b = 2 * 2 ^ (b - 1) := by
    obtain ⟨k, rfl⟩ : ∃ k, b = k + 1 := ⟨b - 1, by omega⟩
    simp [Int.pow_succ]; omega
  have hpos : (0 : Int) < 2 ^ (b - 1) := Int.pow_pos (by decide)
  have hsize : (2 ^ (b - 1) - 1 - -(2 ^ (b - 1) : Int) + 1) = 2 ^ b := by omega
  simp only [hsize]
  rw [pymod_pos _ _ (by omega), pymod_neg _ _ (by omega)]
  have hcast : ((2 ^ b : Nat) : Int) = (2 : Int) ^ b := by simp
  rw [Int.bmod_def, hcast]
  have h1 := Int.emod_nonneg v (show (2 : Int) ^ b ≠ 0 by omega)
  have h2 := Int.emod_lt_of_pos v (show (0 : Int) < 2 ^ b by omega)
  have hdvd : (2 : Int) ^ b ∣ v ↔ v % 2 ^ b = 0 := Int.dvd_iff_emod_eq_zero
  split <;> split <;> (try split) <;> omega

-- OBLIGATION: PysparklingVerif.C18.cast_int_wraps
/-- casting any integer to byte/short/int/long = two's-complement wrap into 8/16/32/64 bits -/
theorem cast_int_wraps (w : Width) (v : Int) : castIntTo w v = wrap w.bits v := by
  cases w
  · exact castBounded_wraps 8 (by decide) v
  · exact castBounded_wraps 16 (by decide) v
  · exact castBounded_wraps 32 (by decide) v
  · exact castBounded_wraps 64 (by decide) v

-- OBLIGATION: PysparklingVerif.C18.cast_float_wraps
/-- a finite float is first truncated toward zero, then wrapped -/
theorem cast_float_wraps (w : Width) (num : Int) (den : Nat) :
    castFloatTo w num den = wrap w.bits (Int.tdiv num den) := cast_int_wraps w _

-- OBLIGATION: PysparklingVerif.C18.cast_bool_wraps
theorem cast_bool_wraps (w : Width) (b : Bool) :
    castBoolTo w b = if b then 1 else 0 := by
  unfold castBoolTo; rw [cast_int_wraps]; cases w <;> cases b <;> decide

-- OBLIGATION: PysparklingVerif.C18.wrap_in_range
/-- sanity of the SPEC itself: the wrapped value is in range and congruent to the input -/
theorem wrap_in_range (w : Width) (v : Int) :
    w.minV ≤ wrap w.bits v ∧ wrap w.bits v ≤ w.maxV ∧ (2 ^ w.bits : Int) ∣ (v - wrap w.bits v) := by
  cases w <;> simp only [wrap, Width.bits, Width.minV, Width.maxV, BitVec.toInt_ofInt, Int.bmod_def] <;>
    split <;> refine ⟨?_, ?_, ?_⟩ <;> omega

-- OBLIGATION: PysparklingVerif.C18.cast_in_range_id
/-- in-range integers are unchanged -/
theorem cast_in_range_id (w : Width) (v : Int) (h : w.minV ≤ v ∧ v ≤ w.maxV) : castIntTo w v = v := by
  rw [cast_int_wraps]; unfold wrap
  simp only [BitVec.toInt_ofInt]
  rw [Int.bmod_def]
  cases w <;> simp [Width.bits, Width.minV, Width.maxV] at * <;> omega

-- OBLIGATION: PysparklingVerif.C18.int_string_roundtrip
/-- number → string → number: `int(str(z)) = z`, hence an in-range integer survives
`cast to string` followed by `cast to` its own width -/
theorem int_string_roundtrip (w : Width) (z : Int) (h : w.minV ≤ z ∧ z ≤ w.maxV) :
    castStrTo w (renderInt z) = some (some z) := by
  unfold castStrTo
  have hne : renderInt z ≠ [] := by
    cases z <;> simp [renderInt, renderNat_ne_nil]
  split
  · contradiction
  · rw [parseInt_renderInt]; simp [h]

-- OBLIGATION: PysparklingVerif.C18.string_out_of_range_null
theorem string_out_of_range_null (w : Width) (z : Int) (h : z < w.minV ∨ w.maxV < z) :
    castStrTo w (renderInt z) = some none := by
  unfold castStrTo
  have hne : renderInt z ≠ [] := by
    cases z <;> simp [renderInt, renderNat_ne_nil]
  split
  · contradiction
  · rw [parseInt_renderInt]
    have : ¬ (w.minV ≤ z ∧ z ≤ w.maxV) := by omega
    simp [this]

-- OBLIGATION: PysparklingVerif.C18.bool_string_roundtrip
theorem bool_string_roundtrip (b : Bool) : castStrBool (renderBool b) = some b := by
  cases b <;> decide

/-- apply a case mask to a lower-case word -/
def applyCase : List Bool → List Char → List Char
  | m :: ms, c :: cs => (if m then c.toUpper else c) :: applyCase ms cs
  | _, cs => cs

-- OBLIGATION: PysparklingVerif.C18.bool_any_case
/-- 'true' / 'false' in ANY letter case (all 2^4 resp. 2^5 variants, by exhaustive kernel
evaluation of the finite table) -/
theorem bool_any_case :
    (∀ m ∈ (List.range 16).map (fun k => (List.range 4).map (fun i => k.testBit i)),
        castStrBool (applyCase m "true".toList) = some true) ∧
    (∀ m ∈ (List.range 32).map (fun k => (List.range 5).map (fun i => k.testBit i)),
        castStrBool (applyCase m "false".toList) = some false) := by
  decide

-- OBLIGATION: PysparklingVerif.C18.bool_other_null
theorem bool_other_null (s : List Char) (h1 : lower s ≠ "true".toList) (h2 : lower s ≠ "false".toList) :
    castStrBool s = none := by
  unfold castStrBool; rw [if_neg h1, if_neg h2]

-- OBLIGATION: PysparklingVerif.C18.cast_null_is_null
/-- casting null yields null for every target type except string (see `cast_null_string_witness`) -/
theorem cast_null_is_null (f t : Ty) (h : t ≠ .string) : castNull f t = some none := by
  unfold castNull; split
  · rfl
  · cases t <;> simp_all

/-- KNOWN FINDING (pinned by the repo's test_cast_null_to_string): the model, like the code,
turns a null into the four-character string "null" when the target is string. -/
example : castNull .int .string = some (some "null") := by decide

-- non-vacuity
example : castIntTo .byte 200 = -56 := by decide
example : castIntTo .short (-32769) = 32767 := by decide
example : castStrTo .byte "  -128 ".toList = some (some (-128)) := by decide
example : castStrTo .byte "128".toList = some none := by decide

end PysparklingVerif.C18
