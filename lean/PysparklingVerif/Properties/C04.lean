/-
  C04 — Failed tasks are retried, errors surface, and the context stays usable.
  Property theorems only.
-/
import PysparklingVerif.Model.Retry
import PysparklingVerif.Lemmas.RetryLemmas
namespace PysparklingVerif.C04
open PysparklingVerif.Retry

variable {α : Type}

-- OBLIGATION: PysparklingVerif.C04.task_retry_success
/-- a task failing `k < max` times and then succeeding returns its value after exactly `k + 1` attempts -/
theorem task_retry_success (maxR k : Nat) (e : Exc) (v : α) (hk : k < maxR) :
    (runTask maxR (failsThenOk k e v) maxR 0).result = .ok v ∧
    (runTask maxR (failsThenOk k e v) maxR 0).attempts = k + 1 := by
  rw [runTask_failsThenOk maxR k e v hk]
  exact ⟨rfl, rfl⟩

-- OBLIGATION: PysparklingVerif.C04.task_retry_exhausted
/-- a task whose every attempt fails gives the caller the exception of its LAST attempt, after
exactly `max` attempts (`1 ≤ max`) -/
theorem task_retry_exhausted (maxR : Nat) (hm : 1 ≤ maxR) (e : Nat → Exc) :
    (runTask (α := α) maxR (alwaysFails e) maxR 0).result = .error (e (maxR - 1)) ∧
    (runTask (α := α) maxR (alwaysFails e) maxR 0).attempts = maxR := by
  rw [runTask_alwaysFails maxR hm e]
  exact ⟨rfl, rfl⟩

-- OBLIGATION: PysparklingVerif.C04.task_general
/-- general form: if attempt `j < max` (0-based) is the first successful one the task returns its value
after `j + 1` attempts; if the first `max` attempts all fail, the caller gets attempt `max`'s exception -/
theorem task_general (maxR : Nat) (hm : 1 ≤ maxR) (outs : Nat → Outcome α) :
    (∀ j v, j < maxR → outs j = .ok v → (∀ i, i < j → ∃ e, outs i = .fail e) →
      (runTask maxR outs maxR 0).result = .ok v ∧ (runTask maxR outs maxR 0).attempts = j + 1) ∧
    ((∀ i, i < maxR → ∃ e, outs i = .fail e) →
      ∃ e, outs (maxR - 1) = .fail e ∧ (runTask maxR outs maxR 0).result = .error e ∧
        (runTask maxR outs maxR 0).attempts = maxR) := by
  refine ⟨?_, ?_⟩
  · intro j v hj hok hfail
    rw [runTask_first_ok maxR outs maxR 0 j v hj (Nat.zero_le _) (by omega)
      (fun i _ hi => hfail i hi) hok]
    exact ⟨rfl, rfl⟩
  · intro hfail
    obtain ⟨e, h1, h2⟩ := runTask_all_fail maxR outs maxR 0 (by omega) (by omega)
      (fun i _ hi => hfail i hi)
    exact ⟨e, h1, by rw [h2], by rw [h2]⟩

-- OBLIGATION: PysparklingVerif.C04.job_retry_success_exact
/-- if every partition `p` fails `ks[p] < max` times and then succeeds, the action returns exactly
the fault-free result and partition `p` was attempted exactly `ks[p] + 1` times -/
theorem job_retry_success_exact (maxR : Nat) (plan : List (Nat × Exc × α))
    (h : ∀ t ∈ plan, t.1 < maxR) :
    let r := runJob ⟨false⟩ maxR (plan.map fun t => failsThenOk t.1 t.2.1 t.2.2)
    r.result = .done (plan.map (·.2.2)) ∧ r.attempts = plan.map (·.1 + 1) ∧ r.ctx.locked = false := by
  intro r
  have hr : r = ⟨⟨false⟩, .done (plan.map (·.2.2)), plan.map (·.1 + 1)⟩ := by
    show runJob ⟨false⟩ maxR _ = _
    rw [runJob_unlocked, runTasks_all_ok maxR plan h]
  rw [hr]
  exact ⟨rfl, rfl, rfl⟩

-- OBLIGATION: PysparklingVerif.C04.job_retry_exhausted
/-- if the partitions before `p` eventually succeed and every attempt of `p` fails, the caller receives
`p`'s own (last-attempt) exception after exactly `max` attempts of `p`, no later partition is attempted,
and the context is unlocked -/
theorem job_retry_exhausted (maxR : Nat) (hm : 1 ≤ maxR) (pre : List (Nat × Exc × α))
    (hpre : ∀ t ∈ pre, t.1 < maxR) (e : Nat → Exc) (post : List (Nat → Outcome α)) :
    let r := runJob ⟨false⟩ maxR ((pre.map fun t => failsThenOk t.1 t.2.1 t.2.2) ++ [alwaysFails e] ++ post)
    r.result = .raised (e (maxR - 1)) ∧ r.attempts = pre.map (·.1 + 1) ++ [maxR] ∧ r.ctx.locked = false := by
  intro r
  have hr : r = ⟨⟨false⟩, .raised (e (maxR - 1)), pre.map (·.1 + 1) ++ [maxR]⟩ := by
    show runJob ⟨false⟩ maxR _ = _
    rw [runJob_unlocked, runTasks_exhausted maxR hm pre hpre e post]
  rw [hr]
  exact ⟨rfl, rfl, rfl⟩

-- OBLIGATION: PysparklingVerif.C04.nested_job_refused
/-- while a job runs (context locked) creating datasets or running actions is refused and changes nothing -/
theorem nested_job_refused (maxR : Nat) (plan : List (Nat → Outcome α)) (inner : Outcome α) :
    (runJob ⟨true⟩ maxR plan).result = .refused ∧ (runJob ⟨true⟩ maxR plan).ctx = ⟨true⟩ ∧
    (runJob ⟨true⟩ maxR plan).attempts = [] ∧ nestedAttempt ⟨true⟩ inner = .fail ctxLocked := by
  refine ⟨rfl, rfl, rfl, rfl⟩

-- OBLIGATION: PysparklingVerif.C04.lock_released
/-- after ANY job outcome on an unlocked context the context is unlocked again -/
theorem lock_released (maxR : Nat) (plan : List (Nat → Outcome α)) :
    (runJob ⟨false⟩ maxR plan).ctx.locked = false := by
  rw [runJob_unlocked_ctx]

-- OBLIGATION: PysparklingVerif.C04.context_stays_usable
/-- for EVERY history of jobs (failing, succeeding, in any order) on one context: the context ends
unlocked and every job's outcome equals what it gives on a fresh context -/
theorem context_stays_usable (maxR : Nat) (hist : List (List (Nat → Outcome α))) :
    (runHistory ⟨false⟩ maxR hist).1.locked = false ∧
    (runHistory ⟨false⟩ maxR hist).2 = hist.map fun j => (runJob ⟨false⟩ maxR j).result := by
  induction hist with
  | nil => exact ⟨rfl, rfl⟩
  | cons j js ih =>
    simp only [runHistory, runJob_unlocked_ctx, List.map_cons]
    exact ⟨ih.1, by rw [ih.2]⟩

/-- DEFECT WITNESS for the pinned code (`runJobBuggy`): one failed job leaves the context locked,
and the next job is refused. Replayed on the real code by the harness (fixed by a `fix:` commit). -/
example :
    let r1 := runJobBuggy (α := Nat) ⟨false⟩ 2 [alwaysFails fun _ => 7]
    r1.ctx.locked = true ∧ (runJobBuggy r1.ctx 2 [failsThenOk 0 7 1]).result = .refused := by decide

-- non-vacuity
example : (runJob ⟨false⟩ 3 [failsThenOk 2 5 10, failsThenOk 0 5 20]).result = .done [10, 20] := by decide
example : (runJob (α := Nat) ⟨false⟩ 3 [failsThenOk 1 5 10, alwaysFails fun i => 100 + i, failsThenOk 0 5 3]).attempts = [2, 3] := by decide

end PysparklingVerif.C04
