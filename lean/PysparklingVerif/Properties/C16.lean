/-
  C16 — Sampling is seed-deterministic and returns only existing elements.
  Property theorems only; every statement holds for EVERY stream of pseudo-random draws.
-/
import PysparklingVerif.Model.Sample
import PysparklingVerif.Lemmas.SampleLemmas
namespace PysparklingVerif.C16
open PysparklingVerif.Rdd PysparklingVerif.Sample

variable {α κ ν : Type}

-- OBLIGATION: PysparklingVerif.C16.bernoulli_sublist
/-- `sample(False, f)` is an order-preserving sub-multiset, partition by partition and overall -/
theorem bernoulli_sublist (f : Rat) (draws : List (List Rat)) (ps : Parts α) :
    (∀ (d : List Rat) (p : List α), (bernoulli f d p).Sublist p) ∧ (flat (sampleParts f draws ps)).Sublist (flat ps) :=
  ⟨fun d p => bernoulli_sublist_part f d p, flat_sampleParts_sublist f draws ps⟩

-- OBLIGATION: PysparklingVerif.C16.bernoulli_zero_one
/-- empty for `f = 0`, complete for `f = 1` (draws lie in `[0, 1)`; one draw per element) -/
theorem bernoulli_zero_one (d : List Rat) (p : List α) (h0 : ∀ r ∈ d, 0 ≤ r) (h1 : ∀ r ∈ d, r < 1)
    (hl : p.length ≤ d.length) : bernoulli 0 d p = [] ∧ bernoulli 1 d p = p :=
  ⟨bernoulli_zero d p h0, bernoulli_one d p h1 hl⟩

-- OBLIGATION: PysparklingVerif.C16.sample_seed_deterministic
/-- the sample of partition `i` is a function of that partition's data and of its own draw stream only
(the stream is a function of `seed + i`), so equal seed and partitioning give identical samples -/
theorem sample_seed_deterministic (f : Rat) (draws : List (List Rat)) (ps : Parts α) (i : Nat)
    (hi : i < ps.length) (hd : i < draws.length) :
    (sampleParts f draws ps)[i]? = some (bernoulli f draws[i] ps[i]) := by
  unfold sampleParts
  have hz : (ps.zip draws)[i]? = some (ps[i], draws[i]) :=
    List.getElem?_zip_eq_some.mpr ⟨List.getElem?_eq_getElem hi, List.getElem?_eq_getElem hd⟩
  rw [List.getElem?_map, hz]
  rfl

-- OBLIGATION: PysparklingVerif.C16.poisson_elements_exist
/-- `sample(True, …)`: every returned element is an element of the input (order-preserving repetition) -/
theorem poisson_elements_exist (counts : List Nat) (xs : List α) :
    (∀ y ∈ poissonExpand counts xs, y ∈ xs) ∧
    (∃ cs : List Nat, cs.length = xs.length ∧
      poissonExpand counts xs = (xs.zip cs).flatMap fun (x, c) => List.replicate c x) := by
  refine ⟨?_, poisson_counts counts xs⟩
  intro y hy
  unfold poissonExpand at hy
  obtain ⟨⟨x, c⟩, hq, hyq⟩ := List.mem_flatMap.mp hy
  have hyx : y = x := (List.mem_replicate.mp hyq).2
  rw [hyx]
  exact (List.of_mem_zip hq).1

-- OBLIGATION: PysparklingVerif.C16.perkey_absent
/-- `sampleByKey`: only input elements are returned, and keys whose fraction is 0 or missing never appear -/
theorem perkey_absent [DecidableEq κ] (fr : κ → Option Rat) (d : List Rat) (xs : List (κ × ν))
    (h0 : ∀ r ∈ d, 0 ≤ r) :
    (bernoulliByKey fr d xs).Sublist xs ∧
    ∀ e ∈ bernoulliByKey fr d xs, ∃ q, fr e.1 = some q ∧ 0 < q := by
  refine ⟨bernoulliByKey_sublist fr d xs, ?_⟩
  intro e he
  unfold bernoulliByKey at he
  obtain ⟨⟨x, r⟩, hq, hf⟩ := List.mem_filterMap.mp he
  have hr : 0 ≤ r := h0 r (List.of_mem_zip hq).2
  by_cases hlt : r < (fr x.1).getD 0
  · have hex : e = x := ite_some_eq (c := r < (fr x.1).getD 0) hf
    subst hex
    have hpos : 0 < (fr e.1).getD 0 := rat_lt_of_le_of_lt hr hlt
    cases hfe : fr e.1 with
    | none => rw [hfe] at hpos; exact absurd hpos Rat.lt_irrefl
    | some q => rw [hfe] at hpos; exact ⟨q, rfl, hpos⟩
  · have hf' : (if r < (fr x.1).getD 0 then some x else none) = some e := hf
    rw [if_neg hlt] at hf'
    cases hf'

-- OBLIGATION: PysparklingVerif.C16.randomSplit_partition
/-- for boundaries `0 = b0 ≤ b1 ≤ … ≤ bk` and draws in `[0, bk)`: every split is an order-preserving
sublist and every element lands in EXACTLY one split -/
theorem randomSplit_partition (bounds : List Rat) (draws : List Rat) (xs : List α)
    (hb0 : bounds.head? = some 0) (hmono : bounds.Pairwise (· ≤ ·))
    (hd : ∀ r ∈ draws, 0 ≤ r ∧ ∃ last, bounds.getLast? = some last ∧ r < last)
    (hl : xs.length ≤ draws.length) :
    (∀ s ∈ randomSplit bounds draws xs, s.Sublist xs) ∧
    ((randomSplit bounds draws xs).map List.length).sum = xs.length ∧
    (randomSplit bounds draws xs).flatten.Perm xs := by
  have hperm := randomSplit_perm bounds hb0 hmono draws xs hd hl
  refine ⟨?_, ?_, hperm⟩
  · intro s hs
    rw [randomSplit_eq] at hs
    obtain ⟨I, _, rfl⟩ := List.mem_map.mp hs
    exact splitOf_sublist I draws xs
  · rw [← List.length_flatten]
    exact hperm.length_eq

/-- an index list that is a permutation of `0 .. n-1` -/
def IsPerm (perm : List Nat) (n : Nat) : Prop := perm.Perm (List.range n)

-- OBLIGATION: PysparklingVerif.C16.takeSample_noRepl_small
/-- `takeSample(False, n)` with `n ≥ size`: exactly `size` elements, a permutation of the whole dataset -/
theorem takeSample_noRepl_small (num : Nat) (ps : Parts α) (perm0 : List Nat) (rounds : List (List α))
    (permF : List α → List Nat) (hn : (flat ps).length ≤ num)
    (hp : IsPerm perm0 (flat ps).length) :
    ∃ r, takeSample false num ps perm0 rounds permF = some r ∧ r.Perm (flat ps) := by
  have hinit : take num ps = flat ps := by
    unfold take; exact List.take_of_length_le hn
  unfold takeSample
  by_cases hz : num = 0
  · have : flat ps = [] := List.eq_nil_of_length_eq_zero (by omega)
    rw [if_pos hz, this]
    exact ⟨[], rfl, List.Perm.refl _⟩
  · rw [if_neg hz]
    simp only [hinit]
    by_cases he : (flat ps).isEmpty = true
    · rw [if_pos he]
      have : flat ps = [] := List.isEmpty_iff.mp he
      rw [this]
      exact ⟨[], rfl, List.Perm.refl _⟩
    · rw [if_neg he]
      have hc : (!false && decide (num ≥ (flat ps).length)) = true := by simp [hn]
      rw [if_pos hc]
      exact ⟨_, rfl, applyPerm_perm perm0 (flat ps) hp⟩

-- OBLIGATION: PysparklingVerif.C16.takeSample_noRepl_large
/-- `takeSample(False, n)` with `0 < n < size`: the initial `take(n)` already has `n` elements, so the
oversampling loop is never entered and the result is the shuffle `perm0` of the first `n` collected
elements: exactly `n` elements, a permutation of `take(n)`, hence a sub-multiset of the data -/
theorem takeSample_noRepl_large (num : Nat) (ps : Parts α) (perm0 : List Nat) (rounds : List (List α))
    (permF : List α → List Nat) (hn0 : 0 < num) (hn : num < (flat ps).length)
    (hp0 : IsPerm perm0 num)
    (r : List α) (h : takeSample false num ps perm0 rounds permF = some r) :
    r.length = num ∧ r.Perm ((flat ps).take num) ∧ ∃ l : List α, l.Perm r ∧ l.Sublist (flat ps) := by
  have hlen : ((flat ps).take num).length = num := by
    rw [List.length_take]; omega
  have hne : ((flat ps).take num).isEmpty = false := by
    cases hq : (flat ps).take num with
    | nil => rw [hq] at hlen; simp at hlen; omega
    | cons _ _ => rfl
  unfold takeSample at h
  rw [if_neg (by omega)] at h
  simp only [take, hne, hlen] at h
  have hc : (!false && decide (num ≥ num)) = true := by simp
  rw [if_neg (by simp), if_pos hc] at h
  have hr : r = applyPerm perm0 ((flat ps).take num) := (Option.some.inj h).symm
  have hperm : r.Perm ((flat ps).take num) := by
    rw [hr]
    apply applyPerm_perm
    rw [hlen]; exact hp0
  refine ⟨?_, hperm, (flat ps).take num, hperm.symm, List.take_sublist _ _⟩
  rw [hperm.length_eq, hlen]

-- OBLIGATION: PysparklingVerif.C16.takeSample_repl
/-- `takeSample(True, n)` on a non-empty dataset: whenever the loop ends, exactly `n` elements, all of
them elements of the dataset -/
theorem takeSample_repl (num : Nat) (ps : Parts α) (perm0 : List Nat) (rounds : List (List α))
    (permF : List α → List Nat) (hne : flat ps ≠ [])
    (hr : ∀ s ∈ rounds, ∀ y ∈ s, y ∈ flat ps) (hp : ∀ s ∈ rounds, IsPerm (permF s) s.length)
    (r : List α) (h : takeSample true num ps perm0 rounds permF = some r) :
    r.length = num ∧ ∀ y ∈ r, y ∈ flat ps := by
  unfold takeSample at h
  by_cases hz : num = 0
  · rw [if_pos hz] at h
    have : r = [] := (Option.some.inj h).symm
    subst this
    exact ⟨by simp [hz], by simp⟩
  · rw [if_neg hz] at h
    have hne : (take num ps).isEmpty = false := by
      unfold take
      cases hq : flat ps with
      | nil => exact absurd hq hne
      | cons a t =>
        cases num with
        | zero => exact absurd rfl hz
        | succ n => rfl
    simp only [hne] at h
    have hc : ¬ ((!true && decide (num ≥ (take num ps).length)) = true) := by simp
    rw [if_neg (by simp), if_neg hc] at h
    split at h
    · next s hs =>
      have hs1 : s.length ≥ num := by simpa using List.find?_some hs
      have hs2 : s ∈ rounds := List.mem_of_find?_eq_some hs
      have hperm := applyPerm_perm (permF s) s (hp s hs2)
      have hr' : r = (applyPerm (permF s) s).take num := (Option.some.inj h).symm
      subst hr'
      refine ⟨?_, ?_⟩
      · rw [List.length_take, hperm.length_eq]; omega
      · intro y hy
        exact hr s hs2 y (hperm.mem_iff.mp (List.mem_of_mem_take hy))
    · cases h

-- non-vacuity
example : bernoulli (1/2) [1/4, 3/4, 0] ["a", "b", "c"] = ["a", "c"] := by decide +kernel
example : randomSplit [0, 1/2, 1] [1/4, 3/4, 1/2] ["a", "b", "c"] = [["a"], ["b", "c"]] := by decide +kernel

end PysparklingVerif.C16
