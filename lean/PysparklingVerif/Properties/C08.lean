/-
  C08 — Saving and re-reading data is lossless for every codec and partition count.
  Property theorems only.
-/
import PysparklingVerif.Model.Save
import PysparklingVerif.Lemmas.TextIOLemmas
namespace PysparklingVerif.C08
open PysparklingVerif.TextIO PysparklingVerif.Save

/-- a string free of line-break characters -/
def Clean (l : Str) : Prop := ∀ c ∈ l, isLineBreak c = false

-- OBLIGATION: PysparklingVerif.C08.text_roundtrip
/-- writing lines with a trailing `\n` each and splitting them back is the identity — including empty
strings, an empty partition and an empty dataset -/
theorem text_roundtrip (ls : List Str) (h : ∀ l ∈ ls, Clean l) : splitlines (encodePart ls) = ls :=
  splitlines_encodePart ls h

-- OBLIGATION: PysparklingVerif.C08.part_names_sorted
/-- zero-padded part names sort (as strings) in numeric order below 10^5 partitions — the bound is real:
`part-100000` sorts before `part-99999` -/
theorem part_names_sorted (i j : Nat) (s : Str) (hij : i < j) (hj : j < 100000) :
    strLe (partName i s) (partName j s) = true ∧ strLe (partName j s) (partName i s) = false :=
  partName_strLe i j s hij hj

/-- the bound in `part_names_sorted` is needed -/
example : strLe (partName 100000 []) (partName 99999 []) = true := by decide

/-- the compression extensions of the property, with the codec their part files must get -/
def compExts : List (Str × Codec) :=
  [(".gz".toList, .gz), (".bz2".toList, .bz2), (".xz".toList, .lzma), (".lzma".toList, .lzma),
   (".zip".toList, .zip), (".tar".toList, .tar), (".tar.gz".toList, .gz), (".tar.bz2".toList, .bz2)]

-- OBLIGATION: PysparklingVerif.C08.compressed_parts_named
/-- when the target path carries a compression extension, every part file name carries one too, and both
the write path and the read path (they call the same `getCodec` on that name) select a real compression
codec for it — for every stem and every partition index -/
theorem compressed_parts_named (stem : Str) (i : Nat) (e : Str × Codec) (he : e ∈ compExts) :
    codecSuffix (stem ++ e.1) ≠ [] ∧
    getCodec (joinPath (stem ++ e.1) (partName i (codecSuffix (stem ++ e.1)))) = e.2 :=
  compressed_parts stem i e he

-- OBLIGATION: PysparklingVerif.C08.plain_parts_named
/-- a target without any dot gets plain part files -/
theorem plain_parts_named (path : Str) (i : Nat) (h : '.' ∉ path) :
    codecSuffix path = [] ∧ getCodec (joinPath path (partName i [])) = .base :=
  plain_parts path i h

-- OBLIGATION: PysparklingVerif.C08.save_read_roundtrip
/-- saveAsTextFile with ≥ 2 partitions followed by textFile of the directory returns the same strings
in the same order (fault-free run; fewer than 10^5 partitions; lines free of line breaks; any codec) -/
theorem save_read_roundtrip (fs : FS) (path : Str) (parts : List (List Str)) (maxR : Nat) (hm : 1 ≤ maxR)
    (hfree : fs.pathExists path = false) (hn : 2 ≤ parts.length) (hn' : parts.length < 100000)
    (hclean : ∀ p ∈ parts, ∀ l ∈ p, Clean l) :
    (saveText fs path parts maxR (fun _ => false) (fun _ _ => false)).2 = .ok ∧
    readDir (saveText fs path parts maxR (fun _ => false) (fun _ _ => false)).1 path = some parts.flatten :=
  save_read fs path parts maxR hm hfree hn hn' hclean

-- OBLIGATION: PysparklingVerif.C08.fixed_chunks
/-- binaryRecords with a fixed record length splits the concatenation back into the records -/
theorem fixed_chunks (L : Nat) (hL : 0 < L) (rs : List (List UInt8)) (h : ∀ r ∈ rs, r.length = L)
    (fuel : Nat) (hf : rs.length < fuel) : fixedChunks L rs.flatten fuel = rs :=
  fixedChunks_flatten L hL rs h fuel hf

-- OBLIGATION: PysparklingVerif.C08.var_chunks
/-- binaryRecords with a struct length prefix: for any prefix codec that, on lengths below its capacity `B`
(e.g. `256 ^ pl`), produces `pl` bytes and satisfies `unpack (pack n) = n`, and records shorter than `B`,
decoding the framed stream returns exactly the original records (empty records included) -/
theorem var_chunks (pl : Nat) (hpl : 0 < pl) (B : Nat) (pack : Nat → List UInt8) (unpack : List UInt8 → Nat)
    (hlen : ∀ n, n < B → (pack n).length = pl) (hinv : ∀ n, n < B → unpack (pack n) = n)
    (rs : List (List UInt8)) (hr : ∀ r ∈ rs, r.length < B) (fuel : Nat) (hf : rs.length < fuel) :
    varChunks pl unpack (frame pack rs) fuel = rs :=
  varChunks_frame pl hpl B pack unpack hlen hinv rs hr fuel hf

/-- a one-byte length prefix (`struct` format `B`): capacity 256 -/
def pack1 (n : Nat) : List UInt8 := [UInt8.ofNat n]
def unpack1 (l : List UInt8) : Nat := (l.headD 0).toNat

/-- the hypotheses of `var_chunks` are met by the one-byte prefix, and the theorem applies to records that include
an empty one at the end -/
example : varChunks 1 unpack1 (frame pack1 [[1, 2, 3], [], [9], []]) 5 = [[1, 2, 3], [], [9], []] :=
  var_chunks 1 (by decide) 256 pack1 unpack1 (by intro n _; rfl) (by intro n h; simp [unpack1, pack1]; omega) _ (by decide) 5 (by decide)

-- non-vacuity
example : splitlines (encodePart ["a".toList, [], "c d".toList]) = ["a".toList, [], "c d".toList] := by decide
example : partName 7 ".gz".toList = "part-00007.gz".toList := by decide
example : getCodec "out.tar.gz/part-00001.gz".toList = .gz := by decide

end PysparklingVerif.C08
