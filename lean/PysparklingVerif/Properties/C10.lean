/-
  C10 — Each stream batch is processed exactly once; per-batch ops equal RDD ops.
  Property theorems about the stream network model (Model/Stream.lean).
-/
import PysparklingVerif.Model.Stream
import PysparklingVerif.Lemmas.StreamLemmas
namespace PysparklingVerif.C10
open PysparklingVerif.Stream

variable {α : Type}

/-- `k` successive polls of a queue source -/
def pollN : Nat → QueueSrc α → List (Batch α)
  | 0, _ => []
  | k + 1, q => let (b, q') := q.get; b :: pollN k q'

private theorem pollN_eq (k : Nat) (q : QueueSrc α) : pollN k q = pollsQ k q := by
  induction k generalizing q with
  | zero => rfl
  | succ k ih => simp [pollN, pollsQ, ih]

-- OBLIGATION: PysparklingVerif.C10.queue_one_at_a_time
/-- oneAtATime: poll number `k` delivers the k-th queued batch, afterwards the default (or nothing);
every queued batch is delivered in exactly one interval, in arrival order -/
theorem queue_one_at_a_time (bs : List (Batch α)) (d : Option (Batch α)) (k : Nat) :
    pollN k ⟨bs, true, d⟩ = bs.take k ++ List.replicate (k - bs.length) (d.getD []) := by
  rw [pollN_eq]; exact pollsQ_one bs d k

-- OBLIGATION: PysparklingVerif.C10.queue_all_at_once
/-- not oneAtATime: the first poll delivers all queued batches concatenated in order, later polls the default -/
theorem queue_all_at_once (bs : List (Batch α)) (hne : bs ≠ []) (d : Option (Batch α)) (k : Nat) :
    pollN (k + 1) ⟨bs, false, d⟩ = bs.flatten :: List.replicate k (d.getD []) := by
  rw [pollN_eq]; exact pollsQ_all bs hne d k

/-- successive polls of a monitored directory -/
def filePolls : Nat → FileSrc → List (Option (List String))
  | 0, _ => []
  | k + 1, f => let (r, f') := f.get; r :: filePolls k f'

private theorem filePolls_eq (k : Nat) (f : FileSrc) : filePolls k f = pollsF k f := by
  induction k generalizing f with
  | zero => rfl
  | succ k ih => simp [filePolls, pollsF, ih]

-- OBLIGATION: PysparklingVerif.C10.file_delivered_once
/-- every file name is reported by at most one poll, never if it was there before the stream started,
and exactly by the first poll whose listing contains it otherwise -/
theorem file_delivered_once (done0 : List String) (ls : List (List String)) (name : String) :
    let reports := (filePolls ls.length ⟨done0, ls⟩).map fun r => (r.getD []).contains name
    (reports.count true ≤ 1) ∧
    (name ∈ done0 → reports.count true = 0) ∧
    (name ∉ done0 → ∀ j, j < ls.length → name ∈ ls[j]! → (∀ j', j' < j → name ∉ ls[j']!) →
        reports[j]! = true) := by
  intro reports
  have hr : reports = reportsF name done0 ls := by
    show List.map _ (filePolls ls.length ⟨done0, ls⟩) = _
    rw [filePolls_eq]; rfl
  rw [hr]
  exact ⟨reportsF_count_le name ls done0, reportsF_done name ls done0,
    fun h j hj hin hfirst => reportsF_first name ls done0 h j hj hin hfirst⟩

/-- well-formed network -/
structure WF (n : Net α) : Prop where
  lenSt : n.st.length = n.nodes.length
  lenPolls : n.polls.length = n.sources.length
  parents : ∀ i (h : i < n.nodes.length), (n.nodes[i]).parentsBelow i
  srcOk : ∀ (i q : Nat), n.nodes[i]? = some (Node.src q) → q < n.sources.length
  srcUnique : ∀ (i j q : Nat), n.nodes[i]? = some (Node.src q) → n.nodes[j]? = some (Node.src q) → i = j

private theorem WF.toWFNet {n : Net α} (h : WF n) : WFNet n :=
  ⟨h.lenSt, h.lenPolls, h.parents, h.srcOk, h.srcUnique⟩

-- OBLIGATION: PysparklingVerif.C10.step_guard
/-- a node that already processed interval `t` ignores further `_step(t)` calls — no matter how many
derived streams (or the context itself) ask it -/
theorem step_guard (t fuel : Nat) (n : Net α) (i : Nat) (h : t ≤ (n.getSt i).time) : step t fuel n i = n :=
  step_guard' t fuel n i h

-- OBLIGATION: PysparklingVerif.C10.tick_each_node_once
/-- MAIN: in a well-formed network (any DAG, including diamonds) one tick with a fresh time stamp makes
EVERY node process the interval exactly once: its time becomes `t`, its body ran exactly once, and every
source was polled exactly once — however many derived streams share it -/
theorem tick_each_node_once (n : Net α) (t : Nat) (hwf : WF n) (hfresh : ∀ i, i < n.nodes.length → (n.getSt i).time < t) :
    (∀ i, i < n.nodes.length → ((tick t n).getSt i).time = t ∧ ((tick t n).getSt i).evals = (n.getSt i).evals + 1) ∧
    (∀ (i q : Nat), n.nodes[i]? = some (Node.src q) → (tick t n).polls.getD q 0 = n.polls.getD q 0 + 1) ∧
    (tick t n).nodes = n.nodes := by
  obtain ⟨g, d⟩ := tick_good hwf.toWFNet hfresh
  refine ⟨fun i hi => ⟨d i hi, (g.st.done i hi (d i hi)).1⟩, fun i q hq => ?_, g.st.nodes⟩
  have hi : i < n.nodes.length := (List.getElem?_eq_some_iff.mp hq).1
  exact g.src.srcDone i q hq (d i hi)

-- OBLIGATION: PysparklingVerif.C10.tick_node_values
/-- after the tick every node holds its operation applied to its parents' values OF THE SAME TICK
(sources: the batch their poll delivered) -/
theorem tick_node_values (n : Net α) (t : Nat) (hwf : WF n) (hfresh : ∀ i, i < n.nodes.length → (n.getSt i).time < t) :
    ∀ i (h : i < n.nodes.length),
      match n.nodes[i] with
      | .src q => ∀ src, n.sources[q]? = some src → ((tick t n).getSt i).rdd = src.get.1
      | .tr p f => ((tick t n).getSt i).rdd = f ((tick t n).getSt p).rdd
      | .tr2 a b f => ((tick t n).getSt i).rdd = f ((tick t n).getSt a).rdd ((tick t n).getSt b).rdd
      | .win p w s =>
          ((tick t n).getSt i).buf = pushWindow w (n.getSt i).buf ((tick t n).getSt p).rdd ∧
          ((tick t n).getSt i).counter = ((n.getSt i).counter + 1) % s
      | .fold p g => ((tick t n).getSt i).mem = g ((tick t n).getSt p).rdd (n.getSt i).mem := by
  intro i hi
  obtain ⟨g, d⟩ := tick_good hwf.toWFNet hfresh
  have hv := (g.st.done i hi (d i hi)).2.1
  cases hnd : n.nodes[i] <;> rw [hnd] at hv <;> exact hv

-- non-vacuity: a diamond (one source, two branches, a union) polls its source once per tick
example :
    let net : Net Nat := ⟨[.src 0, .tr 0 (·.map (· + 1)), .tr 0 (·.filter (· % 2 == 0)), .tr2 1 2 (· ++ ·)],
      List.replicate 4 NState.init, [⟨[[1, 2], [3]], true, none⟩], [0]⟩
    ((tick 1 net).getSt 3).rdd = [2, 3, 2] ∧ (tick 1 net).polls = [1] ∧ ((tick 2 (tick 1 net)).getSt 3).rdd = [4] := by
  decide +kernel

end PysparklingVerif.C10
