/-
  C14 — Grouped aggregation is correct and independent of partitioning.
-/
import PysparklingVerif.Model.Agg
import PysparklingVerif.Lemmas.AggLemmas
namespace PysparklingVerif.C14
open PysparklingVerif.Sql PysparklingVerif.Agg

/-- all non-null values of a column have the same SQL type -/
def Typed (t : Ty) (vs : List SV) : Prop := ∀ v ∈ vs, v = .null ∨ tyOf v = some t

-- OBLIGATION: PysparklingVerif.C14.moments_are_central
/-- the streaming moment update (as coded, with the *updated* lower moments in the higher ones) computes
the count, the sum and the 2nd, 3rd and 4th CENTRAL moments of the non-null numeric values -/
theorem moments_are_central (vs : List SV) (t : Ty) (ht : t = .int ∨ t = .dbl) (h : Typed t vs) :
    let s := summarize vs
    (s.n : Int) = (nums vs).length ∧ s.sum = rsum (nums vs) ∧
    s.m2 = central 2 (nums vs) ∧ s.m3 = central 3 (nums vs) ∧ s.m4 = central 4 (nums vs) := by
  intro s
  have hT : TypedL t vs := h
  obtain ⟨hn, hs, h2, h3, h4⟩ := summarize_mom_num vs (hT.num ht)
  refine ⟨?_, hs, ?_, ?_, ?_⟩
  · show ((summarize vs).n : Int) = _
    rw [hn]
  · rw [central2_eq]; exact h2
  · rw [central3_eq]; exact h3
  · rw [central4_eq]; exact h4

-- OBLIGATION: PysparklingVerif.C14.merge_is_append
/-- MAIN (monoid homomorphism): merging the accumulators of two row sequences — either of which may be
empty or all-null — IS the accumulator of their concatenation, field by field (count, sum, all moments via
the Pébay formulas, min, max, collected values in order, first / last with and without ignorenulls) -/
theorem merge_is_append (xs ys : List SV) (t : Ty) (h : Typed t (xs ++ ys)) :
    (summarize xs).merge (summarize ys) = summarize (xs ++ ys) :=
  merge_summarize xs ys t h

-- OBLIGATION: PysparklingVerif.C14.projections
/-- what the aggregates read from the accumulator: count(*) counts rows, count(col) non-null values,
collect_list is the non-null values in input order, first/last are the first/last value (or first/last
non-null value with ignorenulls), min/max are attained lower/upper bounds of the non-null values -/
theorem projections (vs : List SV) (t : Ty) (h : Typed t vs) :
    let s := summarize vs
    s.rows = vs.length ∧ s.n = (vs.filter (· ≠ .null)).length ∧ s.items = vs.filter (· ≠ .null) ∧
    s.first = vs.head? ∧ s.last = vs.getLast? ∧
    s.firstNN = (vs.filter (· ≠ .null)).head? ∧ s.lastNN = (vs.filter (· ≠ .null)).getLast? ∧
    (∀ m, s.minV = some m → m ∈ vs ∧ ∀ v ∈ vs, v ≠ .null → svLe m v = true) ∧
    (∀ m, s.maxV = some m → m ∈ vs ∧ ∀ v ∈ vs, v ≠ .null → svLe v m = true) ∧
    (s.minV = none ↔ ∀ v ∈ vs, v = .null) := by
  intro s
  have hT : TypedL t vs := h
  obtain ⟨a1, a2, a3, a4, a5, a6, a7, a8, a9⟩ := summarize_basic vs
  refine ⟨a1, a2, a3, a4, a5, a6, a7, ?_, ?_, ?_⟩
  · intro m hm
    have hm' : pickFold svLe (nn vs) = some m := a8 ▸ hm
    refine ⟨(mem_nn.1 (pickFold_mem _ _ _ hm')).1, fun v hv hnull => ?_⟩
    exact pickFold_le (svLe_totPre t) _ hT.ofTy m hm' v (mem_nn.2 ⟨hv, hnull⟩)
  · intro m hm
    have hm' : pickFold svGe (nn vs) = some m := a9 ▸ hm
    refine ⟨(mem_nn.1 (pickFold_mem _ _ _ hm')).1, fun v hv hnull => ?_⟩
    exact pickFold_le (svGe_totPre t) _ hT.ofTy m hm' v (mem_nn.2 ⟨hv, hnull⟩)
  · show (summarize vs).minV = none ↔ _
    rw [a8, pickFold_eq_none]
    constructor
    · intro h0 v hv
      by_cases hn : v = .null
      · exact hn
      · have : v ∈ nn vs := mem_nn.2 ⟨hv, hn⟩
        rw [h0] at this; simp at this
    · intro h0
      apply List.eq_nil_iff_forall_not_mem.2
      intro v hv
      exact (mem_nn.1 hv).2 (h0 v (mem_nn.1 hv).1)

/-- every aggregated column is homogeneously typed over all rows (the key type `κ` is arbitrary: value tuples for
groupBy, tuples with GROUPED markers for rollup / cube) -/
def RowsTyped {κ : Type} (ts : List Ty) (rows : List (κ × List SV)) : Prop :=
  ∀ r ∈ rows, r.2.length = ts.length ∧ ∀ (j : Nat) (t : Ty) (v : SV), ts[j]? = some t → r.2[j]? = some v → v = .null ∨ tyOf v = some t

-- OBLIGATION: PysparklingVerif.C14.group_rows
/-- one output group per distinct key (null being a key value), in first-occurrence order, whose
accumulators summarise exactly that group's rows, in row order -/
theorem group_rows {κ : Type} [DecidableEq κ] (ts : List Ty) (rows : List (κ × List SV)) (h : RowsTyped ts rows) :
    let g := aggregateSpec ts.length rows
    (g.map (·.1)).Nodup ∧ (∀ k, k ∈ g.map (·.1) ↔ k ∈ rows.map (·.1)) ∧
    ∀ k sts, (k, sts) ∈ g →
      sts = (List.range ts.length).map fun j => summarize ((rows.filter (·.1 == k)).map fun r => r.2.getD j .null) :=
  aggregateSpec_groups ts rows h

-- OBLIGATION: PysparklingVerif.C14.aggregate_partition_independent
/-- the grouped accumulators are the same for EVERY assignment of the rows to partitions (keeping their
relative order), including empty partitions and partitions where a group has no rows or only nulls -/
theorem aggregate_partition_independent {κ : Type} [DecidableEq κ] (ts : List Ty) (parts : List (List (κ × List SV)))
    (h : RowsTyped ts parts.flatten) :
    aggregate ts.length parts = aggregateSpec ts.length parts.flatten :=
  aggregate_eq_spec ts parts h

-- OBLIGATION: PysparklingVerif.C14.rollup_keys
/-- rollup counts a row under exactly the prefixes of its key (the rest marked GROUPED), cube under every subset
of the key positions; no key twice; and a subtotal key stands for exactly the rows that agree with it on the
columns that are not rolled up -/
theorem rollup_keys (key : List SV) :
    (rollupKeys key).length = key.length + 1 ∧ (rollupKeys key).Nodup ∧
    (∀ sk, sk ∈ rollupKeys key ↔ ∃ i, i ≤ key.length ∧ sk = (key.take i).map some ++ List.replicate (key.length - i) none) ∧
    (cubeKeys key).length = 2 ^ key.length ∧ (cubeKeys key).Nodup ∧
    (∀ sk, sk ∈ cubeKeys key ↔ matchesKey sk key = true) ∧
    (∀ sk ∈ rollupKeys key, matchesKey sk key = true) ∧
    (∀ sk (key' : List SV), sk ∈ rollupKeys key → matchesKey sk key' = true → sk ∈ rollupKeys key') :=
  ⟨rollupKeys_length key, rollupKeys_nodup key, mem_rollupKeys key, cubeKeys_length key, cubeKeys_nodup key,
    mem_cubeKeys key, rollupKeys_matches key, fun sk key' => rollupKeys_of_matches key sk key'⟩

-- OBLIGATION: PysparklingVerif.C14.subtotals_are_groupby_subset
/-- MAIN for rollup / cube (and plain groupBy): whatever the partitioning, the result holds one group per
subtotal key some row is counted under, and its accumulators — hence EVERY aggregate, the order-sensitive
first / last / collect_list included — summarise, in row order, exactly the rows whose key agrees with the subtotal
key on the columns that are not rolled up: the same as grouping by that key subset -/
theorem subtotals_are_groupby_subset (keysOf : List SV → List (List (Option SV)))
    (hk : keysOf = groupByKeys ∨ keysOf = rollupKeys ∨ keysOf = cubeKeys)
    (ts : List Ty) (parts : List (List (List SV × List SV))) (h : RowsTyped ts parts.flatten) :
    let g := aggregateSub keysOf ts.length parts
    (g.map (·.1)).Nodup ∧
    (∀ sk, sk ∈ g.map (·.1) ↔ ∃ r ∈ parts.flatten, sk ∈ keysOf r.1) ∧
    ∀ sk sts, (sk, sts) ∈ g →
      sts = (List.range ts.length).map fun j =>
        summarize ((parts.flatten.filter fun r => decide (sk ∈ keysOf r.1)).map fun r => r.2.getD j .null) := by
  have hnd : ∀ k, (keysOf k).Nodup := by
    rcases hk with rfl | rfl | rfl
    · exact groupByKeys_nodup
    · exact rollupKeys_nodup
    · exact cubeKeys_nodup
  exact aggregateSub_groups keysOf hnd ts parts h

/-- pivoted rows: (group key, pivot value, aggregated values) -/
def PivotRowsTyped {κ : Type} (ts : List Ty) (rows : List (κ × SV × List SV)) : Prop :=
  ∀ r ∈ rows, r.2.2.length = ts.length ∧ ∀ (j : Nat) (t : Ty) (v : SV), ts[j]? = some t → r.2.2[j]? = some v → v = .null ∨ tyOf v = some t

-- OBLIGATION: PysparklingVerif.C14.pivot_cells
/-- MAIN for pivot: whatever the partitioning, there is one output group per distinct key (also for keys none of
whose rows has a listed pivot value), and the block of accumulators of pivot value number `i` summarises exactly
the group's rows whose pivot value is `pvs[i]` — the same aggregates, spread over the pivot values -/
theorem pivot_cells {κ : Type} [DecidableEq κ] (ts : List Ty) (pvs : List SV) (hp : pvs.Nodup)
    (parts : List (List (κ × SV × List SV))) (h : PivotRowsTyped ts parts.flatten) :
    let g := aggregatePivot ts.length pvs parts
    g = aggregatePivotSpec ts.length pvs parts.flatten ∧
    (g.map (·.1)).Nodup ∧ (∀ k, k ∈ g.map (·.1) ↔ k ∈ parts.flatten.map (·.1)) ∧
    ∀ k sts, (k, sts) ∈ g → sts.length = pvs.length * ts.length ∧
      ∀ (i j : Nat) (p : SV), pvs[i]? = some p → j < ts.length →
        sts[i * ts.length + j]? = some (summarize ((parts.flatten.filter fun r => r.1 == k && r.2.1 == p).map fun r => r.2.2.getD j .null)) := by
  intro g
  have _ := hp -- (the closed form holds for any list of pivot values; distinctness is not used)
  have hg : g = aggregatePivotSpec ts.length pvs parts.flatten := aggregatePivot_eq_spec ts pvs parts h
  rw [hg]
  exact ⟨rfl, aggregatePivotSpec_cells ts.length pvs parts.flatten (fun r hr => (h r hr).1)⟩

-- non-vacuity: a group whose second partition holds only nulls; a rollup whose total's `last` is the last ROW
example : ((aggregate 1 [[(([.int 1] : List SV), [.int 2]), ([.int 1], [.int 4])], [([.int 1], [.null])]]).map fun e => (e.1, e.2.map (·.sum))) =
    [([.int 1], [6])] := by decide +kernel
example : (summarize [.int 1, .null, .int 3]).m2 = 2 := by decide +kernel
example : ((aggregateSub rollupKeys 1 [[([.str "A"], [.int 1]), ([.str "B"], [.int 2])], [([.str "A"], [.int 3])]]).map
    fun e => (e.1, e.2.map (·.last))) =
    [([none], [some (.int 3)]), ([some (.str "A")], [some (.int 3)]), ([some (.str "B")], [some (.int 2)])] := by decide +kernel
example : ((aggregatePivot 1 [.str "x", .str "y"] [[(([.int 1] : List SV), SV.str "y", [.int 5]), ([.int 2], .null, [.int 7])]]).map
    fun e => (e.1, e.2.map (·.n))) = [([.int 1], [0, 1]), ([.int 2], [0, 0])] := by decide +kernel

end PysparklingVerif.C14
