/-
  C14 — Grouped aggregation is correct and independent of partitioning.
-/
import PysparklingVerif.Model.Agg
import PysparklingVerif.Lemmas.AggLemmas
namespace PysparklingVerif.C14
open PysparklingVerif.Sql PysparklingVerif.Agg

/-- all non-null values of a column have the same SQL type -/
def Typed (t : Ty) (vs : List SV) : Prop := ∀ v ∈ vs, v = .null ∨ tyOf v = some t

-- OBLIGATION: PysparklingVerif.C14.moments_are_central
/-- the streaming moment update (as coded, with the *updated* lower moments in the higher ones) computes
the count, the sum and the 2nd, 3rd and 4th CENTRAL moments of the non-null numeric values -/
theorem moments_are_central (vs : List SV) (t : Ty) (ht : t = .int ∨ t = .dbl) (h : Typed t vs) :
    let s := summarize vs
    (s.n : Int) = (nums vs).length ∧ s.sum = rsum (nums vs) ∧
    s.m2 = central 2 (nums vs) ∧ s.m3 = central 3 (nums vs) ∧ s.m4 = central 4 (nums vs) := by
  intro s
  have hT : TypedL t vs := h
  obtain ⟨hn, hs, h2, h3, h4⟩ := summarize_mom_num vs (hT.num ht)
  refine ⟨?_, hs, ?_, ?_, ?_⟩
  · show ((summarize vs).n : Int) = _
    rw [hn]
  · rw [central2_eq]; exact h2
  · rw [central3_eq]; exact h3
  · rw [central4_eq]; exact h4

-- OBLIGATION: PysparklingVerif.C14.merge_is_append
/-- MAIN (monoid homomorphism): merging the accumulators of two row sequences — either of which may be
empty or all-null — IS the accumulator of their concatenation, field by field (count, sum, all moments via
the Pébay formulas, min, max, collected values in order, first / last with and without ignorenulls) -/
theorem merge_is_append (xs ys : List SV) (t : Ty) (h : Typed t (xs ++ ys)) :
    (summarize xs).merge (summarize ys) = summarize (xs ++ ys) :=
  merge_summarize xs ys t h

-- OBLIGATION: PysparklingVerif.C14.projections
/-- what the aggregates read from the accumulator: count(*) counts rows, count(col) non-null values,
collect_list is the non-null values in input order, first/last are the first/last value (or first/last
non-null value with ignorenulls), min/max are attained lower/upper bounds of the non-null values -/
theorem projections (vs : List SV) (t : Ty) (h : Typed t vs) :
    let s := summarize vs
    s.rows = vs.length ∧ s.n = (vs.filter (· ≠ .null)).length ∧ s.items = vs.filter (· ≠ .null) ∧
    s.first = vs.head? ∧ s.last = vs.getLast? ∧
    s.firstNN = (vs.filter (· ≠ .null)).head? ∧ s.lastNN = (vs.filter (· ≠ .null)).getLast? ∧
    (∀ m, s.minV = some m → m ∈ vs ∧ ∀ v ∈ vs, v ≠ .null → svLe m v = true) ∧
    (∀ m, s.maxV = some m → m ∈ vs ∧ ∀ v ∈ vs, v ≠ .null → svLe v m = true) ∧
    (s.minV = none ↔ ∀ v ∈ vs, v = .null) := by
  intro s
  have hT : TypedL t vs := h
  obtain ⟨a1, a2, a3, a4, a5, a6, a7, a8, a9⟩ := summarize_basic vs
  refine ⟨a1, a2, a3, a4, a5, a6, a7, ?_, ?_, ?_⟩
  · intro m hm
    have hm' : pickFold svLe (nn vs) = some m := a8 ▸ hm
    refine ⟨(mem_nn.1 (pickFold_mem _ _ _ hm')).1, fun v hv hnull => ?_⟩
    exact pickFold_le (svLe_totPre t) _ hT.ofTy m hm' v (mem_nn.2 ⟨hv, hnull⟩)
  · intro m hm
    have hm' : pickFold svGe (nn vs) = some m := a9 ▸ hm
    refine ⟨(mem_nn.1 (pickFold_mem _ _ _ hm')).1, fun v hv hnull => ?_⟩
    exact pickFold_le (svGe_totPre t) _ hT.ofTy m hm' v (mem_nn.2 ⟨hv, hnull⟩)
  · show (summarize vs).minV = none ↔ _
    rw [a8, pickFold_eq_none]
    constructor
    · intro h0 v hv
      by_cases hn : v = .null
      · exact hn
      · have : v ∈ nn vs := mem_nn.2 ⟨hv, hn⟩
        rw [h0] at this; simp at this
    · intro h0
      apply List.eq_nil_iff_forall_not_mem.2
      intro v hv
      exact (mem_nn.1 hv).2 (h0 v (mem_nn.1 hv).1)

/-- every aggregated column is homogeneously typed over all rows -/
def RowsTyped (ts : List Ty) (rows : List (List SV × List SV)) : Prop :=
  ∀ r ∈ rows, r.2.length = ts.length ∧ ∀ (j : Nat) (t : Ty) (v : SV), ts[j]? = some t → r.2[j]? = some v → v = .null ∨ tyOf v = some t

-- OBLIGATION: PysparklingVerif.C14.group_rows
/-- one output group per distinct key tuple (null being a key value), in first-occurrence order, whose
accumulators summarise exactly that group's rows -/
theorem group_rows (ts : List Ty) (rows : List (List SV × List SV)) (h : RowsTyped ts rows) :
    let g := aggregateSpec ts.length rows
    (g.map (·.1)).Nodup ∧ (∀ k, k ∈ g.map (·.1) ↔ k ∈ rows.map (·.1)) ∧
    ∀ k sts, (k, sts) ∈ g →
      sts = (List.range ts.length).map fun j => summarize ((rows.filter (·.1 == k)).map fun r => r.2.getD j .null) := by
  intro g
  have hg : g = rep (dedupK (rows.map (·.1))) (fun k => colSumm ts.length (rows.filter (·.1 == k))) :=
    aggregateSpec_rep ts.length rows (fun r hr => (h r hr).1)
  rw [hg, rep_keys]
  refine ⟨nodup_dedupK _, fun k => mem_dedupK _ k, fun k sts hks => ?_⟩
  exact (mem_rep hks).2

-- OBLIGATION: PysparklingVerif.C14.aggregate_partition_independent
/-- the grouped accumulators are the same for EVERY assignment of the rows to partitions (keeping their
relative order), including empty partitions and partitions where a group has no rows or only nulls -/
theorem aggregate_partition_independent (ts : List Ty) (parts : List (List (List SV × List SV)))
    (h : RowsTyped ts parts.flatten) :
    aggregate ts.length parts = aggregateSpec ts.length parts.flatten :=
  aggregate_eq_spec ts parts h

-- OBLIGATION: PysparklingVerif.C14.rollup_keys
/-- rollup adds, for every group, exactly the prefixes of its key (the rest marked GROUPED); cube every
subset of the key positions -/
theorem rollup_keys (key : List SV) :
    (rollupKeys key).length = key.length + 1 ∧
    (∀ i, i ≤ key.length → (key.take i).map some ++ List.replicate (key.length - i) none ∈ rollupKeys key) ∧
    (cubeKeys key).length = 2 ^ key.length ∧
    (∀ sk ∈ cubeKeys key, sk.length = key.length ∧ ∀ (i : Nat) (v : SV), sk[i]? = some (some v) → key[i]? = some v) := by
  refine ⟨by simp [rollupKeys], fun i hi => ?_, cubeKeys_length key, cubeKeys_sound key⟩
  exact List.mem_map.2 ⟨i, List.mem_range.2 (Nat.lt_succ_of_le hi), rfl⟩

-- non-vacuity: a group whose second partition holds only nulls
example : ((aggregate 1 [[([.int 1], [.int 2]), ([.int 1], [.int 4])], [([.int 1], [.null])]]).map fun e => (e.1, e.2.map (·.sum))) =
    [([.int 1], [6])] := by decide +kernel
example : (summarize [.int 1, .null, .int 3]).m2 = 2 := by decide +kernel

end PysparklingVerif.C14
