/-
  C19 — Type descriptions round-trip and inferred schemas accept their data.
-/
import PysparklingVerif.Model.Types
import PysparklingVerif.Lemmas.TypesLemmas
namespace PysparklingVerif.C19
open PysparklingVerif.Types

-- OBLIGATION: PysparklingVerif.C19.json_roundtrip
/-- every data type tree — atomic types, decimals, arrays, maps, structs with nullability and arbitrary
metadata, any depth — is reproduced exactly by parsing its JSON description -/
theorem json_roundtrip (t : DType) (fuel : Nat) (h : t.size ≤ fuel) : ofJ fuel (toJ t) = some t :=
  ofJ_toJ t fuel h

/-- the type trees schema inference can produce for fully determined data: everything nullable, ints are
long, floats double, decimals (38,18), no metadata -/
inductive Normal : DType → Prop where
  | atom (a : Atom) : a ∈ [Atom.boolean, .long, .double, .string, .binary, .date, .timestamp] → Normal (.atom a)
  | decimal : Normal (.decimal 38 18)
  | array (e : DType) : Normal e → Normal (.array e true)
  | map (k v : DType) : Normal k → Normal v → Normal (.map k v true)
  | struct (fs : List (String × DType × Bool × J)) :
      (∀ f ∈ fs, Normal f.2.1) → (∀ f ∈ fs, f.2.2.1 = true ∧ f.2.2.2 = J.obj []) → (fs.map (·.1)).Nodup →
      Normal (.struct fs)

/-- `v` is a value of type `T` (None is a value of every type; dict keys are never None) -/
inductive HasType : PV → DType → Prop where
  | none (T : DType) : HasType .none T
  | bool (b : Bool) : HasType (.bool b) (.atom .boolean)
  | int (i : Int) : -9223372036854775808 ≤ i → i ≤ 9223372036854775807 → HasType (.int i) (.atom .long)
  | float : HasType .float (.atom .double)
  | str : HasType .str (.atom .string)
  | bytes : HasType .bytes (.atom .binary)
  | decimal : HasType .decimal (.decimal 38 18)
  | date : HasType .date (.atom .date)
  | datetime : HasType .datetime (.atom .timestamp)
  | list (xs : List PV) (e : DType) : (∀ x ∈ xs, HasType x e) → HasType (.list xs) (.array e true)
  | dict (kvs : List (PV × PV)) (k v : DType) :
      (∀ p ∈ kvs, p.1.isNone = false) → (∀ p ∈ kvs, HasType p.1 k) → (∀ p ∈ kvs, HasType p.2 v) →
      HasType (.dict kvs) (.map k v true)
  | row (vs : List (String × PV)) (fs : List (String × DType × Bool × J)) :
      vs.map (·.1) = fs.map (·.1) → (∀ p ∈ vs.zip fs, HasType p.1.2 p.2.2.1) → HasType (.row vs) (.struct fs)

private theorem verify_accepts_aux : ∀ (fuel : Nat) (v : PV) (T : DType), Normal T → HasType v T →
    ∀ (nullable : Bool), (v.isNone = true → nullable = true) → v.depth < fuel →
    verify fuel T nullable v = none := by
  intro fuel
  induction fuel with
  | zero => intro v T _ _ _ _ hf; omega
  | succ k ih =>
    intro v T hT hv nullable hn hf
    cases hv with
    | none => rw [hn rfl]; exact verify_none_nullable k T
    | bool b => simp [verify, PV.isNone, acceptsScalar, rangeOk]
    | int i h1 h2 => simp [verify, PV.isNone, acceptsScalar, rangeOk, intOf, h1, h2]
    | float => simp [verify, PV.isNone, acceptsScalar, rangeOk]
    | str => simp [verify, PV.isNone]
    | bytes => simp [verify, PV.isNone, acceptsScalar, rangeOk]
    | decimal => simp [verify, PV.isNone]
    | date => simp [verify, PV.isNone, acceptsScalar, rangeOk]
    | datetime => simp [verify, PV.isNone, acceptsScalar, rangeOk]
    | list xs e hxs =>
      cases hT with
      | array _ he =>
        rw [verify_array_list, List.findSome?_eq_none_iff]
        intro x hx
        have := depth_le_depthList hx
        rw [PV.depth_list] at hf
        exact ih x e he (hxs x hx) true (fun _ => rfl) (by omega)
    | dict kvs kt vt hk1 hk2 hv2 =>
      cases hT with
      | map _ _ hkn hvn =>
        rw [verify_map_dict, List.findSome?_eq_none_iff]
        intro p hp
        have := depth_le_depthPairs hp
        rw [PV.depth_dict] at hf
        have e1 := ih p.1 kt hkn (hk2 p hp) false (fun h => by rw [hk1 p hp] at h; cases h) (by omega)
        have e2 := ih p.2 vt hvn (hv2 p hp) true (fun _ => rfl) (by omega)
        simp [e1, e2]
    | row vs fs hnames hfs =>
      cases hT with
      | struct _ hfn hflags hnd =>
        apply verify_struct_row_none
        intro f hf'
        obtain ⟨x, hx, hz⟩ := lookup_aligned vs fs hnames hnd f hf'
        refine ⟨x, hx, ?_⟩
        have hmem : (f.1, x) ∈ vs := (List.of_mem_zip hz).1
        have := depth_le_depthFields hmem
        rw [PV.depth_row] at hf
        rw [(hflags f hf').1]
        exact ih x f.2.1 (hfn f hf') (hfs _ hz) true (fun _ => rfl) (by simp at this; omega)
-- OBLIGATION: PysparklingVerif.C19.verify_accepts_typed
/-- the verifier accepts every value of a (normal) type -/
theorem verify_accepts_typed (v : PV) (T : DType) (hT : Normal T) (hv : HasType v T) (nullable : Bool)
    (hn : v.isNone = true → nullable = true) (fuel : Nat) (hf : v.depth < fuel) :
    verify fuel T nullable v = none :=
  verify_accepts_aux fuel v T hT hv nullable hn hf

mutual
private theorem infer_below : ∀ (v : PV) (T : DType), Normal T → HasType v T → Below (infer v) T
  | .none, T, _, _ => by simp [infer, Below]
  | .bool b, T, _, hv => by cases hv; simp [infer, Below]
  | .int i, T, _, hv => by cases hv; simp [infer, Below]
  | .float, T, _, hv => by cases hv; simp [infer, Below]
  | .str, T, _, hv => by cases hv; simp [infer, Below]
  | .bytes, T, _, hv => by cases hv; simp [infer, Below]
  | .decimal, T, _, hv => by cases hv; simp [infer, Below]
  | .date, T, _, hv => by cases hv; simp [infer, Below]
  | .datetime, T, _, hv => by cases hv; simp [infer, Below]
  | .list xs, T, hT, hv => by
    cases hv with
    | list _ e hxs =>
      cases hT with
      | array _ he =>
        simp only [infer, Below]
        exact ⟨trivial, e, rfl, inferFirst_below xs e he hxs⟩
  | .dict kvs, T, hT, hv => by
    cases hv with
    | dict _ k v h1 h2 h3 =>
      cases hT with
      | map _ _ hk hv' =>
        simp only [infer]
        exact inferDict_below kvs k v hk hv' h2 h3
  | .row vs, T, hT, hv => by
    cases hv with
    | row _ fs hnames hfs =>
      cases hT with
      | struct _ hfn hflags hnd =>
        simp only [infer, Below]
        exact ⟨fs, rfl, hnd, inferFields_below vs fs hfn hflags hnames hfs⟩
private theorem inferFirst_below : ∀ (xs : List PV) (e : DType), Normal e → (∀ x ∈ xs, HasType x e) →
    Below (inferFirst xs) e
  | [], e, _, _ => by simp [inferFirst, Below]
  | x :: xs, e, he, h => by
    simp only [inferFirst]
    split
    · exact inferFirst_below xs e he (fun y hy => h y (by simp [hy]))
    · exact infer_below x e he (h x (by simp))
private theorem inferDict_below : ∀ (kvs : List (PV × PV)) (k v : DType), Normal k → Normal v →
    (∀ p ∈ kvs, HasType p.1 k) → (∀ p ∈ kvs, HasType p.2 v) → Below (inferDict kvs) (.map k v true)
  | [], k, v, _, _, _, _ => by simp [inferDict, Below]
  | (a, b) :: r, k, v, hk, hv, h1, h2 => by
    simp only [inferDict]
    split
    · exact inferDict_below r k v hk hv (fun p hp => h1 p (by simp [hp])) (fun p hp => h2 p (by simp [hp]))
    · simp only [Below]
      exact ⟨trivial, k, v, rfl, infer_below a k hk (h1 (a, b) (by simp)), infer_below b v hv (h2 (a, b) (by simp))⟩
private theorem inferFields_below : ∀ (vs : List (String × PV)) (fs : List (String × DType × Bool × J)),
    (∀ f ∈ fs, Normal f.2.1) → (∀ f ∈ fs, f.2.2.1 = true ∧ f.2.2.2 = J.obj []) →
    vs.map (·.1) = fs.map (·.1) → (∀ p ∈ vs.zip fs, HasType p.1.2 p.2.2.1) → BelowF (inferFields vs) fs
  | [], [], _, _, _, _ => by simp [inferFields, BelowF]
  | [], _ :: _, _, _, h, _ => by simp at h
  | _ :: _, [], _, _, h, _ => by simp at h
  | (n, x) :: vs, (m, T, nu, md) :: fs, hfn, hflags, hnames, hfs => by
    simp only [List.map_cons, List.cons.injEq] at hnames
    obtain ⟨rfl, hnames⟩ := hnames
    obtain ⟨h1, h2⟩ := hflags (n, T, nu, md) (by simp)
    simp only at h1 h2
    subst h1 h2
    simp only [inferFields, BelowF]
    refine ⟨trivial, trivial, T, fs, rfl, ?_, ?_⟩
    · exact infer_below x T (hfn (n, T, true, .obj []) (by simp)) (hfs ((n, x), (n, T, true, .obj [])) (by simp))
    · exact inferFields_below vs fs (fun f hf => hfn f (by simp [hf])) (fun f hf => hflags f (by simp [hf]))
        hnames (fun p hp => hfs p (by simp [hp]))
end

-- OBLIGATION: PysparklingVerif.C19.inferred_schema_is_the_type
/-- if schema inference over rows of a common type `T` succeeds (no null type left), the inferred schema
IS `T` … -/
theorem inferred_schema_is_the_type (rows : List PV) (T : DType) (hT : Normal T)
    (hrows : ∀ r ∈ rows, HasType r T ∧ r.isNone = false) (t : DType) (h : inferSchema rows = some t)
    (hstruct : ∃ fs, T = .struct fs) : t = T := by
  have _ := hstruct   -- not needed: the statement holds for every normal `T`
  exact inferSchema_below T rows t (fun r hr => infer_below r T hT (hrows r hr).1) h

-- OBLIGATION: PysparklingVerif.C19.inferred_schema_verifies
/-- … hence the inferred schema verifies every one of those rows -/
theorem inferred_schema_verifies (rows : List PV) (T : DType) (hT : Normal T)
    (hrows : ∀ r ∈ rows, HasType r T ∧ r.isNone = false) (t : DType) (h : inferSchema rows = some t)
    (hstruct : ∃ fs, T = .struct fs) :
    ∀ r ∈ rows, ∀ fuel, r.depth < fuel → verify fuel t false r = none := by
  intro r hr fuel hf
  rw [inferred_schema_is_the_type rows T hT hrows t h hstruct]
  exact verify_accepts_typed r T hT (hrows r hr).1 false
    (fun hnone => by rw [(hrows r hr).2] at hnone; cases hnone) fuel hf

-- OBLIGATION: PysparklingVerif.C19.verify_rejects
/-- verification rejects a null in a non-nullable position, an out-of-range integer for byte / short /
integer / long, and a value of the wrong Python type (StringType accepts everything, as in PySpark) -/
theorem verify_rejects (fuel : Nat) (nullable : Bool) :
    (∀ t : DType, verify (fuel + 1) t false .none = some .nullability) ∧
    (∀ (a : Atom) (i : Int), a ∈ [Atom.byte, .short, .integer, .long] → rangeOk a i = false →
        verify (fuel + 1) (.atom a) nullable (.int i) = some .outOfRange) ∧
    (∀ (a : Atom) (v : PV), a ≠ .string → v.isNone = false → acceptsScalar a v = false →
        verify (fuel + 1) (.atom a) nullable v = some .wrongType) :=
  ⟨verify_none_nonnullable fuel, fun a i => verify_outOfRange fuel nullable a i,
   fun a v => verify_wrongType fuel nullable a v⟩

-- OBLIGATION: PysparklingVerif.C19.scalar_classes_exact
/-- "the wrong Python type" is decided on the exact class: a bool is accepted by BooleanType alone (not by the integral
types, although `bool` is a subclass of `int`), an int by the four integral types alone, a float by float / double alone -/
theorem scalar_classes_exact (a : Atom) (b : Bool) (i : Int) :
    (acceptsScalar a (.bool b) = true ↔ a = .boolean) ∧
    (acceptsScalar a (.int i) = true ↔ a ∈ [Atom.byte, .short, .integer, .long]) ∧
    (acceptsScalar a .float = true ↔ a ∈ [Atom.float, .double]) := by
  cases a <;> simp [acceptsScalar]

-- OBLIGATION: PysparklingVerif.C19.verify_rejects_nested
/-- a rejected element makes the enclosing array / positional struct rejected too (nested fields are not skipped) -/
theorem verify_rejects_nested (fuel : Nat) (nullable cn : Bool) (e : DType) (xs : List PV) (x : PV)
    (hx : x ∈ xs) (hbad : verify fuel e cn x ≠ none) :
    verify (fuel + 1) (.array e cn) nullable (.list xs) ≠ none := by
  rw [verify_array_list]
  intro h
  exact hbad (List.findSome?_eq_none_iff.1 h x hx)

-- OBLIGATION: PysparklingVerif.C19.asDict_distinct_names
/-- with distinct field names, asDict pairs every name with its own value, in order -/
theorem asDict_distinct_names {α : Type} (names : List String) (values : List α) (hn : names.Nodup) :
    asDict names values = names.zip values :=
  asDict_nodup names values hn

-- non-vacuity
example : (ofJ 10 (toJ (.struct [("a", .array (.decimal 12 (-2)) false, true, .obj [("k", .num 1)])]))).isSome = true := by
  decide +kernel
example : parseDecimal (decimalString 12 (-2)) = some (12, -2) := by decide +kernel
example : inferSchema [.row [("a", .none), ("b", .list [.none, .int 1])], .row [("a", .str), ("b", .none)]] =
    some (.struct [("a", .atom .string, true, .obj []), ("b", .array (.atom .long) true, true, .obj [])]) := by rfl
example : verify 5 (.atom .byte) true (.int 128) = some .outOfRange := by decide +kernel

end PysparklingVerif.C19
