/-
  C11 — Windowed and stateful streams equal a fold over the batch history.
-/
import PysparklingVerif.Model.Stream
import PysparklingVerif.Lemmas.WindowLemmas
namespace PysparklingVerif.C11
open PysparklingVerif.Stream

variable {α κ ν σ : Type}

-- OBLIGATION: PysparklingVerif.C11.window_emission
/-- `window(w, s)`: at tick `t` (1-based) the stream emits, iff `s` divides `t`, exactly the in-order
concatenation of the most recent `w` batches (fewer during start-up), and nothing in between -/
theorem window_emission (w s : Nat) (hw : 1 ≤ w) (hs : 1 ≤ s) (bs : List (Batch α)) (t : Nat)
    (ht1 : 1 ≤ t) (ht : t ≤ bs.length) :
    (windowRun w s bs ([], 0))[t - 1]! =
      if t % s = 0 then ((bs.take t).drop (t - w)).flatten else [] := by
  have _ := hs
  have h := windowRun_getElem? w s hw bs [] (t - 1) (by omega)
  have ht' : t - 1 + 1 = t := by omega
  simp only [List.length_nil, List.drop_nil, Nat.zero_mod, Nat.zero_add, List.nil_append, ht'] at h
  rw [List.getElem!_eq_getElem?_getD, h]
  rfl

-- OBLIGATION: PysparklingVerif.C11.count_by_window
/-- `countByWindow` counts exactly those elements -/
theorem count_by_window (w s : Nat) (hw : 1 ≤ w) (hs : 1 ≤ s) (bs : List (Batch α)) (t : Nat)
    (ht1 : 1 ≤ t) (ht : t ≤ bs.length) (hdiv : t % s = 0) :
    ((windowRun w s bs ([], 0))[t - 1]!).length = (((bs.take t).drop (t - w)).map List.length).sum := by
  rw [window_emission w s hw hs bs t ht1 ht, if_pos hdiv, List.length_flatten]

/-- the values of key `k` in a batch, in order -/
def vals [DecidableEq κ] (b : List (κ × ν)) (k : κ) : List ν := b.filterMap fun kv => if kv.1 = k then some kv.2 else none

/-- SPEC: the user's update function folded over the key's value lists, with `[]` for intervals in which
the key is absent; the function is not called before the key's first appearance -/
def specState [DecidableEq κ] (upd : List ν → Option σ → σ) (bs : List (List (κ × ν))) (k : κ) : Option σ :=
  bs.foldl (fun st b => if vals b k = [] ∧ st = none then none else some (upd (vals b k) st)) none

-- OBLIGATION: PysparklingVerif.C11.state_fold
/-- after the intervals `bs`, the state holds for every key seen so far the fold `specState` — for ANY
update function — keys never disappear and no other key appears -/
theorem state_fold [DecidableEq κ] (upd : List ν → Option σ → σ) (bs : List (List (κ × ν))) :
    let final := bs.foldl (fun st b => stateStep upd b st) []
    (final.map (·.1)).Nodup ∧
    (∀ k, k ∈ final.map (·.1) ↔ ∃ b ∈ bs, k ∈ b.map (·.1)) ∧
    (∀ k, k ∈ final.map (·.1) → (final.lookup k) = specState upd bs k) := by
  have h := stateInv_foldl upd bs [] [] (stateInv_nil upd)
  rw [List.nil_append] at h
  exact ⟨h.1, h.2.1, h.2.2.1⟩

-- OBLIGATION: PysparklingVerif.C11.foldRun_is_fold
/-- the stateful node's per-tick outputs are the running states -/
theorem foldRun_is_fold (g : Batch α → Batch α → Batch α) (bs : List (Batch α)) (m0 : Batch α) (t : Nat)
    (ht : t < bs.length) : (foldRun g bs m0)[t]! = (bs.take (t + 1)).foldl (fun m b => g b m) m0 := by
  rw [List.getElem!_eq_getElem?_getD, foldRun_getElem? g bs m0 t ht]
  rfl

-- non-vacuity (w = 3, s = 2 — the configuration that exposed the repaired defect)
example : windowRun 3 2 [[1], [2], [3], [4], [5]] ([], 0) = [[], [1, 2], [], [2, 3, 4], []] := by decide +kernel
example : ([[("a", 1)], [("b", 5)], [("a", 2)]] : List (List (String × Nat))).foldl
    (fun st b => stateStep (fun vs s => vs.sum + s.getD 0) b st) [] = [("a", 3), ("b", 5)] := by decide +kernel

end PysparklingVerif.C11
