/-
  C09 — Existing outputs are never overwritten and _SUCCESS marks only complete saves.
  Property theorems only. Fault plans are arbitrary functions: `wfail k` = "the k-th file-write
  attempt fails", `cfail i a` = "attempt a of computing partition i fails".
-/
import PysparklingVerif.Model.Save
import PysparklingVerif.Lemmas.SaveLemmas
namespace PysparklingVerif.C09
open PysparklingVerif.TextIO PysparklingVerif.Save

-- OBLIGATION: PysparklingVerif.C09.exists_refused_unchanged
/-- saving to a path that exists (file, directory or empty directory) raises FileAlreadyExistsException
and the file system is EQUAL to the initial one — for every fault plan -/
theorem exists_refused_unchanged (fs : FS) (path : Str) (parts : List (List Str)) (maxR : Nat)
    (wfail : Nat → Bool) (cfail : Nat → Nat → Bool) (h : fs.pathExists path = true) :
    saveText fs path parts maxR wfail cfail = (fs, .alreadyExists) :=
  saveText_exists fs path parts maxR wfail cfail h

-- OBLIGATION: PysparklingVerif.C09.marker_implies_complete
/-- for EVERY crash point and fault plan: if the marker is present after a multi-partition save, the save
succeeded and every partition file is present with exactly its partition's text -/
theorem marker_implies_complete (fs : FS) (path : Str) (parts : List (List Str)) (maxR : Nat)
    (wfail : Nat → Bool) (cfail : Nat → Nat → Bool)
    (hfree : fs.pathExists path = false) (hn : parts.length ≠ 1) (hn' : parts.length ≤ 100000)
    (hm : ((saveText fs path parts maxR wfail cfail).1.read (joinPath path marker)).isSome) :
    (saveText fs path parts maxR wfail cfail).2 = .ok ∧
    ∀ i (hi : i < parts.length),
      (saveText fs path parts maxR wfail cfail).1.read (joinPath path (partName i (codecSuffix path))) =
        some ⟨getCodec (joinPath path (partName i (codecSuffix path))), encodePart parts[i]⟩ := by
  -- `hn'` is not needed: `partName` is injective in the index for all naturals (`partName_inj`)
  have _ := hn'
  rw [saveText_multi fs path parts maxR wfail cfail hfree hn] at hm ⊢
  have hnone := saveParts_marker_none fs path (codecSuffix path) parts maxR wfail cfail hfree
  by_cases hok : (saveParts maxR wfail cfail path (codecSuffix path) parts 0 ⟨fs, 0⟩).2 = true
  · rw [if_pos hok] at hm ⊢
    by_cases hw : (tryWrite wfail (saveParts maxR wfail cfail path (codecSuffix path) parts 0 ⟨fs, 0⟩).1
        (joinPath path marker) []).2 = true
    · refine ⟨by simp [hw], fun i hi => ?_⟩
      rw [tryWrite_read_ne _ _ _ _ _ (fun h => markerPath_ne_partPath path _ i h.symm)]
      simpa using saveParts_ok_read maxR wfail cfail path (codecSuffix path) parts 0 ⟨fs, 0⟩ hok i hi
    · rw [tryWrite_fail_fs _ _ _ _ (by simpa using hw), hnone] at hm
      simp at hm
  · rw [if_neg hok] at hm
    rw [hnone] at hm
    simp at hm

-- OBLIGATION: PysparklingVerif.C09.failure_no_marker
/-- if the save fails at any point the marker is absent and the error reaches the caller -/
theorem failure_no_marker (fs : FS) (path : Str) (parts : List (List Str)) (maxR : Nat)
    (wfail : Nat → Bool) (cfail : Nat → Nat → Bool)
    (hfree : fs.pathExists path = false)
    (hr : (saveText fs path parts maxR wfail cfail).2 ≠ .ok) :
    (saveText fs path parts maxR wfail cfail).2 = .failed ∧
    (saveText fs path parts maxR wfail cfail).1.read (joinPath path marker) = none := by
  have hfs := read_joinPath_of_free fs path marker hfree
  by_cases hn : parts.length = 1
  · obtain ⟨p, rfl⟩ : ∃ p, parts = [p] := by
      match parts, hn with
      | [p], _ => exact ⟨p, rfl⟩
    rw [saveText_single fs path p maxR wfail cfail hfree] at hr ⊢
    by_cases hc : computeOk maxR (cfail 0) = true
    · rw [if_pos hc] at hr ⊢
      by_cases hw : (tryWrite wfail ⟨fs, 0⟩ path (encodePart p)).2 = true
      · simp [hw] at hr
      · refine ⟨by simp [hw], ?_⟩
        rw [tryWrite_fail_fs _ _ _ _ (by simpa using hw)]
        exact hfs
    · rw [if_neg hc]
      exact ⟨rfl, hfs⟩
  · rw [saveText_multi fs path parts maxR wfail cfail hfree hn] at hr ⊢
    have hnone := saveParts_marker_none fs path (codecSuffix path) parts maxR wfail cfail hfree
    by_cases hok : (saveParts maxR wfail cfail path (codecSuffix path) parts 0 ⟨fs, 0⟩).2 = true
    · rw [if_pos hok] at hr ⊢
      by_cases hw : (tryWrite wfail (saveParts maxR wfail cfail path (codecSuffix path) parts 0 ⟨fs, 0⟩).1
          (joinPath path marker) []).2 = true
      · simp [hw] at hr
      · refine ⟨by simp [hw], ?_⟩
        rw [tryWrite_fail_fs _ _ _ _ (by simpa using hw)]
        exact hnone
    · rw [if_neg hok]
      exact ⟨rfl, hnone⟩

-- OBLIGATION: PysparklingVerif.C09.fault_free_ok
theorem fault_free_ok (fs : FS) (path : Str) (parts : List (List Str)) (maxR : Nat) (hm : 1 ≤ maxR)
    (hfree : fs.pathExists path = false) (hne : parts ≠ []) :
    (saveText fs path parts maxR (fun _ => false) (fun _ _ => false)).2 = .ok := by
  by_cases hn : parts.length = 1
  · obtain ⟨p, rfl⟩ : ∃ p, parts = [p] := by
      match parts, hn with
      | [p], _ => exact ⟨p, rfl⟩
    rw [saveText_single _ _ _ _ _ _ hfree]
    simp [computeOk_nofault maxR hm, tryWrite_nofault]
  · have _ := hne
    rw [saveText_multi _ _ _ _ _ _ hfree hn]
    simp [saveParts_nofault maxR hm, tryWrite_nofault]

-- OBLIGATION: PysparklingVerif.C09.exhausted_partition_fails
/-- if the computation of partition `k` fails on every attempt the save fails (and by
`failure_no_marker` leaves no marker) -/
theorem exhausted_partition_fails (fs : FS) (path : Str) (parts : List (List Str)) (maxR : Nat)
    (wfail : Nat → Bool) (cfail : Nat → Nat → Bool) (hfree : fs.pathExists path = false)
    (hn : 2 ≤ parts.length) (k : Nat) (hk : k < parts.length) (hc : ∀ a, cfail k a = true) :
    (saveText fs path parts maxR wfail cfail).2 = .failed := by
  rw [saveText_multi fs path parts maxR wfail cfail hfree (by omega)]
  rw [saveParts_fail maxR wfail cfail path (codecSuffix path) k hc parts 0 ⟨fs, 0⟩ (Nat.zero_le _)
    (by omega)]
  rfl

-- OBLIGATION: PysparklingVerif.C09.single_partition_plain
/-- a single-partition save writes one plain file at the path itself and no marker -/
theorem single_partition_plain (fs : FS) (path : Str) (p : List Str) (maxR : Nat) (hm : 1 ≤ maxR)
    (hfree : fs.pathExists path = false) :
    let r := saveText fs path [p] maxR (fun _ => false) (fun _ _ => false)
    r.2 = .ok ∧ r.1.read path = some ⟨getCodec path, encodePart p⟩ ∧ r.1.read (joinPath path marker) = none := by
  intro r
  have hr : r = ((tryWrite (fun _ => false) ⟨fs, 0⟩ path (encodePart p)).1.fs, SaveResult.ok) := by
    show saveText fs path [p] maxR (fun _ => false) (fun _ _ => false) = _
    rw [saveText_single _ _ _ _ _ _ hfree]
    simp [computeOk_nofault maxR hm, tryWrite_nofault]
  rw [hr]
  refine ⟨rfl, tryWrite_ok_read _ _ _ _ (tryWrite_nofault _ _ _), ?_⟩
  show (tryWrite (fun _ => false) ⟨fs, 0⟩ path (encodePart p)).1.fs.read (joinPath path marker) = none
  rw [tryWrite_read_ne _ _ _ _ _ (joinPath_ne_self path marker)]
  exact read_joinPath_of_free fs path marker hfree

-- non-vacuity: a failure at the marker write (write #2 of a 2-partition save) leaves both parts, no marker
example :
    let r := saveText ⟨[], []⟩ "o".toList [["a".toList], ["b".toList]] 1 (fun k => k == 2) (fun _ _ => false)
    r.2 = .failed ∧ r.1.read (joinPath "o".toList marker) = none ∧ r.1.files.length = 2 := by decide
example : (saveText ⟨[], ["o".toList]⟩ "o".toList [[]] 3 (fun _ => false) (fun _ _ => false)).2 = .alreadyExists := by decide


/-! ### torn writes: a write may also fail after the file has come into being with part of its content -/

-- OBLIGATION: PysparklingVerif.C09.torn_generalises
/-- the torn-write state machine with no torn write is the state machine above -/
theorem torn_generalises (fs : FS) (path : Str) (parts : List (List Str)) (maxR : Nat)
    (wfail : Nat → Bool) (cfail : Nat → Nat → Bool) :
    saveTextT fs path parts maxR wfail (fun _ => false) cfail = saveText fs path parts maxR wfail cfail :=
  saveTextT_notorn fs path parts maxR wfail cfail

-- OBLIGATION: PysparklingVerif.C09.exists_refused_unchanged_torn
theorem exists_refused_unchanged_torn (fs : FS) (path : Str) (parts : List (List Str)) (maxR : Nat)
    (wfail torn : Nat → Bool) (cfail : Nat → Nat → Bool) (h : fs.pathExists path = true) :
    saveTextT fs path parts maxR wfail torn cfail = (fs, .alreadyExists) :=
  saveTextT_exists fs path parts maxR wfail torn cfail h

-- OBLIGATION: PysparklingVerif.C09.marker_implies_complete_torn
/-- for EVERY crash point, also inside a write: if the marker is present after a multi-partition save then every
partition file is present with exactly its partition's text — a partial file left by a torn write has always been
overwritten by a later, complete attempt before the marker could be written. (The call itself may still have
raised: exactly when the write of the — empty — marker was the torn one.) -/
theorem marker_implies_complete_torn (fs : FS) (path : Str) (parts : List (List Str)) (maxR : Nat)
    (wfail torn : Nat → Bool) (cfail : Nat → Nat → Bool)
    (hfree : fs.pathExists path = false) (hn : parts.length ≠ 1)
    (hm : ((saveTextT fs path parts maxR wfail torn cfail).1.read (joinPath path marker)).isSome) :
    ∀ i (hi : i < parts.length),
      (saveTextT fs path parts maxR wfail torn cfail).1.read (joinPath path (partName i (codecSuffix path))) =
        some ⟨getCodec (joinPath path (partName i (codecSuffix path))), encodePart parts[i]⟩ := by
  rw [saveTextT_multi fs path parts maxR wfail torn cfail hfree hn] at hm ⊢
  have hnone := savePartsT_marker_none fs path (codecSuffix path) parts maxR wfail torn cfail hfree
  by_cases hok : (savePartsT maxR wfail torn cfail path (codecSuffix path) parts 0 ⟨fs, 0⟩).2 = true
  · -- the marker write (complete or torn) goes to another name than every part file
    rw [if_pos hok]
    intro i hi
    show (tryWriteT wfail torn (savePartsT maxR wfail torn cfail path (codecSuffix path) parts 0 ⟨fs, 0⟩).1
        (joinPath path marker) []).1.fs.read _ = _
    rw [tryWriteT_read_ne _ _ _ _ _ _ (fun h => markerPath_ne_partPath path _ i h.symm)]
    simpa using savePartsT_ok_read maxR wfail torn cfail path (codecSuffix path) parts 0 ⟨fs, 0⟩ hok i hi
  · -- the part-writing phase failed: the marker write is never reached
    rw [if_neg hok] at hm
    rw [hnone] at hm
    simp at hm

-- OBLIGATION: PysparklingVerif.C09.ok_implies_marker_torn
/-- and a save that reports success has written the marker -/
theorem ok_implies_marker_torn (fs : FS) (path : Str) (parts : List (List Str)) (maxR : Nat)
    (wfail torn : Nat → Bool) (cfail : Nat → Nat → Bool)
    (hfree : fs.pathExists path = false) (hn : parts.length ≠ 1)
    (hr : (saveTextT fs path parts maxR wfail torn cfail).2 = .ok) :
    ((saveTextT fs path parts maxR wfail torn cfail).1.read (joinPath path marker)).isSome := by
  rw [saveTextT_multi fs path parts maxR wfail torn cfail hfree hn] at hr ⊢
  by_cases hok : (savePartsT maxR wfail torn cfail path (codecSuffix path) parts 0 ⟨fs, 0⟩).2 = true
  · rw [if_pos hok] at hr ⊢
    by_cases hw : (tryWriteT wfail torn (savePartsT maxR wfail torn cfail path (codecSuffix path) parts 0 ⟨fs, 0⟩).1
        (joinPath path marker) []).2 = true
    · show ((tryWriteT wfail torn (savePartsT maxR wfail torn cfail path (codecSuffix path) parts 0 ⟨fs, 0⟩).1
        (joinPath path marker) []).1.fs.read _).isSome
      rw [tryWriteT_ok_read _ _ _ _ _ hw]
      rfl
    · simp [hw] at hr
  · rw [if_neg hok] at hr
    simp at hr

-- OBLIGATION: PysparklingVerif.C09.leftovers_block_later_saves
/-- whatever a failed save left behind — complete part files, a partial file of a torn write, nothing but the
directory — a later save to the same path is refused and changes nothing, as soon as anything exists there -/
theorem leftovers_block_later_saves (fs : FS) (path : Str) (parts parts2 : List (List Str)) (maxR maxR2 : Nat)
    (wfail torn wfail2 : Nat → Bool) (cfail cfail2 : Nat → Nat → Bool)
    (hleft : (saveTextT fs path parts maxR wfail torn cfail).1.pathExists path = true) :
    saveText (saveTextT fs path parts maxR wfail torn cfail).1 path parts2 maxR2 wfail2 cfail2 =
      ((saveTextT fs path parts maxR wfail torn cfail).1, .alreadyExists) :=
  saveText_exists _ path parts2 maxR2 wfail2 cfail2 hleft

-- non-vacuity: partition 0's first write is torn (half of "ab\n" stays behind), the retry completes it
example :
    let r := saveTextT ⟨[], []⟩ "out".toList [["ab".toList], ["c".toList]] 2 (fun k => k == 0) (fun k => k == 0) (fun _ _ => false)
    r.2 = .ok ∧ (r.1.read "out/part-00000".toList).map (·.text) = some "ab\n".toList := by decide +kernel
example :
    let r := saveTextT ⟨[], []⟩ "out".toList [["ab".toList], ["c".toList]] 1 (fun k => k == 0) (fun k => k == 0) (fun _ _ => false)
    r.2 = .failed ∧ (r.1.read "out/part-00000".toList).map (·.text) = some "a".toList ∧
    r.1.read "out/_SUCCESS".toList = none := by decide +kernel


end PysparklingVerif.C09
