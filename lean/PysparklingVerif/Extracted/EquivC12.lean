/-
  The three-valued connectives and the null tests of the expression evaluator as regenerated from the current
  source text (GenC12.lean: `And.eval`, `Or.eval`, `Invert.eval`, `IsNull.eval`, `IsNotNull.eval`, over the model's
  value universe and Python truthiness) are the ones the SQL model's evaluator `evalM` uses (Model/Sql.lean `andM`,
  `orM`, `notM`), which the C12 theorems relate to the SQL reference denotation; on Booleans and null they are
  Kleene's connectives.
-/
import PysparklingVerif.Extracted.GenC12
import PysparklingVerif.Model.Sql
namespace PysparklingVerif.Extracted.C12
open PysparklingVerif PysparklingVerif.Gen.C12 PysparklingVerif.Sql

-- OBLIGATION: PysparklingVerif.Extracted.C12.andEval_eq
theorem andEval_eq (a b : SV) : andEval a b = Sql.andM a b := by
  unfold andEval Sql.andM
  cases a <;> cases b <;> simp [truthy]

-- OBLIGATION: PysparklingVerif.Extracted.C12.orEval_eq
theorem orEval_eq (a b : SV) : orEval a b = Sql.orM a b := by
  unfold orEval Sql.orM
  cases a <;> cases b <;> simp [truthy]

-- OBLIGATION: PysparklingVerif.Extracted.C12.invertEval_eq
theorem invertEval_eq (a : SV) : invertEval a = Sql.notM a := by
  unfold invertEval Sql.notM
  cases a <;> simp

-- OBLIGATION: PysparklingVerif.Extracted.C12.null_tests
/-- `isNull` / `isNotNull` never return null and are each other's negation -/
theorem null_tests (a : SV) :
    isNullEval a = .bool (decide (a = .null)) ∧ isNotNullEval a = .bool (!decide (a = .null)) := by
  unfold isNullEval isNotNullEval
  cases a <;> simp

/-- a truth value: null or a Boolean -/
def tv : Option Bool → SV
  | none => .null
  | some b => .bool b

-- OBLIGATION: PysparklingVerif.Extracted.C12.kleene
/-- on truth values the extracted connectives are Kleene's strong three-valued logic: FALSE dominates AND, TRUE
dominates OR, otherwise null is contagious; NOT maps null to null -/
theorem kleene (x y : Option Bool) :
    andEval (tv x) (tv y) = tv (match x, y with
      | some false, _ => some false | _, some false => some false
      | some true, some true => some true | _, _ => none) ∧
    orEval (tv x) (tv y) = tv (match x, y with
      | some true, _ => some true | _, some true => some true
      | some false, some false => some false | _, _ => none) ∧
    invertEval (tv x) = tv (x.map (!·)) := by
  cases x with
  | none => cases y with
    | none => simp [andEval, orEval, invertEval, tv, truthy]
    | some b => cases b <;> simp [andEval, orEval, invertEval, tv, truthy]
  | some a => cases a <;> (cases y with
    | none => simp [andEval, orEval, invertEval, tv, truthy]
    | some b => cases b <;> simp [andEval, orEval, invertEval, tv, truthy])

-- OBLIGATION: PysparklingVerif.Extracted.C12.modInt_eq
/-- the repaired `Mod.unsafe_operation`, on two ints, is the model's remainder: null for a zero divisor, otherwise the
remainder of the division truncated toward zero (`abs(a) % abs(b)` with the sign of `a` IS `Int.tmod a b`) -/
theorem modInt_eq (x y : Int) :
    modInt x y = if y = 0 then none else some (Int.tmod x y) := by
  unfold modInt
  split
  · rfl
  · rename_i hy
    congr 1
    have hf : Int.fmod ((Int.natAbs x : Nat) : Int) ((Int.natAbs y : Nat) : Int) = ((x.natAbs % y.natAbs : Nat) : Int) := by
      rw [Int.fmod_eq_emod_of_nonneg _ (by omega)]; exact (Int.natCast_emod _ _).symm
    rw [hf]
    have h2 : (Int.tmod x y).natAbs = x.natAbs % y.natAbs := Int.natAbs_tmod x y
    generalize hr : x.natAbs % y.natAbs = r at h2 ⊢
    by_cases hx : x < 0
    · simp only [hx, if_true]
      have h3 : Int.tmod x y ≤ 0 := by
        have h4 := Int.tmod_nonneg y (show 0 ≤ -x by omega)
        rw [Int.neg_tmod] at h4
        generalize Int.tmod x y = t at h4 ⊢
        omega
      generalize Int.tmod x y = t at h2 h3 ⊢
      simp only [Option.some.injEq]
      omega
    · simp only [hx, if_false]
      have h3 : 0 ≤ Int.tmod x y := Int.tmod_nonneg y (by omega)
      generalize Int.tmod x y = t at h2 h3 ⊢
      simp only [Option.some.injEq]
      omega

-- OBLIGATION: PysparklingVerif.Extracted.C12.modInt_is_arithM
/-- … which is what the model's `arithM .mod` computes on integers -/
theorem modInt_is_arithM (x y : Int) :
    arithM .mod (.int x) (.int y) = .ok (match modInt x y with | none => .null | some r => .int r) := by
  rw [modInt_eq]
  by_cases hy : y = 0 <;> simp [arithM, hy]

-- OBLIGATION: PysparklingVerif.Extracted.C12.divRat_is_ratArith
/-- `Divide.unsafe_operation` (`value1 / value2 if value2 != 0 else None`), on numbers as exact rationals, is the model's
division: null for a zero divisor, the quotient otherwise -/
theorem divRat_is_ratArith (x y : Rat) :
    ratArith .div x y = (match divRat x y with | none => .null | some q => .dbl q) := by
  unfold divRat ratArith
  by_cases hy : y = 0 <;> simp [hy]

end PysparklingVerif.Extracted.C12
