/-
  The generator plumbing of C06 as regenerated from the current source text (GenC06.lean) is the pull-based model of
  Model/Lazy.lean: the stages of `map` / `filter` / `flatMap` are the model's stream transformers, a lineage of
  `MapPartitionsRDD.compute` calls is the model's `build`, the sampling stage pulls everything upstream whatever it draws, and the result handlers of `take(n)` and `first()` - `islice` over
  `chain.from_iterable` of the per-partition iterators - perform exactly the calls, and return exactly the values, of the
  model's `takeChain` (partition by partition, the next one touched only when the previous ones ran dry), about which
  Properties/C06.lean proves the prefix / no-later-partition / never-twice theorems.
  ASSUMED by the translation (trusted, and sampled by the call-log campaign): a generator expression evaluates its element
  expression when an output is pulled; `itertools.chain.from_iterable` and `itertools.islice` pull on demand; the local job
  hands the partition iterators on without evaluating them.
-/
import PysparklingVerif.Extracted.GenC06
import PysparklingVerif.Lemmas.LazyChain
import PysparklingVerif.Lemmas.LazySample
import PysparklingVerif.Properties.C06
namespace PysparklingVerif.Extracted.C06
open PysparklingVerif PysparklingVerif.Lazy PysparklingVerif.Gen.C06

/-- the stage the current text builds for an element-wise operation of the model -/
def stageOf {α : Type} (k : Nat) : LOp α → LStream α → LStream α
  | .map f => mapStage k f
  | .filter p => filterStage k p
  | .flatMap f => flatMapStage k f

/-- a lineage of `MapPartitionsRDD`s over a source partition: each `compute` applies its stage to the parent's `compute` -/
def lineage {α : Type} : List (LOp α) → Nat → LStream α → LStream α
  | [], _, s => s
  | op :: rest, k, s => lineage rest (k + 1) (compute (stageOf k op) s)

-- OBLIGATION: PysparklingVerif.Extracted.C06.stages_are_model
/-- the three generator expressions are the model's stream transformers -/
theorem stages_are_model {α : Type} (k : Nat) (op : LOp α) (s : LStream α) : stageOf k op s = applyOp k op s := by
  cases op <;> rfl

-- OBLIGATION: PysparklingVerif.Extracted.C06.lineage_is_build
/-- a lineage of any length computes the model's `build` (about which `lazy_values`, `single_pass_exactly_once` and
`no_foreign_events` speak) -/
theorem lineage_is_build {α : Type} (ops : List (LOp α)) (k : Nat) (s : LStream α) : lineage ops k s = build ops k s := by
  induction ops generalizing k s with
  | nil => rfl
  | cons op rest ih =>
    simp only [lineage, build, compute]
    rw [stages_are_model, ih]

-- OBLIGATION: PysparklingVerif.Extracted.C06.sampleStage_pulls_everything
/-- the sampling stage as the text builds it: a full pass performs EXACTLY the calls of a full pass over its parent, in the
same order, whatever the sampler draws; every parent output appears as often as drawn for it -/
theorem sampleStage_pulls_everything {α : Type} (draws : List Nat) (s : LStream α) :
    (pullAll (sampleStage draws s)).1 = (pullAll s).1 ∧
    (pullAll (sampleStage draws s)).2 =
      ((s.cells.map (·.value)).zipIdx.flatMap fun (v, i) => List.replicate (draws.getD i 0) v) :=
  ⟨pullAll_lsample_events draws s, pullAll_lsample_values draws s⟩

-- OBLIGATION: PysparklingVerif.Extracted.C06.sampleStage_nothing_drawn
/-- `sample(…, 0.0)`: nothing comes out, and still every upstream call is made (no short cut) -/
theorem sampleStage_nothing_drawn {α : Type} (s : LStream α) :
    (pullAll (sampleStage [] s)).2 = [] ∧ (pullAll (sampleStage [] s)).1 = (pullAll s).1 :=
  lsample_nothing s

-- OBLIGATION: PysparklingVerif.Extracted.C06.takeHandler_is_takeChain
/-- `take(n)`: `list(islice(chain.from_iterable(l), n))` is the model's `takeChain n l`, for every `n` and every list of
partition streams -/
theorem takeHandler_is_takeChain {α : Type} (n : Nat) (l : List (LStream α)) : takeHandler n l = takeChain n l :=
  isliceList_chain_eq_takeChain n l

-- OBLIGATION: PysparklingVerif.Extracted.C06.firstHandler_is_takeChain
/-- `first()`: `first_of(chain.from_iterable(l))` pulls like `take(1)` -/
theorem firstHandler_is_takeChain {α : Type} (l : List (LStream α)) : firstHandler l = takeChain 1 l :=
  isliceList_chain_eq_takeChain 1 l

-- OBLIGATION: PysparklingVerif.Extracted.C06.isEmpty_calls
/-- `isEmpty()` calls what `take(1)` calls (nothing at all on a dataset without partitions) and answers whether it got an element -/
theorem isEmpty_calls {α : Type} (l : List (LStream α)) :
    isEmpty l = (if l.isEmpty then ([], true) else ((takeChain 1 l).1, (takeChain 1 l).2.length == 0)) := by
  unfold isEmpty
  rw [takeHandler_is_takeChain]

-- OBLIGATION: PysparklingVerif.Extracted.C06.take_text_end_to_end
/-- END TO END, for the text as it stands: `take(n)` of a dataset with partitions `parts` under a pipeline `ops` of any
length - the result handler applied to the lineages of all partitions - returns the first `n` elements of the plain-list
result, and the calls it makes to the user function of stage `j` are a PREFIX of the elements that stage applies to over
the whole dataset: nothing is evaluated twice, nothing beyond what a full pass would evaluate -/
theorem take_text_end_to_end {α : Type} (ops : List (LOp α)) (parts : List (List α)) (n j : Nat) (hj : j < ops.length) :
    (takeHandler n (parts.map fun p => lineage ops 0 (source p))).2 = (parts.flatMap fun p => runListAll ops p).take n ∧
    C06.argsOf j (takeHandler n (parts.map fun p => lineage ops 0 (source p))).1 <+:
      parts.flatMap fun p => runListAll (ops.take j) p := by
  have hl : (parts.map fun p => lineage ops 0 (source p)) = parts.map (C06.partStream ops) := by
    apply List.map_congr_left
    intro p _
    exact lineage_is_build ops 0 (source p)
  have hv : ∀ ps : List (List α), (ps.flatMap fun a => (pullAll (C06.partStream ops a)).2) = ps.flatMap fun p => runListAll ops p := by
    intro ps
    induction ps with
    | nil => rfl
    | cons p ps ih => simp only [List.flatMap_cons, ih, C06.lazy_values ops p]
  rw [hl, takeHandler_is_takeChain]
  refine ⟨?_, C06.take_never_twice ops parts n j hj⟩
  rw [(C06.take_values_prefix n (parts.map (C06.partStream ops))).1, List.flatMap_map, hv]

-- non-vacuity: two partitions, filter then map, take 2 touches only the first partition's first three elements
example : (takeHandler 2 ([[1, 2, 3, 4], [5, 6]].map fun p => lineage [LOp.filter (fun x : Nat => x % 2 == 1), .map (· * 10)] 0 (source p)))
    = ([⟨0, 1⟩, ⟨1, 1⟩, ⟨0, 2⟩, ⟨0, 3⟩, ⟨1, 3⟩], [10, 30]) := by decide

end PysparklingVerif.Extracted.C06
