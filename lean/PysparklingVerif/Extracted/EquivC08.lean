/-
  Codec selection by file name, the codec suffix of part files and the line encoding, as regenerated from the
  current source text (GenC08.lean: the `FILE_ENDINGS` table, `get_codec`, the suffix computation shared by
  saveAsTextFile / saveAsPickleFile, `to_stringio`), are those of the text model (Model/TextIO.lean), which the C08
  round-trip theorems are about.
-/
import PysparklingVerif.Extracted.GenC08
import PysparklingVerif.Model.TextIO
namespace PysparklingVerif.Extracted.C08
open PysparklingVerif PysparklingVerif.Gen.C08

/-- the codec classes of the source as the model names them -/
def toModel : CodecName → TextIO.Codec
  | .Codec => .base
  | .NoCodec => .noCodec
  | .Tar => .tar
  | .TarGz => .targz
  | .TarBz2 => .tarbz2
  | .Gz => .gz
  | .Zip => .zip
  | .Bz2 => .bz2
  | .Lzma => .lzma
  | .SevenZ => .sevenz


/-! ### helper lemmas -/

theorem sub_cast (n i : Nat) (hi : i < n) : (n : Int) - 1 - (i : Int) = ((n - 1 - i : Nat) : Int) := by omega

/-- `s.rfind(c)` of the source (an `Int`, -1 when absent) is the model's `rfind` (an `Option Nat`) -/
theorem rfindChar_eq (s : TextIO.Str) (c : Char) :
    Str.rfindChar s c = (match TextIO.rfind s c with | some i => (i : Int) | none => -1) := by
  cases h : s.reverse.findIdx? (· = c) with
  | none => simp only [Str.rfindChar, TextIO.rfind, h]
  | some i =>
    have hi : i < s.length := by
      have := (List.findIdx?_eq_some_iff_findIdx_eq.mp h).1
      simpa using this
    simp only [Str.rfindChar, TextIO.rfind, h]
    exact sub_cast s.length i hi

/-- `c in s` of the source is list membership -/
theorem hasInfix_char (s : TextIO.Str) (c : Char) : Str.hasInfix s [c] = s.contains c := by
  rw [Bool.eq_iff_iff]
  simp only [Str.hasInfix, List.any_eq_true, List.mem_range, List.contains_iff_mem,
    List.isPrefixOf_iff_prefix]
  constructor
  · rintro ⟨i, _, h⟩
    exact List.mem_of_mem_drop (h.subset (List.mem_singleton_self c))
  · intro h
    obtain ⟨i, hi, rfl⟩ := List.getElem_of_mem h
    refine ⟨i, by omega, ?_⟩
    rw [List.drop_eq_getElem_cons hi]
    exact ⟨_, rfl⟩

/-- the model's `rfind` finds nothing exactly when the character does not occur -/
theorem rfind_eq_none_iff (s : TextIO.Str) (c : Char) : TextIO.rfind s c = none ↔ c ∉ s := by
  cases h : s.reverse.findIdx? (· = c) with
  | none =>
    simp only [TextIO.rfind, h, true_iff]
    intro hc
    have := List.findIdx?_eq_none_iff.mp h c (List.mem_reverse.mpr hc)
    simp at this
  | some i =>
    simp only [TextIO.rfind, h, reduceCtorEq, false_iff, Classical.not_not]
    have hi := (List.findIdx?_eq_some_iff_findIdx_eq.mp h)
    have hlt : List.findIdx (· = c) s.reverse < s.reverse.length := by omega
    have := List.findIdx_getElem (w := hlt)
    have hm : s.reverse[List.findIdx (· = c) s.reverse] ∈ s.reverse := List.getElem_mem _
    simp only [decide_eq_true_eq] at this
    rw [this] at hm
    exact List.mem_reverse.mp hm

theorem hasInfix_dot_false_iff (s : TextIO.Str) :
    (¬ (Str.hasInfix s ".".toList = true)) ↔ TextIO.rfind s '.' = none := by
  rw [show (".".toList : List Char) = ['.'] from rfl, hasInfix_char, List.contains_iff_mem,
    rfind_eq_none_iff]

/-- `path.endswith(e)` of the source is the model's `endsWith` -/
theorem isSuffixOf_eq_endsWith (e s : TextIO.Str) : List.isSuffixOf e s = TextIO.endsWith s e := rfl

/-- every ending of the table contains a '.' -/
theorem dot_mem_of_ending : ∀ row ∈ TextIO.fileEndings, ∀ e ∈ row.1, '.' ∈ e := by
  decide

/-- a path ending with one of the endings of the table contains a '.' -/
theorem rfind_dot_ne_none_of_endsWith (path : TextIO.Str)
    (h : TextIO.fileEndings.any (fun e => e.1.any (TextIO.endsWith path ·)) = true) :
    TextIO.rfind path '.' ≠ none := by
  rw [Ne, rfind_eq_none_iff, Classical.not_not]
  simp only [List.any_eq_true] at h
  obtain ⟨row, hrow, e, he, hs⟩ := h
  have hdot := dot_mem_of_ending row hrow e he
  rw [← isSuffixOf_eq_endsWith, List.isSuffixOf_iff_suffix] at hs
  exact hs.subset hdot

-- OBLIGATION: PysparklingVerif.Extracted.C08.fileEndings_eq
/-- the table of endings in the source is the model's, row by row and in order -/
theorem fileEndings_eq : fileEndings.map (fun r => (r.1, toModel r.2)) = TextIO.fileEndings := by
  rfl

-- OBLIGATION: PysparklingVerif.Extracted.C08.getCodec_eq
/-- `get_codec(path)` selects the model's codec for every path -/
theorem getCodec_eq (path : TextIO.Str) : toModel (getCodec path) = TextIO.getCodec path := by
  have hpick : toModel (match fileEndings.find? (fun row => row.1.any fun e => List.isSuffixOf e path) with
      | some row => row.2
      | none => CodecName.NoCodec) = TextIO.getCodec.pick path := by
    unfold TextIO.getCodec.pick
    rw [← fileEndings_eq, List.find?_map]
    have hfun : ((fun e : List TextIO.Str × TextIO.Codec => e.1.any (TextIO.endsWith path ·)) ∘
        fun r : List Str × CodecName => (r.1, toModel r.2)) =
        (fun row => row.1.any fun e => List.isSuffixOf e path) := rfl
    rw [hfun]
    cases fileEndings.find? (fun row => row.1.any fun e => List.isSuffixOf e path) <;> rfl
  have hd := rfindChar_eq path '.'
  have hs := rfindChar_eq path '/'
  have hdot := hasInfix_dot_false_iff path
  unfold getCodec TextIO.getCodec
  cases h1 : TextIO.rfind path '.' with
  | none =>
    rw [if_pos (Or.inl (hdot.mpr h1))]; rfl
  | some d =>
    have hnd : ¬ (¬ (Str.hasInfix path ".".toList = true)) := by
      intro hc; rw [hdot.mp hc] at h1; cases h1
    rw [h1] at hd
    cases h2 : TextIO.rfind path '/' with
    | none =>
      rw [h2] at hs
      have : ¬ ((¬ (Str.hasInfix path ".".toList = true)) ∨ (Str.rfindChar path '/' > Str.rfindChar path '.')) := by
        rintro (hc | hc)
        · exact hnd hc
        · rw [hd, hs] at hc; simp only at hc; omega
      rw [if_neg this]; exact hpick
    | some sl =>
      rw [h2] at hs
      simp only at hd hs
      by_cases hgt : sl > d
      · rw [if_pos (Or.inr (by rw [hd, hs]; omega))]
        simp only [hgt, if_true]; rfl
      · have : ¬ ((¬ (Str.hasInfix path ".".toList = true)) ∨ (Str.rfindChar path '/' > Str.rfindChar path '.')) := by
          rintro (hc | hc)
          · exact hnd hc
          · rw [hd, hs] at hc; omega
        rw [if_neg this]
        simp only [hgt, if_false]; exact hpick

-- OBLIGATION: PysparklingVerif.Extracted.C08.codecSuffix_eq
/-- the suffix given to part files is the model's, for every path -/
theorem codecSuffix_eq (path : TextIO.Str) : codecSuffix path = TextIO.codecSuffix path := by
  unfold codecSuffix TextIO.codecSuffix
  have hcond : (fileEndings.flatMap (·.1)).any (fun ending => List.isSuffixOf ending path) =
      TextIO.fileEndings.any (fun e => e.1.any (TextIO.endsWith path ·)) := by
    rw [List.any_flatMap, ← fileEndings_eq, List.any_map]; rfl
  rw [hcond]
  by_cases h : TextIO.fileEndings.any (fun e => e.1.any (TextIO.endsWith path ·)) = true
  · rw [if_pos h, if_pos h]
    have hne := rfind_dot_ne_none_of_endsWith path h
    have hd := rfindChar_eq path '.'
    cases h1 : TextIO.rfind path '.' with
    | none => exact absurd h1 hne
    | some d =>
      rw [h1] at hd
      simp only at hd
      rw [hd]; rfl
  · rw [if_neg h, if_neg h]

-- OBLIGATION: PysparklingVerif.Extracted.C08.toStringIO_eq
theorem toStringIO_eq (data : List TextIO.Str) : toStringIO data = TextIO.encodePart data := by
  rfl

end PysparklingVerif.Extracted.C08
