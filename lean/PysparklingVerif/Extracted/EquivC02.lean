/-
  The per-key lists of the join family, the grouping loop of `groupByKey`, the product of `cartesian` and the filter /
  projection of `subtractByKey`, as regenerated from the current source text (GenC02.lean), are what the keyed-operation
  model (Model/Keyed.lean, which the C02 theorems are about) applies: the model's operations ARE `flatMap` / `filter` of the
  extracted functions over the model's grouped datasets.
-/
import PysparklingVerif.Extracted.GenC02
import PysparklingVerif.Model.Keyed
namespace PysparklingVerif.Extracted.C02
open PysparklingVerif PysparklingVerif.Rdd PysparklingVerif.Keyed

variable {κ ν ω α β : Type} [DecidableEq κ]

theorem map_eq_flatMap_singleton {γ δ : Type} (f : γ → δ) (l : List γ) : l.map f = l.flatMap fun a => [f a] := by
  induction l with
  | nil => rfl
  | cons x xs ih => simp [ih]

-- OBLIGATION: PysparklingVerif.Extracted.C02.groupItems_eq
/-- the extracted grouping loop is the model's `groupList` -/
theorem groupItems_eq (it : List (κ × ν)) : Gen.C02.groupItems it = groupList it := by
  unfold Gen.C02.groupItems groupList Gen.C02.appendTo Gen.Assoc.has
  rfl

-- OBLIGATION: PysparklingVerif.Extracted.C02.join_eq
theorem join_eq (m : Option Nat) (a : Parts (κ × ν)) (b : Parts (κ × ω)) :
    Keyed.join m a b = Rdd.flatMap (Gen.C02.joinPerKey (groupList (flat b))) (groupByKey m a) := by
  unfold Keyed.join
  simp only []
  congr 1
  funext kv
  simp only [Gen.C02.joinPerKey, valuesOf]
  cases h : (groupList (flat b)).lookup kv.1 <;> simp

-- OBLIGATION: PysparklingVerif.Extracted.C02.leftOuterJoin_eq
theorem leftOuterJoin_eq (a : Parts (κ × ν)) (b : Parts (κ × ω)) :
    Keyed.leftOuterJoin a b = Rdd.flatMap (Gen.C02.leftOuterPerKey (groupList (flat b))) (groupByKey none a) := by
  unfold Keyed.leftOuterJoin
  simp only []
  congr 1
  funext kv
  simp only [Gen.C02.leftOuterPerKey, valuesOf]
  cases h : (groupList (flat b)).lookup kv.1 <;> simp

-- OBLIGATION: PysparklingVerif.Extracted.C02.rightOuterJoin_eq
theorem rightOuterJoin_eq (a : Parts (κ × ν)) (b : Parts (κ × ω)) :
    Keyed.rightOuterJoin a b = Rdd.flatMap (Gen.C02.rightOuterPerKey (groupList (flat a))) (groupByKey none b) := by
  unfold Keyed.rightOuterJoin
  simp only []
  congr 1
  funext kv
  simp only [Gen.C02.rightOuterPerKey, valuesOf]
  cases h : (groupList (flat a)).lookup kv.1 <;> simp

-- OBLIGATION: PysparklingVerif.Extracted.C02.fullOuterJoin_eq
theorem fullOuterJoin_eq (a : Parts (κ × ν)) (b : Parts (κ × ω)) :
    Keyed.fullOuterJoin a b = Rdd.flatMap Gen.C02.fullOuterPerKey (cogroup a b) := by
  unfold Keyed.fullOuterJoin
  congr 1
  funext kv
  simp only [Gen.C02.fullOuterPerKey]
  cases h1 : kv.2.1.isEmpty <;> cases h2 : kv.2.2.isEmpty <;> simp

-- OBLIGATION: PysparklingVerif.Extracted.C02.semi_anti_eq
/-- `_leftSemiJoin` / `_leftAntiJoin` pair every kept value with `()` / `None`; the model keeps the value alone -/
theorem semi_anti_eq (a : Parts (κ × ν)) (b : Parts (κ × ω)) :
    Keyed.leftSemiJoin a b =
      Rdd.map (fun e => (e.1, e.2.1)) (Rdd.flatMap (Gen.C02.semiPerKey (groupList (flat b))) (groupByKey none a)) ∧
    Keyed.leftAntiJoin a b =
      Rdd.map (fun e => (e.1, e.2.1)) (Rdd.flatMap (Gen.C02.antiPerKey (groupList (flat b))) (groupByKey none a)) := by
  constructor
  · unfold Keyed.leftSemiJoin Rdd.map Rdd.flatMap
    simp only [List.map_map]
    congr 1
    funext p
    simp only [Function.comp, Gen.C02.semiPerKey, valuesOf, List.map_flatMap]
    congr 1
    funext kv
    by_cases h : ((groupList (flat b)).lookup kv.1).isSome = true <;> simp [h, map_eq_flatMap_singleton]
  · unfold Keyed.leftAntiJoin Rdd.map Rdd.flatMap
    simp only [List.map_map]
    congr 1
    funext p
    simp only [Function.comp, Gen.C02.antiPerKey, valuesOf, List.map_flatMap]
    congr 1
    funext kv
    by_cases h : ((groupList (flat b)).lookup kv.1).isSome = true <;> simp [h, map_eq_flatMap_singleton]

-- OBLIGATION: PysparklingVerif.Extracted.C02.cartesian_eq
theorem cartesian_eq (a : Parts α) (b : Parts β) :
    Keyed.cartesian a b = [Gen.C02.cartesianList (flat a) (flat b)] := by
  rfl

-- OBLIGATION: PysparklingVerif.Extracted.C02.subtractByKey_eq
theorem subtractByKey_eq (a : Parts (κ × ν)) (b : Parts (κ × ω)) :
    Keyed.subtractByKey a b =
      Rdd.flatMapValues Gen.C02.subtractValues (Rdd.filter Gen.C02.subtractKeep (cogroup a b)) := by
  unfold Keyed.subtractByKey
  congr 1
  · congr 1
    funext kv
    simp [Gen.C02.subtractKeep]

end PysparklingVerif.Extracted.C02
