/-
  The layout arithmetic of C07 as regenerated from the current source text (GenC07.lean) is the model the
  slicing / coalescing theorems are about (Model/Rdd.lean).
-/
import PysparklingVerif.Extracted.GenC07
import PysparklingVerif.Model.Rdd
set_option linter.unusedSimpArgs false
namespace PysparklingVerif.Extracted.C07
open PysparklingVerif PysparklingVerif.Rdd

-- OBLIGATION: PysparklingVerif.Extracted.C07.slice_bounds_eq
theorem slice_bounds_eq (i len n : Nat) :
    Gen.C07.sliceStart i len n = bound i len n ∧ Gen.C07.sliceEnd i len n = bound (i + 1) len n := by
  constructor <;> first | rfl | simp [Gen.C07.sliceStart, Gen.C07.sliceEnd, bound, Nat.mul_comm, Nat.add_comm]

-- OBLIGATION: PysparklingVerif.Extracted.C07.coalesceMapping_eq
/-- equality of two expressions; both read `// 0` and `% 0` as Lean does, so at `m = 0` with `cur ≥ 1` (where the code
raises ZeroDivisionError) this says nothing about the code - the property theorems that use the mapping carry `1 ≤ m` -/
theorem coalesceMapping_eq (cur m : Nat) : Gen.C07.coalesceMapping cur m = coalesceMapping cur m := by
  simp only [Gen.C07.coalesceMapping, coalesceMapping, List.range'_eq_map_range, Nat.add_sub_cancel_left] <;>
    first
      | rfl
      | simp only [Nat.add_comm]
      | simp [Nat.add_comm, Nat.min_comm]

-- OBLIGATION: PysparklingVerif.Extracted.C07.uniqueId_eq
/-- the id expression of `zipWithUniqueId` is `k * n + i`, which the model's `zipWithUniqueId` uses -/
theorem uniqueId_eq (α : Type) (ps : Parts α) :
    zipWithUniqueId ps = ps.zipIdx.map (fun (p, i) => p.zipIdx.map (fun (x, k) => (x, Gen.C07.uniqueId k ps.length i))) := by
  first
    | rfl
    | simp [zipWithUniqueId, Gen.C07.uniqueId, Nat.mul_comm, Nat.add_comm]

end PysparklingVerif.Extracted.C07
