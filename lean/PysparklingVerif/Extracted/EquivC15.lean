/-
  Schema names and row names, operation by operation, as regenerated from the current source text (GenC15.lean: the
  comprehension that builds the new SCHEMA and the comprehension that builds every new ROW in
  `DataFrameInternal.withColumnRenamed`, `toDF`, `drop` and `union`): on a frame whose rows carry the schema's names and
  as many values, the two comprehensions yield the same names — C15's invariant, preserved by the text of each
  operation — and for `withColumnRenamed` / `union` they are the names of the frame model (Model/Frame.lean `opNames`).
-/
import PysparklingVerif.Extracted.GenC15
import PysparklingVerif.Model.Frame
namespace PysparklingVerif.Extracted.C15
open PysparklingVerif PysparklingVerif.Gen.C15

/-- the first components of a zip are the left list cut to the length of the right one -/
theorem zip_map_fst_take {α β : Type} : ∀ (a : List α) (b : List β), (List.zip a b).map (fun p => p.1) = a.take b.length
  | [], _ => by simp
  | _ :: _, [] => by simp
  | x :: xs, y :: ys => by
    have ih := zip_map_fst_take xs ys
    rw [List.zip_cons_cons, List.map_cons, ih]; rfl

theorem zip_map_fst {α β : Type} (a : List α) (b : List β) (h : a.length = b.length) :
    (List.zip a b).map (fun p => p.1) = a := by
  rw [zip_map_fst_take, ← h, List.take_length]

-- OBLIGATION: PysparklingVerif.Extracted.C15.renamed_names_agree
/-- `withColumnRenamed`: every new row carries exactly the names of the new schema, which are the model's -/
theorem renamed_names_agree (existing new : String) (schema : Names) (values : List Unit) (h : schema.length = values.length) :
    renamedRowNames existing new schema values = renamedSchemaNames existing new schema ∧
    renamedSchemaNames existing new schema = schema.map (fun n => if n == existing then new else n) := by
  unfold renamedRowNames renamedSchemaNames
  constructor
  · have h1 : (List.zip schema values).map (fun p => if p.1 = existing then new else p.1)
        = ((List.zip schema values).map (fun p => p.1)).map (fun x => if x = existing then new else x) := by
      rw [List.map_map]; rfl
    rw [h1, zip_map_fst schema values h]
    apply List.map_congr_left
    intro n _
    by_cases hn : n = existing <;> simp [hn]
  · apply List.map_congr_left
    intro n _
    by_cases hn : n = existing <;> simp [hn]

-- OBLIGATION: PysparklingVerif.Extracted.C15.toDF_names_agree
/-- `toDF(names)`: rows and schema are renamed alike, and when as many names are given as there are columns the new
names are exactly the given ones -/
theorem toDF_names_agree (new_names schema : Names) (values : List Unit) (h : schema.length = values.length) :
    toDFRowNames new_names values = toDFSchemaNames new_names schema ∧
    (new_names.length = schema.length → toDFSchemaNames new_names schema = new_names) := by
  unfold toDFRowNames toDFSchemaNames
  constructor
  · rw [zip_map_fst_take, zip_map_fst_take, h]
  · intro hl
    exact zip_map_fst new_names schema hl

-- OBLIGATION: PysparklingVerif.Extracted.C15.drop_names_agree
/-- `drop`: rows and schema lose the same positions -/
theorem drop_names_agree (positions : List Nat) (schema : Names) :
    dropRowNames positions schema = dropSchemaNames positions schema := rfl

-- OBLIGATION: PysparklingVerif.Extracted.C15.union_names_agree
/-- `union`: the rows of the other frame are re-keyed with this frame's names (same number of columns) -/
theorem union_names_agree (schema : Names) (values : List Unit) (h : schema.length = values.length) :
    unionOtherRowNames schema values = schema := by
  unfold unionOtherRowNames
  exact zip_map_fst schema values h

end PysparklingVerif.Extracted.C15
