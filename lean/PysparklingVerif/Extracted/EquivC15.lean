/-
  Schema names and row names, operation by operation, as regenerated from the current source text (GenC15.lean: the
  comprehension that builds the new SCHEMA and the comprehension that builds every new ROW in
  `DataFrameInternal.withColumnRenamed`, `toDF`, `drop` and `union`, and the projection `withColumn` builds): on a frame whose rows carry the schema's names and
  as many values, the two comprehensions yield the same names — C15's invariant, preserved by the text of each
  operation — and for `withColumnRenamed` / `union` they are the names of the frame model (Model/Frame.lean `opNames`).
-/
import PysparklingVerif.Extracted.GenC15
import PysparklingVerif.Model.Frame
namespace PysparklingVerif.Extracted.C15
open PysparklingVerif PysparklingVerif.Gen.C15

/-- the first components of a zip are the left list cut to the length of the right one -/
theorem zip_map_fst_take {α β : Type} : ∀ (a : List α) (b : List β), (List.zip a b).map (fun p => p.1) = a.take b.length
  | [], _ => by simp
  | _ :: _, [] => by simp
  | x :: xs, y :: ys => by
    have ih := zip_map_fst_take xs ys
    rw [List.zip_cons_cons, List.map_cons, ih]; rfl

theorem zip_map_fst {α β : Type} (a : List α) (b : List β) (h : a.length = b.length) :
    (List.zip a b).map (fun p => p.1) = a := by
  rw [zip_map_fst_take, ← h, List.take_length]

-- OBLIGATION: PysparklingVerif.Extracted.C15.renamed_names_agree
/-- `withColumnRenamed`: every new row carries exactly the names of the new schema, which are the model's -/
theorem renamed_names_agree (existing new : String) (schema : Names) (values : List Unit) (h : schema.length = values.length) :
    renamedRowNames existing new schema values = renamedSchemaNames existing new schema ∧
    renamedSchemaNames existing new schema = schema.map (fun n => if n == existing then new else n) := by
  unfold renamedRowNames renamedSchemaNames
  constructor
  · have h1 : (List.zip schema values).map (fun p => if p.1 = existing then new else p.1)
        = ((List.zip schema values).map (fun p => p.1)).map (fun x => if x = existing then new else x) := by
      rw [List.map_map]; rfl
    rw [h1, zip_map_fst schema values h]
    apply List.map_congr_left
    intro n _
    by_cases hn : n = existing <;> simp [hn]
  · apply List.map_congr_left
    intro n _
    by_cases hn : n = existing <;> simp [hn]

-- OBLIGATION: PysparklingVerif.Extracted.C15.toDF_names_agree
/-- `toDF(names)`: rows and schema are renamed alike, and when as many names are given as there are columns the new
names are exactly the given ones -/
theorem toDF_names_agree (new_names schema : Names) (values : List Unit) (h : schema.length = values.length) :
    toDFRowNames new_names values = toDFSchemaNames new_names schema ∧
    (new_names.length = schema.length → toDFSchemaNames new_names schema = new_names) := by
  unfold toDFRowNames toDFSchemaNames
  constructor
  · rw [zip_map_fst_take, zip_map_fst_take, h]
  · intro hl
    exact zip_map_fst new_names schema hl

-- OBLIGATION: PysparklingVerif.Extracted.C15.drop_names_agree
/-- `drop`: rows and schema lose the same positions -/
theorem drop_names_agree (positions : List Nat) (schema : Names) :
    dropRowNames positions schema = dropSchemaNames positions schema := rfl

-- OBLIGATION: PysparklingVerif.Extracted.C15.union_names_agree
/-- `union`: the rows of the other frame are re-keyed with this frame's names (same number of columns) -/
theorem union_names_agree (schema : Names) (values : List Unit) (h : schema.length = values.length) :
    unionOtherRowNames schema values = schema := by
  unfold unionOtherRowNames
  exact zip_map_fst schema values h

-- OBLIGATION: PysparklingVerif.Extracted.C15.withColumn_selection_is_model
/-- `withColumn` on an existing name, as the current text builds it: the projection has one element per field of the frame -
the new column where the field carries the name, the field AT ITS POSITION otherwise - and evaluating it on a row of the
frame's width (`FieldAsExpression.eval` with a position is `row[position]`) gives exactly the row of the model
(`Sql.withColumnM`: `(r.zip names).map fun (x, n) => if n == name then v else x`), whether or not the names are unique.
A projection that referred to the untouched fields by the field alone (the unrepaired text) is not translatable: two columns
may carry the same field. -/
theorem withColumn_selection_is_model {α : Type} (colName : String) (names : Names) (r : List α) (v : α)
    (h : r.length = names.length) :
    (withColumnSelection colName names).map (ColRef.eval v r)
      = ((r.zip names).map fun (x, n) => if n == colName then v else x).map some := by
  apply List.ext_getElem?
  intro j
  unfold withColumnSelection
  simp only [List.getElem?_map, List.getElem?_zipIdx, List.getElem?_zip_eq_some]
  by_cases hj : j < names.length
  · have hj' : j < r.length := by omega
    simp [List.getElem?_eq_getElem hj, ColRef.eval]
    have hz : (r.zip names)[j]? = some (r[j], names[j]) := by
      rw [List.getElem?_zip_eq_some]; exact ⟨List.getElem?_eq_getElem hj', List.getElem?_eq_getElem hj⟩
    by_cases hn : names[j] = colName
    · simp [hn, ColRef.eval, hz]
    · simp [hn, ColRef.eval, List.getElem?_eq_getElem hj', hz]
  · have hj' : ¬ j < r.length := by omega
    have hz : (r.zip names)[j]? = none := by
      apply List.getElem?_eq_none; simp [List.length_zip]; omega
    simp [List.getElem?_eq_none (Nat.le_of_not_lt hj), hz]

-- OBLIGATION: PysparklingVerif.Extracted.C15.withColumn_replaces_iff
/-- the test that selects the replacing branch is the model's `names.contains name` -/
theorem withColumn_replaces_iff (colName : String) (names : Names) :
    withColumnReplaces colName names = names.contains colName := by
  unfold withColumnReplaces
  induction names with
  | nil => rfl
  | cons n ns ih =>
    rw [List.any_cons, ih, List.contains_cons]
    by_cases hn : n = colName
    · simp [hn]
    · have hn' : ¬ colName = n := fun h => hn h.symm
      simp [hn, hn']

/-- the name an element of the projection carries: `new_col` is `parse(col).alias(colName)`, a field reference carries the
name of the field at its position -/
def colRefName (colName : String) (names : Names) : ColRef → Option String
  | .new => some colName
  | .at p => names[p]?

-- OBLIGATION: PysparklingVerif.Extracted.C15.withColumn_selection_names
/-- `withColumn` on an existing name leaves the NAMES of the frame as they are, position by position, and the projection has
one element per column: the schema and the rows of the result - both produced from this one projection by `select` - carry
the same names (C15's invariant), also when a name occurs several times -/
theorem withColumn_selection_names (colName : String) (names : Names) :
    (withColumnSelection colName names).map (colRefName colName names) = names.map some ∧
    (withColumnSelection colName names).length = names.length := by
  constructor
  · apply List.ext_getElem?
    intro j
    unfold withColumnSelection
    simp only [List.getElem?_map, List.getElem?_zipIdx]
    by_cases hj : j < names.length
    · simp [List.getElem?_eq_getElem hj]
      by_cases hn : names[j] = colName
      · simp [hn, colRefName]
      · simp [hn, colRefName, List.getElem?_eq_getElem hj]
    · simp [List.getElem?_eq_none (Nat.le_of_not_lt hj)]
  · simp [withColumnSelection]

end PysparklingVerif.Extracted.C15
