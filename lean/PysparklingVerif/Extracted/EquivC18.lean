/-
  The bounded-integer cast kernel of C18 as regenerated from the current source text (GenC18.lean) is the
  model the wrap-around theorems are about (Model/Cast.lean).
-/
import PysparklingVerif.Extracted.GenC18
import PysparklingVerif.Model.Cast
import PysparklingVerif.Properties.C18
set_option linter.unusedSimpArgs false
namespace PysparklingVerif.Extracted.C18
open PysparklingVerif PysparklingVerif.Cast

-- OBLIGATION: PysparklingVerif.Extracted.C18.castBoundedNumeric_eq
theorem castBoundedNumeric_eq (lo hi v : Int) : Gen.C18.castBoundedNumeric lo hi v = castBounded lo hi v := by
  first
    | rfl
    | (simp only [Gen.C18.castBoundedNumeric, castBounded, pymod, Int.sub_eq_add_neg, Int.neg_add, Int.neg_neg,
        Int.add_assoc, Int.add_comm, Int.add_left_comm] <;>
        (repeat' split) <;> first | rfl | omega | (simp_all; done))

-- OBLIGATION: PysparklingVerif.Extracted.C18.bounds_eq
/-- the four `(min_value, max_value)` pairs in the source are the two's-complement ranges of 8/16/32/64 bits -/
theorem bounds_eq :
    Gen.C18.byteBounds = (Width.byte.minV, Width.byte.maxV) ∧ Gen.C18.shortBounds = (Width.short.minV, Width.short.maxV) ∧
    Gen.C18.intBounds = (Width.int.minV, Width.int.maxV) ∧ Gen.C18.longBounds = (Width.long.minV, Width.long.maxV) ∧
    (∀ w : Width, w.minV = -(2 : Int) ^ (w.bits - 1) ∧ w.maxV = (2 : Int) ^ (w.bits - 1) - 1) := by
  refine ⟨?_, ?_, ?_, ?_, ?_⟩
  · first | rfl | decide +kernel
  · first | rfl | decide +kernel
  · first | rfl | decide +kernel
  · first | rfl | decide +kernel
  · intro w
    cases w <;> decide +kernel

-- OBLIGATION: PysparklingVerif.Extracted.C18.castBoundedParsed_spec
/-- string branch: the parsed integer is returned iff it is in range, else null -/
theorem castBoundedParsed_spec (lo hi v : Int) :
    Gen.C18.castBoundedParsed lo hi v = if lo ≤ v ∧ v ≤ hi then some v else none := by
  first
    | rfl
    | (simp only [Gen.C18.castBoundedParsed] <;> (repeat' split) <;> first | rfl | omega | (simp_all; done))

-- OBLIGATION: PysparklingVerif.Extracted.C18.generated_wraps
/-- hence the code as it reads now wraps: for every integer and every width the numeric branch returns the
two's-complement value -/
theorem generated_wraps (w : Width) (v : Int) :
    Gen.C18.castBoundedNumeric w.minV w.maxV v = wrap w.bits v := by
  rw [castBoundedNumeric_eq]
  exact PysparklingVerif.C18.cast_int_wraps w v

end PysparklingVerif.Extracted.C18
