/-
  `WindowedDStream._step` as regenerated from the current source text (GenC11.lean) is the window bookkeeping of
  the stream model (Model/Stream.lean: `pushWindow`, the slide counter and the emission rule of `step`'s `win`
  branch and of `windowRun`, which the C11 theorems are about): the guard on the interval already processed,
  append-then-trim of the buffer (the `while len(window) > duration: pop(0)` loop terminates within the fuel the
  extractor computed and never raises), the counter, and what is emitted between and on slides.
-/
import PysparklingVerif.Extracted.GenC11
import PysparklingVerif.Model.Stream
namespace PysparklingVerif.Extracted.C11
open PysparklingVerif PysparklingVerif.Gen.C11 PysparklingVerif.Stream

/-- what a consumer of the windowed stream collects: nothing from an `EmptyRDD`, the in-order concatenation of
the buffered batches from `context.union(window)` -/
def flat {α : Type} : Emit (Batch α) → Batch α
  | .empty => []
  | .union w => w.flatten

/-- the trimming loop `while len(window) > duration: window.pop(0)` as the extractor renders it -/
private abbrev trimBody {β : Type} : Win β → Option (Win β ⊕ Win β) := fun (s_3 : Win β) =>
  if ((s_3.window).length > s_3.window_duration) then
    match s_3.window with
    | [] => none
    | _ :: rest_4 =>
      some (.inr { current_time := s_3.current_time, window := rest_4, window_duration := s_3.window_duration, slide_duration := s_3.slide_duration, slide_counter := s_3.slide_counter, current_rdd := s_3.current_rdd })
  else some (.inl s_3)

/-- the loop terminates within any fuel above the buffer length, never raises, and keeps the last
`window_duration` entries -/
private theorem trim_loop {β : Type} (ct wd sd sc : Nat) (e : Emit β) :
    ∀ (fuel : Nat) (l : List β), l.length + 1 ≤ fuel →
      Gen.iterOpt (ρ := Win β) trimBody fuel
        { current_time := ct, window := l, window_duration := wd, slide_duration := sd, slide_counter := sc,
          current_rdd := e } =
      some { current_time := ct, window := l.drop (l.length - wd), window_duration := wd, slide_duration := sd,
             slide_counter := sc, current_rdd := e } := by
  intro fuel
  induction fuel with
  | zero => intro l h; omega
  | succ n ih =>
    intro l h
    by_cases hl : l.length > wd
    · cases l with
      | nil => simp at hl
      | cons a r =>
        have hr : r.length + 1 ≤ n := by simp at h; omega
        have hd : (a :: r).length - wd = (r.length - wd) + 1 := by simp at hl ⊢; omega
        simp only [Gen.iterOpt, trimBody, hl, if_true]
        rw [ih r hr, hd, List.drop_succ_cons]
    · have hd : l.length - wd = 0 := by omega
      simp only [Gen.iterOpt, trimBody, hl, if_false, hd, List.drop_zero]

/-- `trim_loop` for any rendering `f` of the loop body that agrees with `trimBody` pointwise (so the proofs below
do not depend on the exact text of the generated lambda) -/
private theorem trim_loop_any {β : Type} (f : Win β → Option (Win β ⊕ Win β)) (hf : ∀ s, f s = trimBody s)
    (ct wd sd sc : Nat) (e : Emit β) (fuel : Nat) (l : List β) (h : l.length + 1 ≤ fuel) :
      Gen.iterOpt (ρ := Win β) f fuel
        { current_time := ct, window := l, window_duration := wd, slide_duration := sd, slide_counter := sc,
          current_rdd := e } =
      some { current_time := ct, window := l.drop (l.length - wd), window_duration := wd, slide_duration := sd,
             slide_counter := sc, current_rdd := e } := by
  have hff : f = trimBody := funext hf
  subst hff
  exact trim_loop ct wd sd sc e fuel l h

-- OBLIGATION: PysparklingVerif.Extracted.C11.winStep_guard
/-- an interval that was already processed leaves the stream untouched -/
theorem winStep_guard {β : Type} (self : Win β) (t : Nat) (b : β) (h : t ≤ self.current_time) :
    winStep self t b = some self := by
  simp only [winStep, h, if_true]

-- OBLIGATION: PysparklingVerif.Extracted.C11.winStep_eq
/-- a new interval: the buffer is `pushWindow`, the counter advances modulo the slide, and the stream emits the
union of the buffer exactly when the counter wraps to 0 -/
theorem winStep_eq {α : Type} (self : Win (Batch α)) (t : Nat) (b : Batch α) (h : self.current_time < t)
    (hs : 0 < self.slide_duration) :
    winStep self t b = some
      { current_time := t
        window := pushWindow self.window_duration self.window b
        window_duration := self.window_duration
        slide_duration := self.slide_duration
        slide_counter := (self.slide_counter + 1) % self.slide_duration
        current_rdd := if (self.slide_counter + 1) % self.slide_duration = 0
                       then .union (pushWindow self.window_duration self.window b) else .empty } := by
  have hn : ¬ t ≤ self.current_time := by omega
  have hs0 : ¬ self.slide_duration = 0 := by omega
  unfold winStep
  rw [if_neg hn]
  dsimp only
  rw [trim_loop_any _ ?hf t self.window_duration self.slide_duration self.slide_counter self.current_rdd
    ((self.window ++ [b]).length + 1) (self.window ++ [b]) (Nat.le_refl _)]
  case hf => intro s; rfl
  dsimp only [pushWindow]
  rw [if_neg hs0]
  by_cases hc : (self.slide_counter + 1) % self.slide_duration = 0 <;> simp [hc]

/-- the extracted step driven over a batch history (one batch per interval, intervals numbered from `t + 1`) -/
def genRun {α : Type} (st : Win (Batch α)) (t : Nat) : List (Batch α) → Option (List (Batch α))
  | [] => some []
  | b :: rest =>
    match winStep st (t + 1) b with
    | none => none
    | some st' => (genRun st' (t + 1) rest).map (flat st'.current_rdd :: ·)

-- OBLIGATION: PysparklingVerif.Extracted.C11.winStep_zero_slide
/-- a slide shorter than half a batch interval rounds to 0 intervals: stepping such a stream raises (ZeroDivisionError) -/
theorem winStep_zero_slide {β : Type} (self : Win β) (t : Nat) (b : β) (h : self.current_time < t)
    (hs : self.slide_duration = 0) : winStep self t b = none := by
  have hn : ¬ t ≤ self.current_time := by omega
  unfold winStep
  rw [if_neg hn]
  dsimp only
  rw [trim_loop_any _ ?hf t self.window_duration self.slide_duration self.slide_counter self.current_rdd
    ((self.window ++ [b]).length + 1) (self.window ++ [b]) (Nat.le_refl _)]
  case hf => intro s; rfl
  dsimp only
  rw [if_pos hs]

-- OBLIGATION: PysparklingVerif.Extracted.C11.genRun_eq_windowRun
/-- over any batch history the extracted code emits exactly the model's `windowRun` (which `C11.window_emission`
and `C11.count_by_window` characterise), from any buffer and counter -/
theorem genRun_eq_windowRun {α : Type} (w s : Nat) (buf : List (Batch α)) (c t0 t : Nat) (e : Emit (Batch α))
    (ht : t0 ≤ t) (hs : 0 < s) (bs : List (Batch α)) :
    genRun { current_time := t0, window := buf, window_duration := w, slide_duration := s, slide_counter := c,
             current_rdd := e } t bs = some (windowRun w s bs (buf, c)) := by
  induction bs generalizing buf c t0 t e with
  | nil => simp [genRun, windowRun]
  | cons b rest ih =>
    have hlt : t0 < t + 1 := by omega
    have hstep := winStep_eq (α := α)
      { current_time := t0, window := buf, window_duration := w, slide_duration := s, slide_counter := c,
        current_rdd := e } (t + 1) b hlt hs
    simp only at hstep
    simp only [genRun, hstep, windowRun]
    rw [ih _ _ (t + 1) (t + 1) _ (Nat.le_refl _)]
    by_cases hc : (c + 1) % s = 0 <;> simp [hc, flat]

end PysparklingVerif.Extracted.C11
