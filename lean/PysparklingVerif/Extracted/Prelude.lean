/-
  Hand-written support for the statement-level extractor (harness/extract_m.py). Core-only.

  `iterOpt body fuel s` runs `body` until it answers `.inl r` (finished with `r`); `.inr s'` means
  "go round again with `s'`"; `none` is an escaped exception — or the fuel ran out, so a theorem of the
  form `gen … = some model` also shows that the extracted loop terminates within the fuel the
  extractor computed for it.
-/
namespace PysparklingVerif.Gen

def iterOpt {σ ρ : Type} (body : σ → Option (ρ ⊕ σ)) : Nat → σ → Option ρ
  | 0, _ => none
  | fuel + 1, s =>
    match body s with
    | none => none
    | some (.inl r) => some r
    | some (.inr s') => iterOpt body fuel s'

/-- Python `dict` as an association list in insertion order -/
abbrev Assoc (κ ν : Type) := List (κ × ν)

namespace Assoc
variable {κ ν : Type} [BEq κ]
/-- `k in d` -/
def has (d : Assoc κ ν) (k : κ) : Bool := d.any (·.1 == k)
/-- `d[k] = v` -/
def put (d : Assoc κ ν) (k : κ) (v : ν) : Assoc κ ν := d.filter (·.1 != k) ++ [(k, v)]
/-- `del d[k]` (the caller has checked `k in d`) -/
def erase (d : Assoc κ ν) (k : κ) : Assoc κ ν := d.filter (·.1 != k)
/-- `d[k] = v` as Python does it: an existing key keeps its position -/
def set (d : Assoc κ ν) (k : κ) (v : ν) : Assoc κ ν :=
  if d.any (·.1 == k) then d.map fun p => if p.1 == k then (p.1, v) else p else d ++ [(k, v)]
/-- `d.update(other)` -/
def update (d other : Assoc κ ν) : Assoc κ ν := other.foldl (fun d p => set d p.1 p.2) d
/-- `d[k]` (`none` = KeyError) -/
def get? (d : Assoc κ ν) (k : κ) : Option ν := d.lookup k
end Assoc

end PysparklingVerif.Gen
