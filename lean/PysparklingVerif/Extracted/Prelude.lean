/-
  Hand-written support for the statement-level extractor (harness/extract_m.py). Core-only.

  `iterOpt body fuel s` runs `body` until it answers `.inl r` (finished with `r`); `.inr s'` means
  "go round again with `s'`"; `none` is an escaped exception — or the fuel ran out, so a theorem of the
  form `gen … = some model` also shows that the extracted loop terminates within the fuel the
  extractor computed for it.
-/
namespace PysparklingVerif.Gen

def iterOpt {σ ρ : Type} (body : σ → Option (ρ ⊕ σ)) : Nat → σ → Option ρ
  | 0, _ => none
  | fuel + 1, s =>
    match body s with
    | none => none
    | some (.inl r) => some r
    | some (.inr s') => iterOpt body fuel s'

/-- Python `dict` as an association list in insertion order -/
abbrev Assoc (κ ν : Type) := List (κ × ν)

namespace Assoc
variable {κ ν : Type} [BEq κ]
/-- `k in d` -/
def has (d : Assoc κ ν) (k : κ) : Bool := d.any (·.1 == k)
/-- `d[k] = v` -/
def put (d : Assoc κ ν) (k : κ) (v : ν) : Assoc κ ν := d.filter (·.1 != k) ++ [(k, v)]
/-- `del d[k]` (the caller has checked `k in d`) -/
def erase (d : Assoc κ ν) (k : κ) : Assoc κ ν := d.filter (·.1 != k)
/-- `d[k]` (`none` = KeyError) -/
def get? (d : Assoc κ ν) (k : κ) : Option ν := d.lookup k
end Assoc

end PysparklingVerif.Gen
