/-
  The actions of `RDD` as regenerated from the current source text (GenC01.lean: `aggregate`, `fold`, `count`,
  `sum`, `collect`, `toLocalIterator`, `first`, `take`, `reduce` — each a task function applied to every partition
  and a result handler applied to the list of task results) are the actions of the RDD model (Model/Rdd.lean), which
  the C01 theorems relate to plain-list evaluation. The zero value of `aggregate` is deep-copied once per partition
  and once for the combine (`deepcopy` occurs in exactly those two places in the generated text).
-/
import PysparklingVerif.Extracted.GenC01
import PysparklingVerif.Model.Rdd
namespace PysparklingVerif.Extracted.C01
open PysparklingVerif

-- OBLIGATION: PysparklingVerif.Extracted.C01.aggregate_eq
theorem aggregate_eq {α β : Type} (z : β) (seq : β → α → β) (comb : β → β → β) (ps : Rdd.Parts α) :
    Gen.C01.aggregate z seq comb ps = Rdd.aggregate z seq comb ps := rfl

-- OBLIGATION: PysparklingVerif.Extracted.C01.fold_eq
theorem fold_eq {α : Type} (z : α) (op : α → α → α) (ps : Rdd.Parts α) :
    Gen.C01.fold z op ps = Rdd.fold z op ps := rfl

-- OBLIGATION: PysparklingVerif.Extracted.C01.count_eq
theorem count_eq {α : Type} (ps : Rdd.Parts α) : Gen.C01.count ps = Rdd.count ps := rfl

-- OBLIGATION: PysparklingVerif.Extracted.C01.sum_eq
theorem sum_eq (ps : Rdd.Parts Int) : Gen.C01.sum ps = Rdd.sumInt ps := rfl

-- OBLIGATION: PysparklingVerif.Extracted.C01.collect_eq
theorem collect_eq {α : Type} (ps : Rdd.Parts α) :
    Gen.C01.collect ps = Rdd.collect ps ∧ Gen.C01.toLocalIterator ps = Rdd.toLocalIterator ps := by
  simp [Gen.C01.collect, Gen.C01.toLocalIterator, Rdd.collect, Rdd.toLocalIterator, Rdd.flat]

-- OBLIGATION: PysparklingVerif.Extracted.C01.first_take_eq
theorem first_take_eq {α : Type} (n : Nat) (ps : Rdd.Parts α) :
    Gen.C01.first ps = Rdd.first ps ∧ Gen.C01.take n ps = Rdd.take n ps := by
  simp [Gen.C01.first, Gen.C01.take, Rdd.first, Rdd.take, Rdd.flat]

/-- the combining step of the model's sentinel reducer (`none` = the `_empty` sentinel) -/
def step {α : Type} (f : α → α → α) : Option α → Option α → Option α :=
  fun a b => match a, b with
    | none, b => b
    | a, none => a
    | some a, some b => some (f a b)

theorem reducer_def {α : Type} (f : α → α → α) (os : List (Option α)) :
    Rdd.reducer f os = os.foldl (step f) none := rfl

/-- folding the sentinel step from any accumulator skips the absent values -/
theorem foldl_step {α : Type} (f : α → α → α) (os : List (Option α)) (acc : Option α) :
    os.foldl (step f) acc =
      match acc with
      | none => Gen.C01.reduce1 f (os.filterMap id)
      | some a => some ((os.filterMap id).foldl f a) := by
  induction os generalizing acc with
  | nil => cases acc <;> rfl
  | cons o os ih =>
    rw [List.foldl_cons, ih]
    cases acc <;> cases o <;> simp [step, Gen.C01.reduce1]

/-- the model's sentinel reducer is `reduce1` of the present values -/
theorem reducer_filterMap {α : Type} (f : α → α → α) (os : List (Option α)) :
    Rdd.reducer f os = Gen.C01.reduce1 f (os.filterMap id) := by
  rw [reducer_def, foldl_step]

/-- the model's sentinel reducer on a list of present values is `reduce1` -/
theorem reducer_some {α : Type} (f : α → α → α) (xs : List α) :
    Rdd.reducer f (xs.map some) = Gen.C01.reduce1 f xs := by
  rw [reducer_filterMap, List.filterMap_map]
  simp

/-- the list-wrapped partial results, concatenated, are the present per-partition results -/
theorem flatten_reducer {α : Type} (f : α → α → α) (ps : List (List α)) :
    (ps.map (Gen.C01.reducer f)).flatten = (ps.map (Gen.C01.reduce1 f)).filterMap id := by
  induction ps with
  | nil => rfl
  | cons p ps ih =>
    rw [List.map_cons, List.flatten_cons, ih, List.map_cons]
    cases h : Gen.C01.reduce1 f p <;> simp [Gen.C01.reducer, h]

/-- the head of the list-wrapped result is the result -/
theorem reducer_head {α : Type} (f : α → α → α) (l : List α) :
    (Gen.C01.reducer f l).head? = Gen.C01.reduce1 f l := by
  unfold Gen.C01.reducer
  cases Gen.C01.reduce1 f l <;> rfl

-- OBLIGATION: PysparklingVerif.Extracted.C01.reduce_eq
/-- `reduce` with list-wrapped partial results (empty for an empty partition) is the model's reduce with a sentinel -/
theorem reduce_eq {α : Type} (f : α → α → α) (ps : Rdd.Parts α) :
    Gen.C01.reduce f ps = Rdd.reduce f ps := by
  show (Gen.C01.reducer f ((ps.map (Gen.C01.reducer f)).flatten)).head? = _
  rw [reducer_head, flatten_reducer]
  unfold Rdd.reduce
  rw [reducer_filterMap]
  simp only [reducer_some]

end PysparklingVerif.Extracted.C01
