/-
  The order of tests and effects of `RDD.saveAsTextFile` as regenerated from the current source text (GenC09.lean):
  (1) for ANY behaviour of the effects — whatever `exists`, `dump` and the job do — an existing target is refused
  before any effect runs, the marker is written only after the job over all partitions returned normally, a failed
  job or a single-partition save never reaches the marker write; (2) with the effects of the save model
  (Model/Save.lean: `tryWriteT`, `savePartsT`) it is the model's `saveTextT`, which the C09 theorems are about.
-/
import PysparklingVerif.Extracted.GenC09
import PysparklingVerif.Model.Save
namespace PysparklingVerif.Extracted.C09
open PysparklingVerif PysparklingVerif.Gen.C09 PysparklingVerif.Save PysparklingVerif.TextIO

-- OBLIGATION: PysparklingVerif.Extracted.C09.exists_refused_before_any_effect
/-- an existing target: FileAlreadyExistsException, and the store is the one the call started with (no effect ran) -/
theorem exists_refused_before_any_effect {σ : Type} (E : Eff σ) (st : σ) (h : E.pathExists st = true) :
    saveAsTextFile E st = (st, .alreadyExists) := by
  simp [saveAsTextFile, h]

-- OBLIGATION: PysparklingVerif.Extracted.C09.refused_only_if_exists
theorem refused_only_if_exists {σ : Type} (E : Eff σ) (st st' : σ) (h : saveAsTextFile E st = (st', .alreadyExists)) :
    E.pathExists st = true ∧ st' = st := by
  unfold saveAsTextFile at h
  split at h
  · simp_all
  · split at h
    · split at h <;> simp_all
    · split at h
      · simp_all
      · split at h <;> simp_all

-- OBLIGATION: PysparklingVerif.Extracted.C09.marker_only_after_all_parts
/-- a multi-partition save that returns normally ran the job to its normal end and then wrote the marker — in that
order, and nothing after it -/
theorem marker_only_after_all_parts {σ : Type} (E : Eff σ) (st st' : σ) (hs : E.single st = false)
    (h : saveAsTextFile E st = (st', .ok)) :
    E.pathExists st = false ∧ ∃ st2, E.runParts st = (st2, true) ∧ E.dumpMarker st2 = (st', true) := by
  unfold saveAsTextFile at h
  split at h
  · simp_all
  · rename_i he
    simp only [hs] at h
    rcases hj : E.runParts st with ⟨st2, b⟩
    cases b
    · simp_all
    · rcases hm : E.dumpMarker st2 with ⟨st3, b'⟩
      cases b' <;> simp_all

-- OBLIGATION: PysparklingVerif.Extracted.C09.failed_job_never_reaches_marker
/-- when the job over the partitions raises, its exception reaches the caller and the store is left exactly as the job
left it: the marker write is never attempted -/
theorem failed_job_never_reaches_marker {σ : Type} (E : Eff σ) (st st2 : σ) (he : E.pathExists st = false)
    (hs : E.single st = false) (hj : E.runParts st = (st2, false)) :
    saveAsTextFile E st = (st2, .failed) := by
  simp [saveAsTextFile, he, hs, hj]

-- OBLIGATION: PysparklingVerif.Extracted.C09.single_partition_one_write
/-- the single-partition fast path is the one write of the whole file: no job over partitions, no marker -/
theorem single_partition_one_write {σ : Type} (E : Eff σ) (st : σ) (he : E.pathExists st = false)
    (hs : E.single st = true) :
    saveAsTextFile E st = ((E.dumpSingle st).1, if (E.dumpSingle st).2 then .ok else .failed) := by
  unfold saveAsTextFile
  rcases hd : E.dumpSingle st with ⟨st1, b⟩
  cases b <;> simp [he, hs]

/-- `true`/`false` of an effect as the result of the call -/
def okOf (b : Bool) : Gen.C09.SaveResult := if b then .ok else .failed

/-- the decision tree in projection form -/
theorem saveAsTextFile_proj {σ : Type} (E : Eff σ) (st : σ) :
    saveAsTextFile E st =
      if E.pathExists st then (st, .alreadyExists)
      else if E.single st then ((E.dumpSingle st).1, okOf (E.dumpSingle st).2)
      else if (E.runParts st).2 then
        ((E.dumpMarker (E.runParts st).1).1, okOf (E.dumpMarker (E.runParts st).1).2)
      else ((E.runParts st).1, .failed) := by
  unfold saveAsTextFile
  cases he : E.pathExists st
  · cases hs : E.single st
    · rcases hj : E.runParts st with ⟨st2, b⟩
      cases b
      · simp
      · rcases hm : E.dumpMarker st2 with ⟨st3, b'⟩
        cases b' <;> simp [okOf, hm]
    · rcases hd : E.dumpSingle st with ⟨st1, b⟩
      cases b <;> simp [okOf]
  · simp

/-- the effects as the save model has them, under a fault plan with torn writes -/
def modelEff (path : Str) (parts : List (List Str)) (maxR : Nat) (wfail torn : Nat → Bool) (cfail : Nat → Nat → Bool) :
    Eff St :=
  { pathExists := fun st => st.fs.pathExists path
    single := fun _ => parts.length == 1
    dumpSingle := fun st =>
      if computeOk maxR (cfail 0) then tryWriteT wfail torn st path (encodePart (parts.headD [])) else (st, false)
    runParts := fun st => savePartsT maxR wfail torn cfail path (codecSuffix path) parts 0 st
    dumpMarker := fun st => tryWriteT wfail torn st (joinPath path marker) [] }

def toModel : Gen.C09.SaveResult → Save.SaveResult
  | .ok => .ok
  | .alreadyExists => .alreadyExists
  | .failed => .failed

theorem toModel_okOf (b : Bool) : toModel (okOf b) = if b then .ok else .failed := by
  cases b <;> rfl

-- OBLIGATION: PysparklingVerif.Extracted.C09.saveAsTextFile_eq_model
/-- with the model's effects the extracted control flow IS `saveTextT` -/
theorem saveAsTextFile_eq_model (fs : FS) (path : Str) (parts : List (List Str)) (maxR : Nat) (wfail torn : Nat → Bool)
    (cfail : Nat → Nat → Bool) :
    ((saveAsTextFile (modelEff path parts maxR wfail torn cfail) ⟨fs, 0⟩).1.fs,
      toModel (saveAsTextFile (modelEff path parts maxR wfail torn cfail) ⟨fs, 0⟩).2) =
    saveTextT fs path parts maxR wfail torn cfail := by
  rw [saveAsTextFile_proj]
  unfold saveTextT
  cases he : fs.pathExists path
  · match parts with
    | [] =>
      simp [modelEff, he, savePartsT, toModel_okOf]
      rfl
    | [p] =>
      simp [modelEff, he]
      cases hc : computeOk maxR (cfail 0)
      · simp [toModel_okOf]
      · simp [toModel_okOf]
    | p :: q :: rest =>
      simp [modelEff, he]
      cases hj : (savePartsT maxR wfail torn cfail path (codecSuffix path) (p :: q :: rest) 0 ⟨fs, 0⟩).2
      · simp [toModel]
      · simp [toModel_okOf]
  · simp [modelEff, he, toModel]

end PysparklingVerif.Extracted.C09
