/-
  The moment kernels of C14 as regenerated from the current source text (GenC14.lean) compute the moment fields
  of the accumulator model (Model/Agg.lean). `update_moments` / `merge_moments` leave count and sum alone (the
  callers `update_counters` / `mergeStats` add them afterwards, as `momentsAdd` / `momentsMerge` do).
-/
import PysparklingVerif.Extracted.GenC14
import PysparklingVerif.Model.Agg
import Mathlib.Tactic.Ring
import Mathlib.Tactic.FieldSimp
import Mathlib.Tactic.Linarith
import Mathlib.Tactic.NormNum
import Mathlib.Tactic.SplitIfs
import Mathlib.Tactic.Positivity
import Mathlib.Algebra.Order.Field.Rat
set_option linter.unnecessarySeqFocus false
set_option linter.unusedSimpArgs false
set_option linter.unusedTactic false
set_option linter.unreachableTactic false
namespace PysparklingVerif.Extracted.C14
open PysparklingVerif

def ofSt (s : Agg.St) : Gen.C14.Mom := ⟨s.n, s.sum, s.m2, s.m3, s.m4⟩

/-- the generated `deltaN` guards its division (`… / new_count if new_count != 0 else 0`); with Lean's
`x / 0 = 0` the guard is the plain quotient -/
theorem div_guard (d n : Rat) [inst : Decidable (n ≠ 0)] : (@ite _ (n ≠ 0) inst (d / n) 0) = d / n := by
  split_ifs <;> simp_all
theorem div_guard' (d n : Rat) [inst : Decidable (¬ n = 0)] : (@ite _ (¬ n = 0) inst (d / n) 0) = d / n := by
  split_ifs <;> simp_all

-- OBLIGATION: PysparklingVerif.Extracted.C14.updateMoments_eq
theorem updateMoments_eq (s : Agg.St) (x : Rat) :
    let g := Gen.C14.updateMoments (ofSt s) x
    let m := Agg.momentsAdd s x
    g.m2 = m.m2 ∧ g.m3 = m.m3 ∧ g.m4 = m.m4 ∧ g.count = s.n ∧ g.sum_of_values = s.sum := by
  dsimp only [ofSt, Gen.C14.updateMoments, Agg.momentsAdd]
  (try simp only [gt_iff_lt, Nat.cast_pos]) <;>
    (try split_ifs) <;> refine ⟨?_, ?_, ?_, ?_, ?_⟩ <;>
    first | trivial | rfl | ring1 | (exfalso; omega) | (simp_all; done)

-- OBLIGATION: PysparklingVerif.Extracted.C14.mergeMoments_eq
theorem mergeMoments_eq (a b : Agg.St) :
    let g := Gen.C14.mergeMoments (ofSt a) (ofSt b)
    let m := Agg.momentsMerge a b
    g.m2 = m.m2 ∧ g.m3 = m.m3 ∧ g.m4 = m.m4 ∧ g.count = a.n ∧ g.sum_of_values = a.sum := by
  dsimp only [ofSt, Gen.C14.mergeMoments, Agg.momentsMerge]
  (try simp only [Nat.cast_eq_zero, div_guard, div_guard', ne_eq]) <;>
    (try split_ifs) <;> refine ⟨?_, ?_, ?_, ?_, ?_⟩ <;>
    first | trivial | rfl | ring1 | (exfalso; omega) | (simp_all; done)

end PysparklingVerif.Extracted.C14
