/-
  The arithmetic kernels of C17 as regenerated from the current source text (GenC17.lean) are the models the
  property theorems are about (Model/Stats.lean). The generated code computes in one number type (exact
  rationals); the model keeps the count as a natural number: `ofSC` / `ofCov` embed.
-/
import PysparklingVerif.Extracted.GenC17
import PysparklingVerif.Model.Stats
import Mathlib.Tactic.Ring
import Mathlib.Tactic.FieldSimp
import Mathlib.Tactic.Linarith
import Mathlib.Tactic.NormNum
import Mathlib.Tactic.SplitIfs
import Mathlib.Algebra.Order.Field.Rat
set_option linter.unnecessarySeqFocus false
set_option linter.unusedSimpArgs false
set_option linter.unusedTactic false
set_option linter.unreachableTactic false
namespace PysparklingVerif.Extracted.C17
open PysparklingVerif

def ofSC (s : Stats.SC) : Gen.C17.SC := ⟨s.n, s.mu, s.m2⟩
def ofCov (c : Stats.Cov) : Gen.C17.Cov := ⟨c.count, c.xAvg, c.yAvg, c.ck, c.mkX, c.mkY⟩

-- OBLIGATION: PysparklingVerif.Extracted.C17.scMerge_eq
/-- `StatCounter.merge(value)` as the source says now = the Welford update of the model -/
theorem scMerge_eq (s : Stats.SC) (x : Rat) : Gen.C17.scMerge (ofSC s) x = ofSC (s.add x) := by
  dsimp only [ofSC, Gen.C17.scMerge, Stats.SC.add]
  simp only [Gen.C17.SC.mk.injEq]
  refine ⟨?_, ?_, ?_⟩ <;> first | rfl | (push_cast; ring1)

-- OBLIGATION: PysparklingVerif.Extracted.C17.scMergeStats_eq
/-- `StatCounter.mergeStats(other)` as the source says now (all three mean-update branches, both empty cases)
= the Chan merge of the model -/
theorem scMergeStats_eq (s o : Stats.SC) : Gen.C17.scMergeStats (ofSC s) (ofSC o) = ofSC (s.merge o) := by
  have h1 : ((o.n : Rat) * 10 < (s.n : Rat)) ↔ o.n * 10 < s.n := by exact_mod_cast Iff.rfl
  have h2 : ((s.n : Rat) * 10 < (o.n : Rat)) ↔ s.n * 10 < o.n := by exact_mod_cast Iff.rfl
  dsimp only [ofSC, Gen.C17.scMergeStats, Stats.SC.merge]
  simp only [Nat.cast_eq_zero, h1, h2, ne_eq]
  split_ifs <;> simp only [Gen.C17.SC.mk.injEq] <;> refine ⟨?_, ?_, ?_⟩ <;>
    first | rfl | (push_cast; ring1) | (exfalso; omega) | (simp_all; done)

-- OBLIGATION: PysparklingVerif.Extracted.C17.covAdd_eq
theorem covAdd_eq (c : Stats.Cov) (x y : Rat) : Gen.C17.covAdd (ofCov c) x y = ofCov (c.add x y) := by
  dsimp only [ofCov, Gen.C17.covAdd, Stats.Cov.add]
  simp only [Gen.C17.Cov.mk.injEq]
  refine ⟨?_, ?_, ?_, ?_, ?_, ?_⟩ <;> first | rfl | (push_cast; ring1)

-- OBLIGATION: PysparklingVerif.Extracted.C17.covMerge_eq
theorem covMerge_eq (c o : Stats.Cov) : Gen.C17.covMerge (ofCov c) (ofCov o) = ofCov (c.merge o) := by
  dsimp only [ofCov, Gen.C17.covMerge, Stats.Cov.merge]
  simp only [gt_iff_lt, Nat.cast_pos]
  split_ifs <;> simp only [Gen.C17.Cov.mk.injEq] <;> refine ⟨?_, ?_, ?_, ?_, ?_, ?_⟩ <;>
    first | rfl | (push_cast; ring1) | (exfalso; omega) | (simp_all; done)

end PysparklingVerif.Extracted.C17
