/-
  `Local.resolve_filenames` as regenerated from the current source text (GenC20.lean) — scheme stripping, the
  existing-file shortcut, anchoring a relative pattern at `./` when its literal prefix names no directory, walking from
  the directory of the literal prefix, keeping the walked paths that match the expression or `expression/part*`, and
  dropping the `./` of the anchoring from the kept paths (`path[2:]`, the model's `unanchor`) —
  is the resolution model (Model/Glob.lean `localResolve`, which the C20 theorems are about) once the environment
  (`os.path.isfile`, the tokenizer, `os.path.dirname`, `os.walk`, `fnmatch`) is the model's.
-/
import PysparklingVerif.Extracted.GenC20
import PysparklingVerif.Model.Glob
namespace PysparklingVerif.Extracted.C20
open PysparklingVerif PysparklingVerif.Gen.C20 PysparklingVerif.Glob

/-- the environment as the resolution model has it: `W` = the existing files as `os.walk` renders them -/
def modelEnv (W : List Glob.Str) (isFile : Glob.Str → Bool) : Env :=
  { isFile := isFile
    literalPrefix := Glob.literalPrefix
    dirname := Glob.dirname
    walk := Glob.walk W
    fnmatch := fun path pat => Glob.globMatch pat path }

/-- `c in s` for a one-character needle is list membership -/
theorem hasInfix_char (s : Glob.Str) (c : Char) : Str.hasInfix s [c] = s.contains c := by
  rw [Bool.eq_iff_iff]
  simp only [Str.hasInfix, List.any_eq_true, List.mem_range, List.contains_iff_mem,
    List.isPrefixOf_iff_prefix]
  constructor
  · rintro ⟨i, _, h⟩
    exact List.mem_of_mem_drop (h.subset (List.mem_singleton_self c))
  · intro h
    obtain ⟨i, hi, rfl⟩ := List.getElem_of_mem h
    refine ⟨i, by omega, ?_⟩
    rw [List.drop_eq_getElem_cons hi]
    exact ⟨_, rfl⟩

-- OBLIGATION: PysparklingVerif.Extracted.C20.hasInfix_slash
/-- `'/' in s` is what the model's `contains '/'` says -/
theorem hasInfix_slash (s : Glob.Str) : Str.hasInfix s "/".toList = s.contains '/' :=
  hasInfix_char s '/'

/-- `s.endswith(c)` for a one-character suffix is the model's last-character test -/
theorem isSuffixOf_char (s : Glob.Str) (c : Char) : List.isSuffixOf [c] s = (s.getLast? == some c) := by
  rw [Bool.eq_iff_iff]
  simp only [List.isSuffixOf_iff_suffix, beq_iff_eq]
  rcases List.eq_nil_or_concat s with rfl | ⟨t, a, rfl⟩
  · simp
  · rw [List.concat_eq_append, List.getLast?_concat, Option.some.injEq]
    constructor
    · rintro ⟨u, hu⟩
      have := congrArg List.getLast? hu
      simpa using this.symm
    · rintro rfl
      exact List.suffix_append _ _

theorem isSuffixOf_slash (s : Glob.Str) : List.isSuffixOf "/".toList s = endsWithSlash s :=
  isSuffixOf_char s '/'

-- OBLIGATION: PysparklingVerif.Extracted.C20.resolveFilenames_eq_model
/-- the extracted function is the model's `localResolve`, for every file-system content and every expression -/
theorem resolveFilenames_eq_model (W : List Glob.Str) (isFile : Glob.Str → Bool) (expr : Glob.Str) :
    resolveFilenames (modelEnv W isFile) expr = localResolve W isFile expr := by
  have hdot : (".".toList ++ "/".toList : Glob.Str) = "./".toList := rfl
  have hc : ∀ t : Glob.Str, ("./".toList ++ t).contains '/' = true := by
    intro t; rw [List.contains_iff_mem]; exact List.mem_append_left _ (by decide)
  unfold resolveFilenames localResolve stripScheme anchored walkRoot partsPattern unanchor modelEnv
  simp only [List.any_cons, List.any_nil, Bool.or_false, hasInfix_slash, isSuffixOf_slash, hdot,
    List.nil_append, decide_eq_true_eq]
  cases hp : List.isPrefixOf "file://".toList expr <;>
    simp only [Bool.false_eq_true, if_false, if_true]
  · cases hf : isFile expr <;> simp only [Bool.false_eq_true, if_false, if_true]
    cases hs : (literalPrefix expr).contains '/' <;>
      simp only [Bool.false_eq_true, if_false, if_true, not_false_eq_true, not_true_eq_false, hc, and_true,
        Bool.and_true, Bool.not_eq_eq_eq_not, Bool.not_true, Bool.decide_or, Bool.decide_eq_true]
    · cases he : endsWithSlash ("./".toList ++ literalPrefix expr) <;>
        simp only [Bool.false_eq_true, Bool.true_eq_false, not_false_eq_true, not_true_eq_false, if_false, if_true]
    · cases he : endsWithSlash (literalPrefix expr) <;>
        simp only [hs, List.map_id', Bool.not_false, Bool.not_true, Bool.and_self, Bool.false_and, Bool.false_eq_true,
          not_false_eq_true, not_true_eq_false, if_false, if_true]
  · cases hf : isFile (List.drop 7 expr) <;> simp only [Bool.false_eq_true, if_false, if_true]
    cases hs : (literalPrefix (List.drop 7 expr)).contains '/' <;>
      simp only [Bool.false_eq_true, if_false, if_true, not_false_eq_true, not_true_eq_false, hc, and_true,
        Bool.and_true, Bool.not_eq_eq_eq_not, Bool.not_true, Bool.decide_or, Bool.decide_eq_true]
    · cases he : endsWithSlash ("./".toList ++ literalPrefix (List.drop 7 expr)) <;>
        simp only [Bool.false_eq_true, Bool.true_eq_false, not_false_eq_true, not_true_eq_false, if_false, if_true]
    · cases he : endsWithSlash (literalPrefix (List.drop 7 expr)) <;>
        simp only [hs, List.map_id', Bool.not_false, Bool.not_true, Bool.and_self, Bool.false_and, Bool.false_eq_true,
          not_false_eq_true, not_true_eq_false, if_false, if_true]

end PysparklingVerif.Extracted.C20
