/-
  The JSON description of data types as regenerated from the current source text (GenC19.lean: `typeName` of the
  atomic classes, the `jsonValue` dict literals of DecimalType / ArrayType / MapType / StructType / StructField, the keys
  each `fromJson` reads, the "type" strings `_parse_datatype_json_value` dispatches on) is the printer `toJ` of the
  type model (Model/Types.lean), whose parser `ofJ` the C19 round-trip theorems invert; every class reads back exactly
  the keys it writes, and the parser dispatches on exactly the "type" strings the printers of the complex classes write.
-/
import PysparklingVerif.Extracted.GenC19
import PysparklingVerif.Model.Types
namespace PysparklingVerif.Extracted.C19
open PysparklingVerif PysparklingVerif.Types

-- OBLIGATION: PysparklingVerif.Extracted.C19.atomName_eq
theorem atomName_eq (a : Atom) : Gen.C19.atomName a = a.name := by
  cases a <;> rfl

mutual
private theorem toJ_eq_aux : (t : DType) → Gen.C19.toJ t = Types.toJ t
  | .atom a => by simp [Gen.C19.toJ, Types.toJ, atomName_eq]
  | .decimal p s => by simp [Gen.C19.toJ, Types.toJ, decimalString]
  | .array e cn => by simp [Gen.C19.toJ, Types.toJ, toJ_eq_aux e]
  | .map k v vcn => by simp [Gen.C19.toJ, Types.toJ, toJ_eq_aux k, toJ_eq_aux v]
  | .struct fs => by simp [Gen.C19.toJ, Types.toJ, toJFields_eq fs]
/-- the extracted field-list printer is the model's -/
theorem toJFields_eq : (fs : List (String × DType × Bool × J)) → Gen.C19.toJFields fs = Types.toJFields fs
  | [] => by simp [Gen.C19.toJFields, Types.toJFields]
  | (n, t, nu, md) :: r => by simp [Gen.C19.toJFields, Types.toJFields, toJ_eq_aux t, toJFields_eq r]
end

-- OBLIGATION: PysparklingVerif.Extracted.C19.toJ_eq
/-- the extracted printer is the model's, for every type tree -/
theorem toJ_eq (t : DType) : Gen.C19.toJ t = Types.toJ t := toJ_eq_aux t

-- OBLIGATION: PysparklingVerif.Extracted.C19.read_keys_are_written_keys
/-- every class reads back exactly the keys it writes (in constructor-argument order) -/
theorem read_keys_are_written_keys :
    Gen.C19.readArrayType = Gen.C19.writtenArrayType ∧ Gen.C19.readMapType = Gen.C19.writtenMapType ∧
    Gen.C19.readStructType = Gen.C19.writtenStructType ∧ Gen.C19.readStructField = Gen.C19.writtenStructField := by
  decide

-- OBLIGATION: PysparklingVerif.Extracted.C19.dispatch_names
/-- the parser dispatches on exactly the "type" strings the three complex printers write, and no atomic type name
collides with them (or with "decimal" / "udt") -/
theorem dispatch_names :
    Gen.C19.complexTypeNames = ["array", "map", "struct"] ∧
    (∀ a : Atom, Gen.C19.atomName a ∉ Gen.C19.complexTypeNames ∧ Gen.C19.atomName a ≠ "decimal" ∧ Gen.C19.atomName a ≠ "udt") := by
  refine ⟨rfl, ?_⟩
  intro a
  cases a <;> decide

end PysparklingVerif.Extracted.C19
