/-
  The schema of a DataFrame join as regenerated from the current source text (GenC13.lean: `merge_schemas`,
  `get_on_fields`, the join type constants) yields the column names of the join model (Model/Join.lean `joinNames`,
  which `C13.dfjoin_columns` characterises): the key columns once, then the remaining left columns, then — except for
  semi / anti joins — the remaining right columns; a cross join keeps every column of both sides; a full join makes
  the key columns nullable.
-/
import PysparklingVerif.Extracted.GenC13
import PysparklingVerif.Model.Join
namespace PysparklingVerif.Extracted.C13
open PysparklingVerif PysparklingVerif.Gen.C13

/-- the join types of the model as the constants of the source -/
def toHow : Join.How → How
  | .inner => .INNER_JOIN
  | .left => .LEFT_JOIN
  | .right => .RIGHT_JOIN
  | .full => .FULL_JOIN
  | .semi => .LEFT_SEMI_JOIN
  | .anti => .LEFT_ANTI_JOIN

def names (fs : List Field) : List String := fs.map (·.name)


/-! ### helper lemmas on `List.mapM` in `Option` with `find?` -/

private abbrev look (L : List Field) : String → Option Field := fun c => L.find? (fun field => field.name == c)

private theorem mapM_cons_opt {α β : Type} (f : α → Option β) (a : α) (l : List α) :
    (a :: l).mapM f = match f a with
      | none => none
      | some b => match l.mapM f with
        | none => none
        | some bs => some (b :: bs) := by
  rw [List.mapM_cons]
  cases f a <;> simp
  cases l.mapM f <;> simp

private theorem mapM_length {α β : Type} (f : α → Option β) (l : List α) (bs : List β)
    (h : l.mapM f = some bs) : bs.length = l.length := by
  induction l generalizing bs with
  | nil => simp at h; subst h; rfl
  | cons a l ih =>
    rw [mapM_cons_opt] at h
    cases hfa : f a with
    | none => simp [hfa] at h
    | some b =>
      cases hl : l.mapM f with
      | none => simp [hfa, hl] at h
      | some bs' =>
        simp [hfa, hl] at h
        subst h
        simp [ih bs' hl]

private theorem mapM_find_none (L : List Field) (on : List String) (c : String) (hc : c ∈ on)
    (hmiss : c ∉ names L) : on.mapM (look L) = none := by
  induction on with
  | nil => cases hc
  | cons a on ih =>
    rw [mapM_cons_opt]
    rcases List.mem_cons.mp hc with rfl | hc'
    · have : look L c = none := by
        simp only [look, List.find?_eq_none]
        intro x hx hxc
        exact hmiss (by simp only [names, List.mem_map]; exact ⟨x, hx, by simpa using hxc⟩)
      simp [this]
    · cases look L a with
      | none => rfl
      | some b => simp [ih hc']

private theorem name_inj (L : List Field) (hl : (names L).Nodup) (f g : Field) (hf : f ∈ L) (hg : g ∈ L)
    (h : f.name = g.name) : f = g := by
  induction L with
  | nil => cases hf
  | cons x L ih =>
    simp only [names, List.map_cons, List.nodup_cons, List.mem_map, not_exists, not_and] at hl
    rcases List.mem_cons.mp hf with rfl | hf' <;> rcases List.mem_cons.mp hg with rfl | hg'
    · rfl
    · exact absurd h.symm (hl.1 g hg')
    · exact absurd h (hl.1 f hf')
    · exact ih hl.2 hf' hg'

private theorem mapM_find_some (L : List Field) (on : List String) (hl : (names L).Nodup)
    (hon : ∀ c ∈ on, c ∈ names L) :
    ∃ fs, on.mapM (look L) = some fs ∧ names fs = on ∧ ∀ f ∈ L, fs.contains f = on.contains f.name := by
  induction on with
  | nil => exact ⟨[], by simp, rfl, by intro f _; rfl⟩
  | cons c on ih =>
    obtain ⟨fs, hfs, hn, hcont⟩ := ih (fun c hc => hon c (List.mem_cons_of_mem _ hc))
    have hcL : c ∈ names L := hon c List.mem_cons_self
    simp only [names, List.mem_map] at hcL
    obtain ⟨f0, hf0, hf0c⟩ := hcL
    cases hg : look L c with
    | none =>
      simp only [look, List.find?_eq_none] at hg
      exact absurd (by simpa using hf0c) (hg f0 hf0)
    | some g =>
      have hgp := List.find?_some hg
      have hgL : g ∈ L := List.mem_of_find?_eq_some hg
      have hgc : g.name = c := by simpa using hgp
      refine ⟨g :: fs, ?_, ?_, ?_⟩
      · rw [mapM_cons_opt]; simp [hg, hfs]
      · simp only [names, List.map_cons, hgc] at hn ⊢; rw [hn]
      · intro f hf
        rw [List.contains_cons, List.contains_cons, hcont f hf]
        congr 1
        rw [Bool.eq_iff_iff]
        simp only [beq_iff_eq]
        constructor
        · intro h; rw [h, hgc]
        · intro h; exact name_inj L hl f g hf hgL (by rw [h, hgc])

private theorem names_rest (L fs : List Field) (on : List String)
    (hcont : ∀ f ∈ L, fs.contains f = on.contains f.name) :
    names (L.filter fun f => !fs.contains f) = Join.restNames (names L) on := by
  simp only [names, Join.restNames, List.filter_map]
  congr 1
  apply List.filter_congr
  intro f hf
  show (!fs.contains f) = ((fun n => !on.contains n) ∘ fun x : Field => x.name) f
  rw [hcont f hf]; rfl

-- OBLIGATION: PysparklingVerif.Extracted.C13.mergeSchemas_names
/-- for schemas without repeated column names that both contain the join columns, `merge_schemas` returns normally and
its column names are the model's `joinNames` -/
theorem mergeSchemas_names (how : Join.How) (L R : List Field) (on : List String)
    (hl : (names L).Nodup) (hr : (names R).Nodup)
    (honl : ∀ c ∈ on, c ∈ names L) (honr : ∀ c ∈ on, c ∈ names R) :
    (mergeSchemas L R (toHow how) (some on)).map names = some (Join.joinNames how (names L) (names R) on) := by
  obtain ⟨fl, hfl, hnl, hcl⟩ := mapM_find_some L on hl honl
  obtain ⟨fr, hfr, hnr, hcr⟩ := mapM_find_some R on hr honr
  have hrl := names_rest L fl on hcl
  have hrr := names_rest R fr on hcr
  have hnull : names (fl.map fun field => { field with nullable := true }) = on := by
    rw [← hnl]; simp [names, List.map_map, Function.comp_def]
  have hfl' : List.mapM (fun c => List.find? (fun field => field.name == c) L) on = some fl := hfl
  have hfr' : List.mapM (fun c => List.find? (fun field => field.name == c) R) on = some fr := hfr
  unfold mergeSchemas getOnFields
  simp only [Option.getD_some, hfl', hfr']
  generalize List.filter (fun field => !fl.contains field) L = ol at hrl ⊢
  generalize List.filter (fun field => !fr.contains field) R = or at hrr ⊢
  generalize List.map (fun field : Field => { field with nullable := true }) fl = nl at hnull ⊢
  simp only [names] at hnl hnr hrl hrr hnull
  cases how <;> simp [toHow, Join.joinNames, names, hnl, hnr, hrl, hrr, hnull]

-- OBLIGATION: PysparklingVerif.Extracted.C13.mergeSchemas_missing_column
/-- a join column that one side does not have makes `merge_schemas` raise (no schema is produced) -/
theorem mergeSchemas_missing_column (how : How) (L R : List Field) (on : List String) (c : String) (hc : c ∈ on)
    (hmiss : c ∉ names L ∨ c ∉ names R) : mergeSchemas L R how (some on) = none := by
  unfold mergeSchemas getOnFields
  simp only [Option.getD_some]
  rcases hmiss with h | h
  · have : List.mapM (fun c => List.find? (fun field => field.name == c) L) on = none :=
      mapM_find_none L on c hc h
    rw [this]
  · have : List.mapM (fun c => List.find? (fun field => field.name == c) R) on = none :=
      mapM_find_none R on c hc h
    rw [this]
    cases List.mapM (fun c => List.find? (fun field => field.name == c) L) on <;> rfl

-- OBLIGATION: PysparklingVerif.Extracted.C13.mergeSchemas_cross
/-- `crossJoin`: every column of the left side, then every column of the right side, unchanged -/
theorem mergeSchemas_cross (L R : List Field) : mergeSchemas L R .CROSS_JOIN none = some (L ++ R) := by
  have ht : ∀ l : List Field, List.filter (fun _ => true) l = l := fun l => List.filter_eq_self.2 (by simp)
  simp [mergeSchemas, getOnFields, ht]

-- OBLIGATION: PysparklingVerif.Extracted.C13.full_join_keys_nullable
/-- a full join makes every key column nullable (either side may be missing); the other join types keep the key fields
of the left (right join: right) side as they are -/
theorem full_join_keys_nullable (L R : List Field) (on : List String) (fs : List Field)
    (h : mergeSchemas L R .FULL_JOIN (some on) = some fs) : ∀ f ∈ fs.take on.length, f.nullable = true := by
  unfold mergeSchemas getOnFields at h
  simp only [Option.getD_some] at h
  cases hl : List.mapM (fun c => List.find? (fun field => field.name == c) L) on with
  | none => simp [hl] at h
  | some fl =>
    cases hr : List.mapM (fun c => List.find? (fun field => field.name == c) R) on with
    | none => simp [hl, hr] at h
    | some fr =>
      have hlen := mapM_length _ _ _ hl
      simp [hl, hr] at h
      subst h
      intro f hf
      rw [List.take_append_of_le_length (by simp [hlen])] at hf
      have := List.mem_of_mem_take hf
      simp only [List.mem_map] at this
      obtain ⟨g, _, rfl⟩ := this
      rfl

-- OBLIGATION: PysparklingVerif.Extracted.C13.how_texts_distinct
/-- the seven join type constants are pairwise different strings -/
theorem how_texts_distinct (a b : How) (h : a.text = b.text) : a = b := by
  cases a <;> cases b <;> first | rfl | (exact absurd h (by decide))

end PysparklingVerif.Extracted.C13
