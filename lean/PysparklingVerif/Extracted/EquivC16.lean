/-
  The sampling kernels of C16 as regenerated from the current source text (GenC16.lean) are what the model the
  sampling theorems are about uses (Model/Sample.lean): the Bernoulli decision `draw < expectation` and the
  compute loop `for x in partition: for _ in range(sampler(x)): yield x`, the per-task seed `seed + index`, the
  randomSplit membership test `lb <= r < ub` and the cumulative boundary step.
-/
import PysparklingVerif.Extracted.GenC16
import PysparklingVerif.Model.Sample
namespace PysparklingVerif.Extracted.C16
open PysparklingVerif PysparklingVerif.Sample

theorem filterMap_eq_flatMap_replicate {β γ : Type} (c : β → Prop) [DecidablePred c] (g : β → γ) (l : List β) :
    l.filterMap (fun p => if c p then some (g p) else none) =
    l.flatMap (fun p => List.replicate (if c p then (1 : Nat) else 0) (g p)) := by
  induction l with
  | nil => rfl
  | cons a t ih =>
    by_cases h : c a <;> simp [List.flatMap_cons, h, ih]

-- OBLIGATION: PysparklingVerif.Extracted.C16.bernoulli_eq
/-- the sampled partition as the source computes it now (every element repeated `sampler(x)` times, the sampler
being `1 if draw < expectation else 0`) is the model's Bernoulli filter -/
theorem bernoulli_eq {α : Type} (f : Rat) (draws : List Rat) (xs : List α) :
    bernoulli f draws xs = (xs.zip draws).flatMap fun p => List.replicate (Gen.C16.bernoulliCount p.2 f) p.1 := by
  unfold bernoulli Gen.C16.bernoulliCount
  exact filterMap_eq_flatMap_replicate (fun p : α × Rat => p.2 < f) (fun p => p.1) (xs.zip draws)

-- OBLIGATION: PysparklingVerif.Extracted.C16.randomSplit_eq
/-- `randomSplit` with the membership test as the source says now (`lb <= r < ub`) -/
theorem randomSplit_eq {α : Type} (bounds draws : List Rat) (xs : List α) :
    randomSplit bounds draws xs = (bounds.zip bounds.tail).map fun b =>
      (xs.zip draws).filterMap fun p => if Gen.C16.inSplit b.1 b.2 p.2 then some p.1 else none := by
  unfold randomSplit Gen.C16.inSplit
  rfl

-- OBLIGATION: PysparklingVerif.Extracted.C16.boundaries_eq
/-- the cumulative boundaries with the step as the source says now (`boundaries[-1] + w / sum_weights`) -/
theorem boundaries_eq (ws : List Rat) :
    cumBoundaries ws = ws.foldl (fun acc w => acc ++ [Gen.C16.nextBoundary (acc.getLast?.getD 0) w (ws.foldl (· + ·) 0)]) [0] := by
  unfold cumBoundaries Gen.C16.nextBoundary
  rfl

-- OBLIGATION: PysparklingVerif.Extracted.C16.taskSeed_eq
/-- every task seeds its own generator with `seed + partition index` -/
theorem taskSeed_eq (seed i : Nat) : Gen.C16.taskSeed seed i = seed + i := by
  unfold Gen.C16.taskSeed
  rfl

end PysparklingVerif.Extracted.C16
