/-
  The stream sources as regenerated from the current source text (GenC10.lean) are the sources of the stream model
  (Model/Stream.lean `QueueSrc.get`, `FileSrc.get`, and the `src` branch of `step`, which the C10 theorems are about):
  `QueueStream.get` (default on exhaustion, one batch at a time or everything queued at once, never `queue.Empty`),
  `FileStream.get` (exactly the files not seen before, remembered afterwards) and `DStream._step` of a source stream
  (an interval already processed neither polls the source nor changes the stream; a new one polls exactly once).
-/
import PysparklingVerif.Extracted.GenC10
import PysparklingVerif.Model.Stream
namespace PysparklingVerif.Extracted.C10
open PysparklingVerif PysparklingVerif.Gen.C10 PysparklingVerif.Stream

def toQS {α : Type} (q : QueueSrc α) : QS α := { queue := q.queue, oneAtATime := q.oneAtATime, default := q.default }

-- OBLIGATION: PysparklingVerif.Extracted.C10.queueGet_eq
/-- `QueueStream.get` returns normally; after the deserializer (`None ↦ EmptyRDD`, i.e. `getD []`) it is the model's `get` -/
theorem queueGet_eq {α : Type} (q : QueueSrc α) :
    ∃ r, queueGet (toQS q) = some (r, toQS q.get.2) ∧ r.getD [] = q.get.1 := by
  obtain ⟨queue, oat, d⟩ := q
  cases queue with
  | nil => exact ⟨d, by simp [queueGet, toQS, QueueSrc.get]⟩
  | cons b rest =>
    cases oat with
    | true => exact ⟨some b, by simp [queueGet, toQS, QueueSrc.get]⟩
    | false => exact ⟨some (b :: rest).flatten, by simp [queueGet, toQS, QueueSrc.get]⟩

-- OBLIGATION: PysparklingVerif.Extracted.C10.queueGet_none_only_default
/-- `None` reaches the deserializer only as the default of an exhausted queue -/
theorem queueGet_none_only_default {α : Type} (q : QS α) (q' : QS α) (h : queueGet q = some (none, q')) :
    q.queue = [] ∧ q.default = none ∧ q' = q := by
  obtain ⟨queue, oat, d⟩ := q
  cases queue with
  | nil =>
    simp [queueGet] at h
    obtain ⟨h1, h2⟩ := h
    subst h2
    simp [h1]
  | cons b rest =>
    cases oat <;> simp [queueGet] at h

-- OBLIGATION: PysparklingVerif.Extracted.C10.fileGet_eq
/-- `FileStream.get` with `listing` being what the directory holds at this poll is the model's `FileSrc.get` -/
theorem fileGet_eq (done : List String) (listing : List String) (rest : List (List String)) :
    fileGet ⟨done⟩ listing =
      some ((FileSrc.get ⟨done, listing :: rest⟩).1, ⟨(FileSrc.get ⟨done, listing :: rest⟩).2.filesDone⟩) := by
  simp only [fileGet, FileSrc.get, List.isEmpty_iff, ne_eq, Decidable.not_not]
  split <;> rfl

-- OBLIGATION: PysparklingVerif.Extracted.C10.srcStep_guard
/-- an interval that was already processed: the stream is unchanged and the source is not polled -/
theorem srcStep_guard {ρ : Type} (self : Src ρ) (t : Nat) (got : ρ) (deser : ρ → ρ) (h : t ≤ self.current_time) :
    srcStep self t got deser = some (self, false) := by
  simp [srcStep, h]

-- OBLIGATION: PysparklingVerif.Extracted.C10.srcStep_fresh
/-- a new interval: the source is polled (once) and the stream holds the deserialized batch for that interval -/
theorem srcStep_fresh {ρ : Type} (self : Src ρ) (t : Nat) (got : ρ) (deser : ρ → ρ) (h : self.current_time < t) :
    srcStep self t got deser =
      some ({ current_time := t, current_rdd := if self.has_deserializer then deser got else got,
              has_deserializer := self.has_deserializer }, true) := by
  have h' : ¬ t ≤ self.current_time := by omega
  cases hd : self.has_deserializer <;> simp [srcStep, h', hd]

end PysparklingVerif.Extracted.C10
