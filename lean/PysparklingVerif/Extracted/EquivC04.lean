/-
  `_run_task` as regenerated from the current source text (GenC04.lean) is the retry loop of the model
  (Model/Retry.lean `runTask`, which the C04 theorems are about): the attempt counter is incremented before the
  attempt, a failed attempt is retried unless the counter EQUALS `max_retries` (and `catch_exceptions` is off), in
  which case the exception of that attempt reaches the caller.
-/
import PysparklingVerif.Extracted.GenC04
import PysparklingVerif.Model.Retry
namespace PysparklingVerif.Extracted.C04
open PysparklingVerif PysparklingVerif.Gen PysparklingVerif.Retry

def toAttempt {α : Type} : Outcome α → Gen.C04.Attempt α Exc
  | .ok v => .ok v
  | .fail e => .fail e

/-- the fault plan of the model (`outs k` = outcome of the attempt made after `k` earlier ones) as the attempt
function of the extracted code (indexed by the attempt number the task context holds during the attempt) -/
def runOf {α : Type} (outs : Nat → Outcome α) : Nat → Gen.C04.Attempt α Exc := fun n => toAttempt (outs (n - 1))

/-- one unfolding of the extracted loop -/
theorem runTask_succ {α ε : Type} (run : Nat → Gen.C04.Attempt α ε) (fuel : Nat) (tc : Gen.C04.TC) :
    Gen.C04.runTask run (fuel + 1) tc =
      match Gen.C04.runTaskBody run tc with
      | none => none
      | some (.inl r) => some r
      | some (.inr s') => Gen.C04.runTask run fuel s' := by
  simp only [Gen.C04.runTask, iterOpt]
  cases Gen.C04.runTaskBody run tc with
  | none => rfl
  | some x => cases x <;> rfl

theorem runTask_zero {α ε : Type} (run : Nat → Gen.C04.Attempt α ε) (tc : Gen.C04.TC) :
    Gen.C04.runTask run 0 tc = none := rfl

-- OBLIGATION: PysparklingVerif.Extracted.C04.runTask_eq
/-- with `catch_exceptions` off and fewer than `max_retries` attempts made so far, the extracted `_run_task`
terminates (within `max_retries - attempts` activations), and returns / raises what the model says, having made the
number of attempts the model says -/
theorem runTask_eq {α : Type} (m : Nat) (outs : Nat → Outcome α) (fuel a : Nat) (ha : a < m) (hf : m - a ≤ fuel) :
    Gen.C04.runTask (runOf outs) fuel ⟨a, m, false⟩ =
      some ((Retry.runTask m outs fuel a).result, ⟨(Retry.runTask m outs fuel a).attempts, m, false⟩) := by
  induction fuel generalizing a with
  | zero => omega
  | succ fuel ih =>
    rw [runTask_succ]
    simp only [Gen.C04.runTaskBody, Retry.runTask, runOf, Nat.add_sub_cancel]
    cases ho : outs a with
    | ok v => simp [toAttempt]
    | fail e =>
      simp only [toAttempt]
      by_cases hm : a + 1 = m
      · simp [hm]
      · simp only [hm, if_false]
        exact ih (a + 1) (by omega) (by omega)

-- OBLIGATION: PysparklingVerif.Extracted.C04.catch_never_raises
/-- with `catch_exceptions` on, no exception of an attempt ever reaches the caller -/
theorem catch_never_raises {α ε : Type} (run : Nat → Gen.C04.Attempt α ε) (fuel : Nat) (tc : Gen.C04.TC)
    (h : tc.catch_exceptions = true) (e : ε) (tc' : Gen.C04.TC) :
    Gen.C04.runTask run fuel tc ≠ some (.error e, tc') := by
  induction fuel generalizing tc with
  | zero => simp [runTask_zero]
  | succ fuel ih =>
    rw [runTask_succ]
    simp only [Gen.C04.runTaskBody]
    cases hr : run (tc.attempt_number + 1) with
    | ok v => simp
    | fail e' =>
      by_cases hm : tc.attempt_number + 1 = tc.max_retries
      · simp only [hm, h, if_true, not_true, if_false]
        exact ih _ rfl
      · simp only [hm, if_false]
        exact ih _ h

-- OBLIGATION: PysparklingVerif.Extracted.C04.past_max_never_raises
/-- the give-up test is an equality: a task context that already holds `max_retries` or more attempts (e.g.
`max_retries = 0`) is retried until an attempt succeeds -/
theorem past_max_never_raises {α ε : Type} (run : Nat → Gen.C04.Attempt α ε) (fuel : Nat) (tc : Gen.C04.TC)
    (h : tc.max_retries ≤ tc.attempt_number) (e : ε) (tc' : Gen.C04.TC) :
    Gen.C04.runTask run fuel tc ≠ some (.error e, tc') := by
  induction fuel generalizing tc with
  | zero => simp [runTask_zero]
  | succ fuel ih =>
    rw [runTask_succ]
    simp only [Gen.C04.runTaskBody]
    cases hr : run (tc.attempt_number + 1) with
    | ok v => simp
    | fail e' =>
      have hne : ¬ (tc.attempt_number + 1 = tc.max_retries) := by omega
      simp only [hne, if_false]
      exact ih _ (by simp; omega)

-- OBLIGATION: PysparklingVerif.Extracted.C04.raises_only_at_max
/-- an exception reaches the caller only from the attempt numbered `max_retries`, and it is that attempt's -/
theorem raises_only_at_max {α ε : Type} (run : Nat → Gen.C04.Attempt α ε) (fuel : Nat) (tc tc' : Gen.C04.TC) (e : ε)
    (h : Gen.C04.runTask run fuel tc = some (.error e, tc')) :
    tc'.attempt_number = tc.max_retries ∧ tc.attempt_number < tc.max_retries ∧ tc.catch_exceptions = false ∧
    run tc.max_retries = .fail e := by
  induction fuel generalizing tc with
  | zero => simp [runTask_zero] at h
  | succ fuel ih =>
    rw [runTask_succ] at h
    simp only [Gen.C04.runTaskBody] at h
    cases hr : run (tc.attempt_number + 1) with
    | ok v => simp [hr] at h
    | fail e' =>
      simp only [hr] at h
      by_cases hm : tc.attempt_number + 1 = tc.max_retries
      · cases hc : tc.catch_exceptions with
        | true =>
          exfalso
          simp only [hm, hc, if_true] at h
          exact catch_never_raises run fuel _ rfl e tc' (by simpa using h)
        | false =>
          simp [hm, hc] at h
          obtain ⟨rfl, rfl⟩ := h
          refine ⟨rfl, by omega, rfl, ?_⟩
          rw [← hm]; exact hr
      · simp only [hm, if_false] at h
        have := ih _ h
        simp at this
        obtain ⟨h1, h2, h3, h4⟩ := this
        exact ⟨h1, by omega, h3, h4⟩

end PysparklingVerif.Extracted.C04
