/-
  The cache manager and `PersistedRDD.compute` as regenerated from the current source text (GenC05.lean) are the
  store operations and the `persist` stage of the persistence model (Model/Cache.lean, Model/CacheTimed.lean, which
  the C05 theorems are about). A model state is embedded into the extracted representation (`toCM`); every
  extracted operation on an embedded state returns normally (no KeyError / IndexError, loops within their fuel),
  yields the model's answer and lands on the embedding of the model's next state.
-/
import PysparklingVerif.Extracted.GenC05
import PysparklingVerif.Model.CacheTimed
namespace PysparklingVerif.Extracted.C05
open PysparklingVerif PysparklingVerif.Gen PysparklingVerif.Gen.C05 PysparklingVerif.Cache

/-- keys of the extracted manager are what `PersistedRDD.compute` builds: `None` or `(rdd id, partition index)` -/
abbrev Key := Option (Nat × Nat)

/-- the model's timed manager in the extracted representation (a plain `CacheManager` ignores the two timed fields) -/
def toCM {α : Type} (t : Timed α) : CM Key (List α) :=
  { cache_obj := t.store.map fun p => (some p.1, { mem_obj := some p.2, disk_location := none })
    time_added := t.added.map fun p => (some p.1, (p.2 : Int))
    timeout := (t.timeout : Int) }


/-! ### helper lemmas about the embedding -/

/-- the store part of `toCM` -/
private def emb {α : Type} (s : Store α) : Assoc Key (Entry (List α)) :=
  s.map fun p => (some p.1, { mem_obj := some p.2, disk_location := none })

private theorem toCM_eq {α : Type} (t : Timed α) :
    toCM t = { cache_obj := emb t.store, time_added := t.added.map fun p => (some p.1, (p.2 : Int)),
               timeout := (t.timeout : Int) } := rfl

private theorem has_emb {α : Type} (s : Store α) (k : Nat × Nat) :
    Assoc.has (emb s) (some k) = (s.get k).isSome := by
  induction s with
  | nil => rfl
  | cons p s ih =>
    obtain ⟨a, b⟩ := p
    simp only [Assoc.has, emb, Store.get, List.map_cons, List.any_cons, List.lookup_cons] at ih ⊢
    by_cases h : k = a
    · subst h; simp
    · have h1 : (k == a) = false := by simpa using h
      have h2 : ((some a : Key) == some k) = false := by
        simp only [beq_eq_false_iff_ne, ne_eq, Option.some.injEq]; exact fun e => h e.symm
      rw [h1, h2, Bool.false_or]; exact ih

private theorem has_emb_none {α : Type} (s : Store α) : Assoc.has (emb s) (none : Key) = false := by
  induction s with
  | nil => rfl
  | cons p s ih =>
    simp only [Assoc.has, emb, List.map_cons, List.any_cons] at ih ⊢
    rw [ih]; simp

private theorem get_emb {α : Type} (s : Store α) (k : Nat × Nat) :
    Assoc.get? (emb s) (some k) =
      (s.get k).map fun d => ({ mem_obj := some d, disk_location := none } : Entry (List α)) := by
  induction s with
  | nil => rfl
  | cons p s ih =>
    obtain ⟨a, b⟩ := p
    simp only [Assoc.get?, emb, Store.get, List.map_cons, List.lookup_cons] at ih ⊢
    by_cases h : k = a
    · subst h; simp
    · have h1 : (k == a) = false := by simpa using h
      have h2 : ((some k : Key) == some a) = false := by
        simp only [beq_eq_false_iff_ne, ne_eq, Option.some.injEq]; exact h
      rw [h1, h2]; exact ih

private theorem filter_emb {α : Type} (s : Store α) (k : Nat × Nat) :
    (emb s).filter (fun p => p.1 != (some k : Key)) = emb (s.filter (fun p => p.1 != k)) := by
  induction s with
  | nil => rfl
  | cons p s ih =>
    obtain ⟨a, b⟩ := p
    simp only [emb, List.map_cons, List.filter_cons] at ih ⊢
    by_cases h : a = k
    · subst h; simpa using ih
    · have h1 : (a != k) = true := by simpa using h
      have h2 : ((some a : Key) != some k) = true := by
        simp only [bne_iff_ne, ne_eq, Option.some.injEq]; exact h
      rw [h1, h2]; simp only [if_true, List.map_cons]; rw [ih]

private theorem del_absent {α : Type} (s : Store α) (k : Nat × Nat) (h : s.get k = none) : s.del k = s := by
  induction s with
  | nil => rfl
  | cons p s ih =>
    obtain ⟨a, b⟩ := p
    simp only [Store.get, Store.del, List.lookup_cons, List.filter_cons] at ih h ⊢
    by_cases hk : k = a
    · subst hk; simp at h
    · have h1 : (k == a) = false := by simpa using hk
      have h2 : (a != k) = true := by simpa using fun e => hk e.symm
      rw [h1] at h
      rw [h2]; simp only [if_true]; rw [ih h]

private theorem put_emb {α : Type} (s : Store α) (k : Nat × Nat) (d : List α) :
    Assoc.put (emb s) (some k) ({ mem_obj := some d, disk_location := none } : Entry (List α)) = emb (s.put k d) := by
  simp only [Assoc.put, Store.put, filter_emb]
  simp [emb]

private theorem erase_emb {α : Type} (s : Store α) (k : Nat × Nat) :
    Assoc.erase (emb s) (some k) = emb (s.del k) := by
  simp only [Assoc.erase, Store.del, filter_emb]

-- OBLIGATION: PysparklingVerif.Extracted.C05.cmAdd_eq
theorem cmAdd_eq {α : Type} (t : Timed α) (k : Nat × Nat) (d : List α) :
    cmAdd (toCM t) (some k) d () = some ((), toCM { t with store := t.store.put k d }) := by
  simp only [cmAdd, toCM_eq, put_emb]

-- OBLIGATION: PysparklingVerif.Extracted.C05.cmGet_eq
theorem cmGet_eq {α : Type} (t : Timed α) (k : Nat × Nat) :
    cmGet (toCM t) (some k) = some (t.store.get k, toCM t) := by
  simp only [cmGet, toCM_eq, has_emb, get_emb]
  cases h : t.store.get k <;> simp

-- OBLIGATION: PysparklingVerif.Extracted.C05.cmHas_eq
theorem cmHas_eq {α : Type} (t : Timed α) (k : Nat × Nat) :
    cmHas (toCM t) (some k) = some ((t.store.get k).isSome, toCM t) := by
  simp only [cmHas, toCM_eq, has_emb, get_emb]
  cases h : t.store.get k <;> simp

-- OBLIGATION: PysparklingVerif.Extracted.C05.cmHas_none
/-- the key `None` (a dataset without id) is never found in a store filled through `PersistedRDD.compute` with ids -/
theorem cmHas_none {α : Type} (t : Timed α) :
    cmHas (toCM t) (none : Key) = some (false, toCM t) := by
  simp only [cmHas, toCM_eq, has_emb_none]
  simp

-- OBLIGATION: PysparklingVerif.Extracted.C05.cmDelete_eq
theorem cmDelete_eq {α : Type} (t : Timed α) (k : Nat × Nat) :
    cmDelete (toCM t) (some k) = some ((t.store.get k).isSome, toCM { t with store := t.store.del k }) := by
  simp only [cmDelete, toCM_eq, has_emb, erase_emb]
  cases h : t.store.get k
  · simp [del_absent _ _ h]
  · simp


private theorem tGc_aux {α : Type} (T : Nat) (now : Int) (a : List ((Nat × Nat) × Nat)) (s : Store α) :
    tGc (toCM ⟨s, a, T⟩) now = some ((), toCM ((⟨s, a, T⟩ : Timed α).gc now)) := by
  induction a generalizing s with
  | nil => simp [tGc, toCM, iterOpt, Timed.gc]
  | cons x a ih =>
    obtain ⟨k, ts⟩ := x
    by_cases hx : (ts : Int) ≤ now - T
    · have hd := cmDelete_eq (⟨s, (k, ts) :: a, T⟩ : Timed α) k
      have ih' := ih (s.del k)
      simp only [tGc, toCM, List.map_cons, List.length_cons, List.length_map, iterOpt] at hd ih' ⊢
      simp only [Timed.gc, List.takeWhile_cons, hx, decide_true, if_true, List.foldl_cons, List.length_cons,
        List.drop_succ_cons] at ih' ⊢
      have hx' : ¬ ((ts : Int) > now - T) := by omega
      simp only [ne_eq, reduceCtorEq, not_false_eq_true, if_true, hx', if_false, hd]
      exact ih'
    · have hx' : now - (T : Int) < (ts : Int) := by omega
      simp [tGc, toCM, iterOpt, Timed.gc, hx, hx']

-- OBLIGATION: PysparklingVerif.Extracted.C05.tGc_eq
/-- `TimedCacheManager.gc()` at time `now`: the loop over `_time_added` terminates and is the model's `gc` -/
theorem tGc_eq {α : Type} (t : Timed α) (now : Nat) :
    tGc (toCM t) (now : Int) = some ((), toCM (t.gc now)) := by
  exact tGc_aux t.timeout now t.added t.store

-- OBLIGATION: PysparklingVerif.Extracted.C05.tAdd_eq
theorem tAdd_eq {α : Type} (t : Timed α) (k : Nat × Nat) (d : List α) (now : Nat) :
    tAdd (toCM t) (some k) d () (now : Int) = some ((), toCM (t.add k d now)) := by
  have h1 := cmAdd_eq t k d
  have h2 := tGc_aux t.timeout now (t.added ++ [(k, now)]) (t.store.put k d)
  simp only [tAdd, Timed.add, toCM, List.map_append, List.map_cons, List.map_nil] at h1 h2 ⊢
  simp only [h1, h2]

-- OBLIGATION: PysparklingVerif.Extracted.C05.persistedCompute_plain
/-- `PersistedRDD.compute` over a plain `CacheManager` is the `persist` stage of `Cache.compute`: a stored
partition is returned without touching the parent; otherwise the parent is computed (it may fill the same
manager) and its data stored under `(id, i)` -/
theorem persistedCompute_plain {α : Type} (t t' : Timed α) (id i : Nat) (d : List α)
    (up : CM Key (List α) → Option (List α × CM Key (List α))) (hup : up (toCM t) = some (d, toCM t')) :
    persistedCompute ⟨toCM t⟩ (some id) (some i) up cmAdd =
      match t.store.get (id, i) with
      | some d0 => some (d0, toCM t)
      | none => some (d, toCM { t' with store := t'.store.put (id, i) d }) := by
  simp only [persistedCompute, reduceCtorEq, or_self, if_false, cmHas_eq, cmGet_eq]
  cases h : t.store.get (id, i) with
  | some d0 => simp
  | none => simp [hup, cmAdd_eq]

-- OBLIGATION: PysparklingVerif.Extracted.C05.persistedCompute_timed
/-- the same over a `TimedCacheManager` at time `now` (`computeT`'s `persist` stage: `add` stamps and collects) -/
theorem persistedCompute_timed {α : Type} (t t' : Timed α) (id i now : Nat) (d : List α)
    (up : CM Key (List α) → Option (List α × CM Key (List α))) (hup : up (toCM t) = some (d, toCM t')) :
    persistedCompute ⟨toCM t⟩ (some id) (some i) up (fun cm k x u => tAdd cm k x u (now : Int)) =
      match t.store.get (id, i) with
      | some d0 => some (d0, toCM t)
      | none => some (d, toCM (t'.add (id, i) d now)) := by
  simp only [persistedCompute, reduceCtorEq, or_self, if_false, cmHas_eq, cmGet_eq]
  cases h : t.store.get (id, i) with
  | some d0 => simp
  | none => simp [hup, tAdd_eq]

end PysparklingVerif.Extracted.C05
