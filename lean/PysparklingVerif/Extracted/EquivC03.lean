/-
  What a pool task receives and sends back, as regenerated from the current source text (GenC03.lean):
  `clone_contains(lambda i: i[1] == partition.index)`, the snapshot `stored_idents()` taken before the task,
  `get_not_in(snapshot)` after it and the driver's `join` — are the `cloneFor`, `newEntries` and `Cache.join` of
  the scheduling model (Model/Sched.lean), which `C03.cache_join_own_partition` and the backend-independence theorems
  are about. `join` is `dict.update` (an existing key keeps its position) where the model re-appends: the two agree on
  every lookup, which is all a cache manager is read through.
-/
import PysparklingVerif.Extracted.GenC03
import PysparklingVerif.Model.Sched
namespace PysparklingVerif.Extracted.C03
open PysparklingVerif PysparklingVerif.Gen PysparklingVerif.Gen.C03 PysparklingVerif.Sched

/-- a model cache in the extracted representation (every entry held in memory) -/
def toCM (c : Cache) : CM Key (List Nat) :=
  { cache_obj := c.map fun e => (e.1, { mem_obj := some e.2, disk_location := none }) }

/-- reading an ident through the manager (`get`) -/
def read (m : CM Key (List Nat)) (k : Key) : Option (List Nat) := (m.cache_obj.lookup k).bind (·.mem_obj)

theorem lk_cons {ν : Type} (k : Key) (p : Key × ν) (l : List (Key × ν)) :
    List.lookup k (p :: l) = if k = p.1 then some p.2 else l.lookup k := by
  rw [List.lookup_cons]
  by_cases h : k = p.1
  · simp [h]
  · have : (k == p.1) = false := by simpa using h
    simp [h, this]

theorem lk_map_other {ν : Type} (d : List (Key × ν)) (key k : Key) (v : ν) (hk : ¬ k = key) :
    (d.map fun p => if p.1 == key then (p.1, v) else p).lookup k = d.lookup k := by
  induction d with
  | nil => rfl
  | cons p d ih =>
    rw [List.map_cons, lk_cons, lk_cons, ih]
    by_cases hp : p.1 = key
    · have : ¬ k = p.1 := by rw [hp]; exact hk
      simp [hp, hk]
    · have : (p.1 == key) = false := by simpa using hp
      simp [this]

theorem lk_map_self {ν : Type} (d : List (Key × ν)) (key : Key) (v : ν)
    (h : d.any (·.1 == key) = true) :
    (d.map fun p => if p.1 == key then (p.1, v) else p).lookup key = some v := by
  induction d with
  | nil => simp at h
  | cons p d ih =>
    rw [List.map_cons, lk_cons]
    by_cases hp : p.1 = key
    · simp [hp]
    · have hpf : (p.1 == key) = false := by simpa using hp
      have hd : d.any (·.1 == key) = true := by
        simpa [List.any_cons, hpf] using h
      have : ¬ key = p.1 := fun e => hp e.symm
      have e : (if (p.1 == key) = true then (p.1, v) else p) = p := if_neg (by simp [hpf])
      rw [e, if_neg this]
      exact ih hd

theorem lk_none {ν : Type} (d : List (Key × ν)) (k : Key) (h : ¬ d.any (·.1 == k) = true) :
    d.lookup k = none := by
  induction d with
  | nil => rfl
  | cons p d ih =>
    simp only [List.any_cons, Bool.or_eq_true, not_or] at h
    have : ¬ k = p.1 := by
      intro e; apply h.1; simp [e]
    rw [lk_cons, ih h.2]; simp [this]

theorem lookup_set {ν : Type} (d : Assoc Key ν) (key k : Key) (v : ν) :
    (Assoc.set d key v).lookup k = if k = key then some v else d.lookup k := by
  unfold Assoc.set
  by_cases hk : k = key
  · subst hk
    split
    · rename_i h; rw [lk_map_self d k v h, if_pos rfl]
    · rename_i h
      rw [List.lookup_append, lk_none d k h, lk_cons, if_pos rfl, if_pos rfl]; rfl
  · split
    · rw [lk_map_other d key k v hk]
    · rw [List.lookup_append, lk_cons, if_neg hk]; simp [List.lookup]

theorem lk_filter_other {ν : Type} (c : List (Key × ν)) (key k : Key) (hk : ¬ k = key) :
    (c.filter (·.1 != key)).lookup k = c.lookup k := by
  induction c with
  | nil => rfl
  | cons p c ih =>
    rw [List.filter_cons]
    by_cases hp : p.1 = key
    · have : ¬ k = p.1 := by rw [hp]; exact hk
      have hpf : (p.1 != key) = false := by simp [hp]
      rw [if_neg (by simp [hpf]), lk_cons, if_neg this, ih]
    · have : (p.1 != key) = true := by simpa using hp
      simp only [this, if_true, lk_cons, ih]

theorem lookup_put (c : Cache) (key k : Key) (v : List Nat) :
    (c.put key v).lookup k = if k = key then some v else c.lookup k := by
  unfold Cache.put
  rw [List.lookup_append]
  by_cases hk : k = key
  · subst hk
    have : (c.filter (·.1 != k)).lookup k = none := by
      apply lk_none
      simp [List.any_eq_true]
    simp [this]
  · rw [lk_filter_other c key k hk]; simp [lk_cons, hk]

theorem join_inv (new : Cache) : ∀ (a : Assoc Key (Entry (List Nat))) (c : Cache),
    (∀ k, ((a.lookup k).bind (·.mem_obj)) = c.lookup k) →
    ∀ k, (((Assoc.update a (toCM new).cache_obj).lookup k).bind (·.mem_obj)) = (c.join new).lookup k := by
  induction new with
  | nil => intro a c h k; simpa [Assoc.update, toCM, Cache.join] using h k
  | cons e new ih =>
    intro a c h k
    have := ih (Assoc.set a e.1 { mem_obj := some e.2, disk_location := none }) (c.put e.1 e.2) (by
      intro k'
      rw [lookup_set, lookup_put]
      split
      · rfl
      · exact h k') k
    simpa [Assoc.update, toCM, Cache.join] using this

-- OBLIGATION: PysparklingVerif.Extracted.C03.read_toCM
theorem read_toCM (c : Cache) (k : Key) : read (toCM c) k = c.get k := by
  unfold read toCM Cache.get
  induction c with
  | nil => rfl
  | cons e c ih =>
    simp only [List.map_cons, lk_cons] at ih ⊢
    split
    · rfl
    · exact ih

-- OBLIGATION: PysparklingVerif.Extracted.C03.cloneForTask_eq
/-- the clone shipped to the task of partition `i` holds exactly the driver's entries of partition `i` -/
theorem cloneForTask_eq (c : Cache) (i : Nat) : cloneForTask (toCM c) i = toCM (cloneFor c i) := by
  simp only [cloneForTask, cloneContains, toCM, cloneFor, List.filter_map, Function.comp_def]
  congr 2
  apply List.filter_congr
  intro e _
  rw [Bool.eq_iff_iff]; simp

-- OBLIGATION: PysparklingVerif.Extracted.C03.sentBack_eq
/-- a task sends back exactly the entries whose ident its manager did not hold when the task started -/
theorem sentBack_eq (before after : Cache) :
    sentBack (toCM before) (toCM after) = (toCM (newEntries before after)).cache_obj := by
  have hs : storedIdents (toCM before) = before.map (·.1) := by
    simp only [storedIdents, toCM, List.filter_map, Function.comp_def, List.map_map]
    rw [List.filter_eq_self.2 (by simp)]
  unfold sentBack getNotIn
  rw [hs]
  simp only [toCM, newEntries, List.filter_map]
  congr 1
  apply List.filter_congr
  intro e _
  rw [Bool.eq_iff_iff]
  simp only [Function.comp_def, List.contains_iff_mem, List.mem_map, decide_eq_true_eq,
    Bool.not_eq_eq_eq_not, Bool.not_true]
  constructor
  · intro h
    rw [Bool.eq_false_iff]
    intro h'
    rw [List.any_eq_true] at h'
    obtain ⟨x, hx, hxe⟩ := h'
    exact h ⟨x, hx, by simpa using hxe⟩
  · intro h ⟨x, hx, hxe⟩
    rw [Bool.eq_false_iff] at h
    apply h
    rw [List.any_eq_true]
    exact ⟨x, hx, by simpa using hxe⟩

-- OBLIGATION: PysparklingVerif.Extracted.C03.join_read
/-- after the driver joined what a task sent back, every ident reads as in the model's `Cache.join` -/
theorem join_read (c new : Cache) (k : Key) :
    read (join (toCM c) (toCM new).cache_obj) k = (c.join new).get k := by
  have := join_inv new (toCM c).cache_obj c (fun k' => read_toCM c k') k
  simpa [read, join, Cache.get] using this

end PysparklingVerif.Extracted.C03
