import PysparklingVerif.Model.Val
import PysparklingVerif.Properties.C01
import PysparklingVerif.Properties.C07
import PysparklingVerif.Properties.C18
import PysparklingVerif.Properties.C02
import PysparklingVerif.Properties.C04
import PysparklingVerif.Properties.C17
import PysparklingVerif.Properties.C09
