import PysparklingVerif.Model.Val
