import PysparklingVerif.Model.Val
import PysparklingVerif.Properties.C01
import PysparklingVerif.Properties.C07
import PysparklingVerif.Properties.C18
